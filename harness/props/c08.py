"""C08 - bidirectional deltas invert exactly and detect a mismatched base.

proof:           Delta/*.v -> Properties/C08.v
correspondence:  payload of the bidirectional delta, t1 + d, t2 - d, and d applied to
                 corrupted bases (result + whether an error was logged), implementation vs model
direct oracle:   t2 - d == t1, (t2 - d) + d == t2, (t1 + d) - d == t1, t2' - d == t1 for t2' = t2 with every
                 dict's insertion order reversed, back-and-forth sequences (+,-,+,...) of
                 length <= 6; every single-location corruption at a values_changed / type_changes
                 path raises (raise_errors=True) or logs (raise_errors=False), on the t1 side for '+'
                 and on the t2 side for '-'; a directed delta refuses subtraction.
round 3:         planted CLASH pairs (a list index both removed and added, merged by mutual_add_removes),
                 pairs whose dicts list their common keys in a different order (korder false), subtraction
                 from the implementation's own sum and from a reordered t2, subtraction from corrupted t2
                 bases, dictionary_item_removed corruptions (model: detected), the documented non-verified
                 categories (DOC_CASES) - all compared with the model.
after C08-11:    histories on ONE Delta object (history_checks / gen_history_shapes): every well-formed sign pattern of
                 length <= 6 from t1 and from t2, raise_errors False and True, on inputs built for the ordering code
                 (sibling keys of different types above lists growing / shrinking by several items); every
                 intermediate result against t1 / t2, a fresh object and the model; the matchers of F4 / KA
                 require the failure on the FIRST application of a fresh object (holds8_fresh).
"""
import copy

from harness import core, values as V, diffcommon as D, deltacommon as DC
from harness.props import c01

THEOREM_FILE = "Properties/C08.v"
COQCHK = ["Properties.C08"]
COQ_NEEDS = ["Delta.DeltaVerifyHyp"]
RULE = ("pairs as in C01 (ordered mode; random nested values with 1-3 edits, planted atom-list edits, independent pairs) + planted clash pairs "
        "(difflib removes and adds one index: mutual_add_removes merges them) + pairs with permuted dict key order, x zip x threshold; "
        "subtraction also from the sum t1+d itself, from t2 with reversed dict orders and from t2 corrupted at a changed location; "
        "13 % of the pairs carry shared container objects (one object at two positions of t1 / of t2, t2 holding t1's own objects where they agree; never edited); "
        "for 20 % of the deltas two (construction shape in {DeepDiff object, verify_symmetry alias, Mapping, serialized bytes}) x (flag combination of "
        "always_include_values / mutate / force / log_errors / raise_errors) variants are checked for inversion and refusal of a corrupted base; "
        "the refusal of subtraction is checked for bidirectional=False x always_include_values x raise_errors; operation sequences (+corrupted, +corrupted, +t1, -t2, +corrupted, +corrupted) "
        "on ONE Delta object (raise_errors True and False) are compared step by step with a fresh object and with the pure model; "
        "for each delta every values_changed / type_changes path is corrupted once with a value that differs (Python !=) from the recorded "
        "old value; back-and-forth sequences of length <= 6. "
        "HISTORIES on ONE Delta object (raise_errors False and True; 120 pairs built for the ordering code - sibling dict keys of different types (int+str, None+str, "
        "bool+int, float+int, a tuple key) above lists that grow / shrink by 2-4 atoms or containers at the tail / middle / head, nested, with key renames, set / value / "
        "type changes - and every 4th pair of the other streams; both alignment modes): the alternating chains +,-,+,-,+,- from t1 and -,+,-,+,-,+ from t2 applied to "
        "the previous result (all 12 well-formed sign patterns are their prefixes), two random +/- patterns of length 6 on fresh copies of t1 / t2, two random patterns that "
        "also apply the object to t1 / t2 with one atom replaced (outcome = a fresh object's) or corrupted at a changed location (must be refused); every step must give "
        "exactly t2 / t1 without any error, a deviating step is compared with a fresh object (different: clause REUSE, never a known finding); the actual results of "
        "sampled steps are compared with the pure model under visiting orders computed on a fresh delta. "
        "Non-trivial = non-empty delta; distinct by (t1,t2,config[,corruption]).")
TRUSTED = c01.TRUSTED
ASSUMPTIONS = c01.ASSUMPTIONS

HYP_HDR = DC.HDR[:-1] + " Delta.DeltaVerify Delta.DeltaVerifyIndep Delta.DeltaGuard Delta.DeltaChain Delta.DeltaHyp Delta.DeltaVerifyHyp."


def keys_nonneg(v):
    """mirror of DeltaVerifyIndep.keys_nonneg: no negative int among the dict keys"""
    if isinstance(v, (list, tuple)):
        return all(keys_nonneg(x) for x in v)
    if isinstance(v, dict):
        return all(not (type(k) is int and k < 0) and keys_nonneg(x) for k, x in v.items())
    return True


def korder(t1, t2):
    """mirror of DeltaReverseSym.korder: dicts paired by the diff list their common keys in the same order"""
    if (type(t1) is list and type(t2) is list) or (type(t1) is tuple and type(t2) is tuple):
        return all(korder(x, y) for x, y in zip(t1, t2))
    if isinstance(t1, dict) and isinstance(t2, dict):
        c1 = [V.canon_atom(k) for k in t1 if k in t2]
        c2 = [V.canon_atom(k) for k in t2 if k in t1]
        return c1 == c2 and all(korder(v, t2[k]) for k, v in t1.items() if k in t2)
    return True


def mutual_clash(t1, t2, cfg):
    """does TreeResult.mutual_add_removes_to_become_value_changes find a path that is both added and removed
    (observed on the implementation; mirror of the negation of DeltaReverseDefault.no_clash)"""
    from deepdiff import DeepDiff
    from deepdiff.model import TreeResult
    seen = []
    orig = TreeResult.mutual_add_removes_to_become_value_changes

    def wrapped(self):
        a, r = self.get('iterable_item_added'), self.get('iterable_item_removed')
        if a is not None and r is not None:
            seen.append(bool({i.path() for i in a} & {i.path() for i in r}))
        return orig(self)
    TreeResult.mutual_add_removes_to_become_value_changes = wrapped
    try:
        DeepDiff(copy.deepcopy(t1), copy.deepcopy(t2), view="tree", **cfg)
    finally:
        TreeResult.mutual_add_removes_to_become_value_changes = orig
    return any(seen)


def ordfree(v):
    """mirror of DeltaGuard.ordfree: no dict / set anywhere"""
    if isinstance(v, (list, tuple)):
        return all(ordfree(x) for x in v)
    return not isinstance(v, (dict, set, frozenset))


def gen_clash(ctx, n):
    """pairs on which difflib removes index i of a list and adds index i (clash: mutual_add_removes merges the two
    levels into one values_changed): distinct atoms x0..x(n-1), x_i deleted, one item inserted in front and one
    at t2 index i, separated from the deletion by the equal item x_(i-1); also the mirrored pair"""
    rng = ctx.rng
    out = []
    pool = ["a", "b", "c", "d", "e", "f", "g", "h", 10, 11, 12, 13, 14, 2.5, 3.5, None, b"x", b"y"]
    for _ in range(n):
        m = rng.randint(4, 7)
        xs = rng.sample(pool, m + 2)
        y0, y1, xs = xs[0], xs[1], xs[2:]
        i = rng.randint(1, m - 1)
        t2 = [y0] + xs[:i - 1] + [y1] + xs[i - 1:i] + xs[i + 1:]
        a, b = (xs, t2) if rng.random() < 0.6 else (t2, xs)
        a, b = c01.plant_ld(rng, rng.choice([0, 0, 1, 2]), (a, b))
        ctx.count("gen:planted_clash")
        out.append((a, b))
    return out


def gen_dict_removed(ctx, n):
    """t2 = t1 with one key of one dict (that has >= 2 keys) removed, sometimes after another edit: dictionary_item_removed
    entries, whose recorded value _do_item_removed verifies"""
    rng = ctx.rng
    out = []

    def dict_paths(v, pre, acc):
        if isinstance(v, dict):
            if len(v) >= 2:
                acc.append(pre)
            for k, x in v.items():
                dict_paths(x, pre + [k], acc)
        elif isinstance(v, list):
            for i, x in enumerate(v):
                dict_paths(x, pre + [i], acc)
        return acc
    tries = 0
    while len(out) < n and tries < 20 * n:
        tries += 1
        t1 = V.gen_value(rng, depth=rng.choice([2, 3]), width=4, kinds="LDDD")
        ps = dict_paths(t1, [], [])
        if not ps:
            continue
        pth = rng.choice(ps)
        dct = dict(get_at(t1, pth))
        del dct[rng.choice(list(dct))]
        t2 = set_at(copy.deepcopy(t1), pth, dct)
        if rng.random() < 0.4:
            try:
                t2, _k = V.edit(rng, t2, kinds=["replace_atom"])
            except Exception:
                pass
        ctx.count("gen:dict_key_removed")
        out.append((t1, t2))
    return out


def gen_reordered(ctx, pairs, n):
    """(t1, t2') for generated pairs (t1, t2) with t2' = t2 with the insertion order of every dict reversed:
    paired dicts list their common keys in different orders (korder false)"""
    out = []
    for t1, t2 in pairs:
        if len(out) >= n:
            break
        r2 = c01.reordered(t2)
        if V.canon(r2) != V.canon(t2) and not korder(t1, r2):
            ctx.count("gen:permuted_dict_order")
            out.append((copy.deepcopy(t1), r2))
    return out


# documented behaviour beyond the property's quantifier (Properties/C08.v section 13): (t1, t2, base, expectation)
# 'detected' = an error is logged / raised, 'accepted' = applied (or skipped) silently
DOC_CASES = [
    ({'a': 1, 'b': 2}, {'a': 1}, {'a': 1, 'b': 9}, "detected"),      # dictionary_item_removed, value differs
    ((1, 2, 3), (1, 2), (1, 2, 9), "detected"),                      # iterable_item_removed from a tuple
    ({'a': 1, 'b': 2}, {'a': 1}, {'a': 1}, "accepted"),              # removed key is missing
    ([1, 2, 3], [1, 2], [1, 2, 9], "accepted"),                      # removed LIST item differs
    ({1, 2}, {1}, {1, 5}, "accepted"),                               # absent set member
    ([1, 2], [1, 2, 3], [1, 7], "accepted"),                         # iterable_item_added
    ({'a': 1}, {'a': 1, 'b': 2}, {'a': 1, 'b': 7}, "accepted"),      # dictionary_item_added over an existing key
    ([1, 2, 3, 4], [0, 1, 2, 3, 5], [9, 9, 9, 4], "accepted:default-mode"),   # opcodes: old values not compared
    ({'a': 1, 'b': 2}, {'b': 2}, None, "order"),                     # t2 - d == t1 but the key order differs
    ({'a': 1, 'b': 2}, {'b': 20, 'a': 10}, None, "korder"),          # C08_diff_symmetric_without_korder_refuted
]


def doc_cases(ctx, cases):
    """the witnesses of Properties/C08.v section 12 / 13 on the implementation and (same inputs) on the model"""
    from deepdiff import DeepDiff, Delta
    for t1, t2, base, want in DOC_CASES:
        want, _, only = want.partition(":")
        for zip_ in ((False,) if only else (False, True)):
            cfg = dict(zip_ordered_iterables=zip_, threshold_to_diff_deeper=0)
            dd = DeepDiff(copy.deepcopy(t1), copy.deepcopy(t2), view="tree", **cfg)
            d = Delta(dd, bidirectional=True)
            rem, add = DC.impl_orders(d)
            conv = DC.conv_table(DC.type_change_pairs(dd))
            tag = dict(t1=repr(t1), t2=repr(t2), base=repr(base), zip=zip_, documented=want)
            if want == "korder":
                # the code walks the common keys in t2's order, the model in t1's; the implementation inverts the pair
                order = [repr(DC.parse_pathc(p_)) for p_ in d.diff.get("values_changed", {})]
                code_is_t2_order = order == [repr(DC.parse_pathc("root['%s']" % k)) for k in t2]
                ctx.count("doc:korder_witness:code_walks_common_keys_in_t2_order" if code_is_t2_order else "doc:korder_witness:CODE_ORDER_CHANGED")
                ctx.seen(("doc-korder", zip_), nontrivial=True)
                if not holds8(t1, t2, cfg):
                    ctx.fail(dict(clause=INVERSION, t1=repr(t1), t2=repr(t2), cfg=cfg, **c01.describe(t1, t2)), "the korder witness is not inverted")
                fwd, back = copy.deepcopy(t1) + d, copy.deepcopy(t2) - d
                for op_, base_, res_, ro_ in (("add", t1, fwd, DC.impl_orders(d)), ("sub", t2, back, None)):
                    if ro_ is None:
                        rd_ = Delta(dd, bidirectional=True); rd_.diff = rd_._get_reverse_diff(); ro_ = DC.impl_orders(rd_)
                    cases.append((DC.model_expr(t1, t2, zip_, 0, True, False, base_, conv, ro_[0], ro_[1], want=op_),
                                  [DC.delta_obs(d.diff), [DC.canon_unordered(res_), False]], dict(tag, op="korder witness: " + op_)))
                continue
            if want == "order":
                back = copy.deepcopy(t2) - d
                same_order = V.canon(back) == V.canon(t1)
                ctx.count("doc:sub_result_equal_but_reordered" if (V.typed_eq(back, t1) and not same_order) else "doc:sub_result_identical")
                if not V.typed_eq(back, t1):
                    ctx.fail(dict(clause=INVERSION, t1=repr(t1), t2=repr(t2), cfg=cfg, observed=repr(back), **c01.describe(t1, t2)), "t2 - d != t1 on a documented witness")
                continue
            try:
                copy.deepcopy(base) + Delta(dd, bidirectional=True, raise_errors=True)
                raised = False
            except Exception:
                raised = True
            with DC.Counting() as cnt:
                res = copy.deepcopy(base) + d
            got = "detected" if (raised and cnt.n > 0) else "accepted" if (not raised and cnt.n == 0) else "inconsistent"
            ctx.count("doc:%s:%s" % (want, "as_documented" if got == want else "CHANGED_to_" + got))
            ctx.seen(("doc", repr(t1), repr(t2), repr(base), zip_), nontrivial=True)
            cases.append((DC.model_expr(t1, t2, zip_, 0, True, False, base, conv, rem, add),
                          [DC.delta_obs(d.diff), [DC.canon_unordered(res), cnt.n > 0]], dict(tag, op="documented verification behaviour")))


def _same_key(a, b):
    return V.canon_atom(a) == V.canon_atom(b)


def _nonneg_key(a):
    return not (isinstance(a, (bool, int)) and int(a) < 0)


def sep_py(a, b):
    """mirror of DeltaVerify.sep: not ==-equal and no negative index"""
    return (not DC._py_eq(a, b)) and _nonneg_key(a) and _nonneg_key(b)


def diverge_py(p, q):
    """mirror of DeltaVerify.diverge on key sequences"""
    for a, b in zip(p, q):
        if _same_key(a, b):
            continue
        return sep_py(a, b)
    return False


def removed_key_guard(q, delta, drem_order):
    """mirror of DeltaVerifyBase.leaves_alone q d && earlier_ok q l1 (l1 = the removals the implementation visits before q)"""
    diff = delta.diff
    P = lambda s_: py_path(DC.parse_pathc(s_))
    ok = all(diverge_py(q, P(p_)) for cat in ("values_changed", "type_changes", "set_item_added", "set_item_removed",
                                              "_iterable_opcodes", "dictionary_item_added") for p_ in diff.get(cat, {}))
    ok = ok and all(diverge_py(q, P(p_)[:-1]) for cat in ("iterable_item_removed", "iterable_item_added") for p_ in diff.get(cat, {}))
    ok = ok and all(diverge_py(q, P(p_)[:-1]) and diverge_py(q, P(ch["new_path"])[:-1]) for p_, ch in diff.get("iterable_item_moved", {}).items())
    for pc in drem_order:
        p_ = py_path(pc)
        if len(p_) == len(q) and all(_same_key(a, b) for a, b in zip(p_, q)):
            break
        same_parent = bool(p_) and len(p_) == len(q) and all(_same_key(a, b) for a, b in zip(p_[:-1], q[:-1]))
        ok = ok and (diverge_py(q, p_[:-1]) or (same_parent and sep_py(q[-1], p_[-1])))
    return ok


def ntp_vals(t2, d):
    """mirror of DeltaVerifyHyp.ntp_valsb: no tuple is the parent (in t2) of a location the subtraction writes a
    value change to (the reverse key of a values_changed entry is its new_path, else its path)"""
    for p, ch in d.diff.get("values_changed", {}).items():
        keys = py_path(DC.parse_pathc(ch["new_path"] if ch.get("new_path") else p))
        if not keys:
            continue
        try:
            parent = get_at(t2, keys[:-1])
        except Exception:
            continue
        if isinstance(parent, tuple):
            return False
    return True


def hyp_expr8(t1, t2, zip_, thr, conv_tbl, kn, rrem, radd, kn1=True):
    """Coq expression (sx) of the observed guards of the C08 theorems on the bidirectional delta of the diff:
    indep_verified d (claimed by C08_indep_guard_of_diff when keys_nonneg t2), ops_ok 0 on every difflib opcode
    list (ops_disjoint), sym_okb on every entry of the result tree (sym_ok incl. moved_identical), keys_nonneg t2,
    korder, no_clash, ntp_vals, ops_sorted2, and (round 3) orders_ok_at on the REVERSED delta for the implementation's
    visiting orders of the reversed delta, ordfree t1, ordfree t2"""
    ops = D.coq_ops_table(D.opcode_table(t1, t2))
    return ("(let r := run_diff hatom_deep (tbl_udiff %s) (tbl_ops %s) no_paths no_paths %s %s %s in "
            "let d := to_delta (tbl_conv %s) true false (tbl_ops %s) %s %s (fst r) (snd r) in "
            "sx_c08hyp12 %s (ops_table_disjointb %s) (forallb sym_okb (fst r)) (keys_nonneg %s) (korderb %s %s) "
            "(no_clashb (fst (diff hatom_deep (tbl_udiff %s) (tbl_ops %s) no_paths no_paths %s %s %s [] []))) "
            "(ntp_valsb %s d) (ops_table_sorted2b %s) "
            "(orders_okb (order_by %s fst) (order_by %s fst) (reverse d)) (ordfree %s) (ordfree %s) %s)") % (
        D.coq_udiff_table(D.udiff_table(t1, t2)), ops, D.coq_cfg(zip_, thr, True), V.to_coq(t1), V.to_coq(t2),
        conv_tbl, ops, V.to_coq(t1), V.to_coq(t2),
        "(indep_verified d)" if kn else "true", ops, V.to_coq(t2), V.to_coq(t1), V.to_coq(t2),
        D.coq_udiff_table(D.udiff_table(t1, t2)), ops, D.coq_cfg(zip_, thr, True), V.to_coq(t1), V.to_coq(t2),
        V.to_coq(t2), ops, DC.coq_paths(rrem), DC.coq_paths(radd), V.to_coq(t1), V.to_coq(t2),
        "(indep_verified (reverse d))" if kn1 else "true")


def holds8(t1, t2, cfg, always=False):
    """the inversion clause of C08 on one input (plain bidirectional delta of the pair)"""
    from deepdiff import DeepDiff, Delta
    try:
        d = Delta(DeepDiff(copy.deepcopy(t1), copy.deepcopy(t2), **cfg), bidirectional=True)
        with DC.Counting() as cnt:
            fwd = copy.deepcopy(t1) + d
            back = copy.deepcopy(t2) - d
            again = copy.deepcopy(back) + d
            back2 = copy.deepcopy(fwd) - d
            back3 = c01.reordered(copy.deepcopy(t2)) - d
        return (V.typed_eq(fwd, t2) and V.typed_eq(back, t1) and V.typed_eq(again, t2) and V.typed_eq(back2, t1)
                and V.typed_eq(back3, t1) and cnt.n == 0)
    except Exception:
        return False


# the clause of the property a failing case is about (recorded in every case; the known-finding matchers
# only speak about the inversion clause: F4 / KA / F9 say nothing about refusal, detection of a mismatched base
# or the history independence of a reused Delta object)
INVERSION, DETECTION, REFUSAL, REUSE, BUILD = ("inversion: t1+d == t2, t2-d == t1, sequences", "detection of a mismatched base",
                                               "refusal of subtraction by a directed delta", "a reused Delta object behaves like a fresh one",
                                               "building the bidirectional delta")


def m_path_cache(case):
    """F9: the input fails in the current process state and passes once the process-global lru_cache of
    deepdiff.path._path_to_elements (polluted by an earlier, unrelated Delta application) is cleared"""
    from deepdiff.path import _path_to_elements
    if case.get("clause") != INVERSION:
        return False
    t1, t2, cfg, _always = c01._inputs(case)
    if holds8(t1, t2, cfg):
        return False
    clear = getattr(_path_to_elements, "cache_clear", None)    # gone since the fix 587d7f6
    if clear is None:
        return False
    clear()
    return holds8(t1, t2, cfg)


def _inv_only(m):
    """a C01 matcher restricted to failures of the inversion clause that the plain bidirectional delta of the SAME pair
    shows as well (the counterfactual 'passes once the feature is removed' is evaluated with holds8 on that delta; a
    failure that only occurs for another construction shape / flag combination is not the finding's)"""
    def f(case):
        if case.get("clause") != INVERSION:
            return False
        t1, t2, cfg, _a = c01._inputs(case)
        if holds8(t1, t2, cfg):          # the finding's own failure must be present on the plain delta
            return False
        # ... and on the FIRST application of a fresh object: F4 / KA are defects of a single application.  A failure that
        # appears only on the second or later application of one object (state kept across applications: seeded C08-11,
        # whose trigger - sibling keys of different types - dealias() happens to remove) is never theirs
        if holds8_fresh(t1, t2, cfg):
            return False
        return m(case, holds8)
    return f


def holds8_fresh(t1, t2, cfg):
    """the inversion clause with a NEW Delta object for every single application (no history on any object)"""
    from deepdiff import DeepDiff, Delta
    try:
        dd = DeepDiff(copy.deepcopy(t1), copy.deepcopy(t2), **cfg)
        new = lambda: Delta(dd, bidirectional=True)
        with DC.Counting() as cnt:
            fwd = copy.deepcopy(t1) + new()
            back = copy.deepcopy(t2) - new()
            again = copy.deepcopy(back) + new()
            back2 = copy.deepcopy(fwd) - new()
            back3 = c01.reordered(copy.deepcopy(t2)) - new()
        return (V.typed_eq(fwd, t2) and V.typed_eq(back, t1) and V.typed_eq(again, t2) and V.typed_eq(back2, t1)
                and V.typed_eq(back3, t1) and cnt.n == 0)
    except Exception:
        return False


def one_item_sets_added(v):
    """does the value hold a one-element set anywhere a flat-row conversion looks (the value itself)"""
    return isinstance(v, set) and len(v) == 1


def m_flat_rows_pop(case):
    """F11: the failure is 'the delta changed under a read-only conversion', the conversion is to_flat_rows / to_flat_dicts,
    the delta adds a dictionary item whose value is a ONE-element set, and exactly such a set is what got emptied"""
    if case.get("clause") != REUSE or case.get("observer") not in ("to_flat_rows", "to_flat_dicts"):
        return False
    emptied = case.get("emptied_one_item_sets")
    return bool(emptied) and case.get("other_payload_changes") is False


MATCHERS = {"F4": _inv_only(c01.m_tuple_container), "KA": _inv_only(c01.m_alias), "F11": m_flat_rows_pop,
            "F7": lambda c: False,   # bidirectional deltas always carry the values
            "F9": m_path_cache}
THRS = (0, 0.33, 0.9)


def py_path(pc):
    return [D.uncanon_atom(x) for _t, x in pc]


def get_at(v, keys):
    for k in keys:
        v = v[k]
    return v


def set_at(v, keys, new):
    if not keys:
        return new
    k = keys[0]
    if isinstance(v, list):
        c = list(v); c[k] = set_at(v[k], keys[1:], new); return c
    if isinstance(v, tuple):
        c = list(v); c[k] = set_at(v[k], keys[1:], new); return tuple(c)
    if isinstance(v, dict):
        c = dict(v); c[k] = set_at(v[k], keys[1:], new); return c
    raise TypeError(v)


def py_differs(a, b):
    try:
        return bool(a != b) and not (a == b)
    except Exception:
        return False


def corrupt_value(rng, old):
    for _ in range(20):
        c = rng.choice([None, "zz", 77, 7.5, ["q"], {"q": 1}, (5,), "q"])
        try:
            if c != old and not (c == old):
                return c
        except Exception:
            pass
    return "zz9"


def graft(t1, t2):
    """t2 with every container that is typed-equal to the container at the same position of t1 replaced by that very
    OBJECT (structure sharing between the two inputs, as an edit of a shallow copy produces it).  Deterministic: a
    replay rebuilds the sharing from the unfolded values"""
    def g(a, b):
        if isinstance(a, (list, dict, set, tuple, frozenset)) and type(a) is type(b) and V.canon(a) == V.canon(b):
            return a
        if type(a) is list and type(b) is list:
            return [g(x, y) for x, y in zip(a, b)] + list(b[len(a):])
        if type(a) is tuple and type(b) is tuple:
            return tuple([g(x, y) for x, y in zip(a, b)] + list(b[len(a):]))
        if type(a) is dict and type(b) is dict:
            return {k: (g(a[k], v) if k in a else v) for k, v in b.items()}
        return b
    return g(t1, t2)


SHARE_MODES = ("cross", "within", "within+cross")


def reshare(t1, t2, mode):
    """rebuild the object sharing of a generated / replayed pair from its unfolded values: 'within' = the pair is
    {'x': .., 's1': S, 's2': S}: ONE container object S at two positions of t1 (and one at two positions of t2);
    'cross' = t2 holds t1's own objects wherever the two agree"""
    t1, t2 = copy.deepcopy(t1), copy.deepcopy(t2)
    if mode and mode.startswith("within"):
        t1["s2"] = t1["s1"]
        t2["s2"] = t2["s1"]
    if mode and mode.endswith("cross"):
        t2 = graft(t1, t2)
    return t1, t2


def with_sharing(ctx, t1, t2):
    """a pair with shared container objects whose UNFOLDED value stays inside the property's domain (tree-shaped
    values: the shared object is never edited, the delta does not touch it)"""
    rng = ctx.rng
    mode = rng.choice(SHARE_MODES)
    if mode.startswith("within"):
        S = V.gen_value(rng, depth=2, width=3, kinds="LLD")
        if not isinstance(S, (list, dict)):
            S = [S, {"k": 1}]
        t1, t2 = {"x": t1, "s1": S, "s2": S}, {"x": t2, "s1": S, "s2": S}
    ctx.count("shared:" + mode)
    a, b = reshare(t1, t2, mode)
    return a, b, mode


FLAG_COMBOS = [dict(always_include_values=True, mutate=True), dict(force=True, log_errors=False),
               dict(mutate=True, force=True, raise_errors=True), dict(always_include_values=True, log_errors=False, raise_errors=True),
               dict(raise_errors=True, force=True, always_include_values=True, mutate=True)]
SHAPES = ("object", "verify_symmetry", "dict", "bytes")


def build_variant(dd, d, shape, flags):
    """the same bidirectional delta through another accepted construction shape, with a combination of flags"""
    from deepdiff import Delta
    if shape == "object":
        return Delta(dd, bidirectional=True, **flags)
    if shape == "verify_symmetry":                      # deprecated alias of bidirectional
        return Delta(dd, verify_symmetry=True, **flags)
    if shape == "dict":                                 # a Mapping: the payload of a bidirectional delta
        return Delta(copy.deepcopy(d.to_dict()), bidirectional=True, **flags)
    return Delta(d.dumps(), bidirectional=True, **flags)    # serialized bytes


def variant_checks(ctx, t1, t2, dd, d, base_case, corrupt_bases, all_=False):
    """inversion and detection for other construction shapes x flag combinations of the same delta"""
    rng = ctx.rng
    combos = [(sh_, fl) for sh_ in SHAPES for fl in FLAG_COMBOS]
    if not all_:
        combos = rng.sample(combos, 2)
    for shape, flags in combos:
        vcase = dict(base_case, delta_shape=shape, delta_flags=flags)
        ctx.count("variant:%s" % shape)
        try:
            v = build_variant(dd, d, shape, flags)
        except Exception as e:
            ctx.fail(dict(vcase, clause=BUILD, observed="raised %s: %s" % (type(e).__name__, str(e)[:120])), "building the bidirectional delta raised (shape %s)" % shape)
            continue
        ctx.seen((repr(t1), repr(t2), repr(base_case.get("cfg")), shape, repr(sorted(flags.items()))), nontrivial=bool(d.diff))
        try:
            with DC.Counting() as cnt:
                fwd = copy.deepcopy(t1) + v
                back = copy.deepcopy(t2) - v
                again = copy.deepcopy(back) + v
                back2 = copy.deepcopy(fwd) - v
            ok = V.typed_eq(fwd, t2) and V.typed_eq(back, t1) and V.typed_eq(again, t2) and V.typed_eq(back2, t1) and cnt.n == 0
            if not ok:
                ctx.fail(dict(vcase, clause=INVERSION, observed=dict(add=repr(fwd), sub=repr(back), add_again=repr(again), sum_minus_d=repr(back2), errors=cnt.n)),
                         "bidirectional delta (shape %s, flags %s) does not invert" % (shape, flags))
        except Exception as e:
            ctx.fail(dict(vcase, clause=INVERSION, observed="raised %s: %s" % (type(e).__name__, str(e)[:150])),
                     "bidirectional delta (shape %s, flags %s) raised while inverting" % (shape, flags))
        for base in corrupt_bases[:1]:
            raised = False
            with DC.Counting() as cnt:
                try:
                    copy.deepcopy(base) + v
                except Exception:
                    raised = True
            good = raised if flags.get("raise_errors") else (cnt.n > 0 or raised)
            ctx.count("variant_corruptions")
            if not good:
                ctx.fail(dict(vcase, clause=DETECTION, corrupted_base=repr(base), observed="accepted: raised=%s, errors=%d" % (raised, cnt.n)),
                         "a mismatched base was accepted (shape %s, flags %s)" % (shape, flags))


ORDER_CASES = []
REM_CASES = []
REM_HDR = DC.HDR[:-1] + " Delta.DeltaVerify Delta.DeltaVerifyMore Delta.DeltaVerifyBase."
OBSERVERS = ("to_flat_rows", "to_flat_dicts", "to_dict", "dumps", "repr", "_get_reverse_diff")


def observers_leave_delta_alone(ctx, t1, t2, dd, base_case):
    """history independence, read-only half: converting / serialising / printing a bidirectional delta must not change
    it - afterwards the object still carries the same payload, t1 + d == t2 and t2 - d == t1 (clause REUSE)"""
    from deepdiff import Delta
    for name in OBSERVERS:
        d = Delta(dd, bidirectional=True)
        before = copy.deepcopy(d.diff)
        try:
            {"to_flat_rows": d.to_flat_rows, "to_flat_dicts": d.to_flat_dicts, "to_dict": d.to_dict, "dumps": d.dumps,
             "repr": lambda: repr(d), "_get_reverse_diff": d._get_reverse_diff}[name]()
        except Exception as e:
            ctx.count("observer:%s:raised_%s" % (name, type(e).__name__))
            continue
        ctx.count("observer:" + name)
        same = DC.delta_obs(d.diff) == DC.delta_obs(before) if DC.in_universe(t1) and DC.in_universe(t2) else repr(d.diff) == repr(before)
        try:
            with DC.Counting() as cnt:
                fwd = copy.deepcopy(t1) + d
                back = copy.deepcopy(t2) - d
            good = V.typed_eq(fwd, t2) and V.typed_eq(back, t1) and cnt.n == 0
            obs = dict(add=repr(fwd), sub=repr(back), errors=cnt.n)
        except Exception as e:
            good, obs = False, "raised %s" % type(e).__name__
        ref_ok = holds8(t1, t2, base_case["cfg"])
        if (not same or not good) and ref_ok:
            # what changed: one-element sets among the added dictionary items that are empty now; anything else
            add_b, add_a = before.get("dictionary_item_added", {}), d.diff.get("dictionary_item_added", {})
            emptied = [p for p, v in add_b.items() if one_item_sets_added(v) and add_a.get(p) == set()]
            rest_b = {k: ({p: v for p, v in x.items() if p not in emptied} if k == "dictionary_item_added" else x) for k, x in before.items()}
            rest_a = {k: ({p: v for p, v in x.items() if p not in emptied} if k == "dictionary_item_added" else x) for k, x in d.diff.items()}
            ctx.fail(dict(base_case, clause=REUSE, observer=name, payload_unchanged=same, observed=obs,
                          emptied_one_item_sets=emptied, other_payload_changes=(repr(rest_b) != repr(rest_a))),
                     "a bidirectional delta no longer inverts after the read-only call %s()" % name if same or not good
                     else "the payload of a bidirectional delta changed under the read-only call %s()" % name)


def flat_rows_probe(ctx, t1, t2, dd):
    """OBSERVATION only (outside the property's wording: deepdiff documents the flat-row conversion as lossy - one-key dicts
    and one-item lists are flattened, force=True is required): does the bidirectional delta rebuilt from its own flat rows
    invert?  Counted in the evidence, never a failure"""
    from deepdiff import Delta
    try:
        rows = Delta(dd, bidirectional=True).to_flat_rows()
        if not rows:
            try:
                Delta(flat_rows_list=rows, bidirectional=True)
                ctx.count("flat_rows:empty_delta:accepted")
            except ValueError:
                ctx.count("flat_rows:empty_delta:rejected_with_ValueError")
            return
        f = Delta(flat_rows_list=rows, bidirectional=True, force=True)
        with DC.Counting() as cnt:
            fwd = copy.deepcopy(t1) + f
            back = copy.deepcopy(t2) - f
        ok = V.typed_eq(fwd, t2) and V.typed_eq(back, t1) and cnt.n == 0
        ctx.count("flat_rows:round_trip_with_force:" + ("inverts" if ok else "does_not_invert"))
    except Exception as e:
        ctx.count("flat_rows:round_trip_with_force:raised_" + type(e).__name__)


def gen_single_added(ctx, n):
    """t2 = t1 (a dict somewhere) with one NEW key whose value is a one-element container ({x}, [x], (x,), {k: x}) or an
    atom: the values to_flat_rows flattens"""
    rng = ctx.rng
    out = []
    for _ in range(n):
        inner = {"a": V.gen_atom(rng), "b": [V.gen_atom(rng)]}
        x = V.gen_atom(rng)
        new = rng.choice([{x}, [x], {"k": x}, x, frozenset([x]), {x, "zz"}])
        try:
            hash(x)
        except TypeError:
            continue
        t1 = inner if rng.random() < 0.5 else [1, inner]
        t2 = copy.deepcopy(t1)
        (t2 if isinstance(t2, dict) else t2[1])["n"] = new
        if rng.random() < 0.4:
            (t2 if isinstance(t2, dict) else t2[1])["m"] = V.gen_atom(rng)
        ctx.count("gen:one_element_container_added")
        out.append((t1, t2))
    return out


# ---------------------------------------------------------------------------
# histories on ONE Delta object (added after seeded C08-11: state kept on / keyed by the Delta object or its report
# dicts across applications, depending on the direction).  Inputs built for the ordering code of _do_item_added /
# _do_item_removed: sibling dict keys of different types (int+str, None+str, bool+int, float+int, a tuple key) at the
# level above lists that grow / shrink by 2-4 items at the tail / in the middle / at the head (atoms and containers:
# with both alignment modes the item-by-item and the opcode encodings occur), nested, with key renames and other categories
# ---------------------------------------------------------------------------
HIST_KEYSETS = [(1, "a"), (None, "a"), (True, 2), (0.5, 3), (None, "a", 4), ("b", 2, 1.5), (False, "k1"), (2, "a", "b"), (3, 1.5, None),
                (1, 2), ("a", "b"), (None, 2), (0.5, "a"), (True, "a", 2), (4, "4"), ((1, 2), "a"), (("x",), 3)]
HIST_ATOMS = ["p", "q", "r", "s", "t", "u", "w", "pq", 5, 6, 7, 8, 9, 10, 11, 5.5, 6.5, 7.5, b"p"]
HIST_THRS = (0, 0, 0, 0.33, 0.9)


def _hist_list_pair(rng):
    """(short, long, where): long = short with 2-4 extra items at the tail / in the middle / at the head"""
    m, k = rng.randint(0, 3), rng.randint(2, 4)
    atoms = rng.sample(HIST_ATOMS, m + k)
    shape = rng.random()
    items = atoms if shape < 0.5 else [[a] for a in atoms] if shape < 0.75 else [{"k": a} for a in atoms] if shape < 0.9 else [[a, "z"] if i % 2 else a for i, a in enumerate(atoms)]
    base, extra = items[:m], items[m:]
    where = rng.choice(("tail", "tail", "middle", "head")) if m else "tail"
    pos = len(base) if where == "tail" else 0 if where == "head" else rng.randint(1, max(1, m - 1))
    return base, base[:pos] + extra + base[pos:], where


def gen_history_shapes(ctx, n):
    rng = ctx.rng
    out = []
    for _ in range(n):
        keys = list(rng.choice(HIST_KEYSETS))
        rng.shuffle(keys)
        d1, d2 = {}, {}
        tuple_key_edited = False
        for i, k in enumerate(keys):
            r = rng.random()
            if i < 2 or r < 0.55:
                a, b, where = _hist_list_pair(rng)
                if rng.random() < 0.45:
                    a, b = b, a
                    ctx.count("hist_gen:list_shrinks_at_" + where)
                else:
                    ctx.count("hist_gen:list_grows_at_" + where)
                deeper = rng.random()
                if deeper < 0.15:
                    a, b = {"p": a, 7: "x"}, {"p": b, 7: "x"}
                elif deeper < 0.3:
                    a, b = [a, "zz"], [b, "zz"]
                if isinstance(k, tuple):
                    if rng.random() < 0.5:
                        b = copy.deepcopy(a)        # the subtree under a tuple key stays as it is (its delta paths are not faithful)
                    else:
                        tuple_key_edited = True
            elif r < 0.7:
                a, b = rng.sample(HIST_ATOMS, 2)
            elif r < 0.8:
                a, b = 5, "5"
            elif r < 0.9:
                a, b = {5, 6, "p"}, {6, "p", 7}
            else:
                a = rng.sample(HIST_ATOMS, 2)
                b = copy.deepcopy(a)
            d1[k], d2[k] = a, b
        if rng.random() < 0.4:                     # a renamed key: one dictionary item removed and one added
            v = rng.choice([[5, 6], "v", {"q": [5]}])
            ko, kn = rng.choice([("colour", "color"), (21, "21"), ("n", None), (9.5, 9)])
            if ko not in d1 and kn not in d1:
                d1[ko], d2[kn] = v, copy.deepcopy(v)
                ctx.count("hist_gen:renamed_key")
        wrap = rng.random()
        if wrap < 0.45:
            t1, t2 = d1, d2
        elif wrap < 0.6:
            t1, t2 = [5, d1, "e"], [5, d2, "e"]
        elif wrap < 0.8:
            t1, t2 = {"x": d1, "y": 6}, {"x": d2, "y": rng.choice([6, 8])}
        else:
            a, b, _w = _hist_list_pair(rng)
            if rng.random() < 0.5:
                a, b = b, a
            t1, t2 = {3: d1, "n": a}, {3: d2, "n": b}
        ctx.count("hist_gen:pairs")
        if tuple_key_edited:
            ctx.count("hist_gen:edits_below_a_tuple_key(outside the domain: history independence only)")
        out.append((t1, t2))
    return out


def _has_tuple_key(v):
    if isinstance(v, dict):
        return any(isinstance(k, tuple) or _has_tuple_key(x) for k, x in v.items())
    if isinstance(v, (list, tuple)):
        return any(_has_tuple_key(x) for x in v)
    return False


def _hcanon(v):
    """type-strict canonical form up to dict / set order, total (also for keys outside the model's universe)"""
    if isinstance(v, (list, tuple)):
        return [type(v).__name__, [_hcanon(x) for x in v]]
    if isinstance(v, dict):
        return ["dict", sorted(([repr(_hcanon(k)), _hcanon(x)] for k, x in v.items()), key=repr)]
    if isinstance(v, (set, frozenset)):
        return [type(v).__name__, sorted(repr(_hcanon(x)) for x in v)]
    return [type(v).__name__, repr(v)]


def hist_eq(a, b):
    try:
        return V.typed_eq(a, b)
    except Exception:
        return _hcanon(a) == _hcanon(b)


def _happly(plus, base, o):
    """(outcome, result, number of _raise_or_log calls) of  base + o  /  base - o  on a copy of base"""
    with DC.Counting() as c0:
        try:
            r0 = (copy.deepcopy(base) + o) if plus else (copy.deepcopy(base) - o)
            return ("ok", r0, c0.n)
        except Exception as e:
            return ("raised %s: %s" % (type(e).__name__, str(e)[:100]), None, c0.n)


def _same_outcome(a, b):
    return (a[0].split(":")[0] == b[0].split(":")[0] and (a[1] is None) == (b[1] is None)
            and (a[1] is None or hist_eq(a[1], b[1])) and (a[2] > 0) == (b[2] > 0))


def _first_changed_bases(rng, diff, t1, t2):
    """(t1 corrupted at the first values_changed / type_changes path, t2 corrupted there) - None where there is none"""
    for cat in ("values_changed", "type_changes"):
        for p, ch in diff.get(cat, {}).items():
            if "old_value" not in ch or "new_value" not in ch:
                continue
            try:
                keys = py_path(DC.parse_pathc(p))
                keys2 = py_path(DC.parse_pathc(ch["new_path"])) if ch.get("new_path") else keys
                get_at(t1, keys), get_at(t2, keys2)
                return (set_at(copy.deepcopy(t1), keys, corrupt_value(rng, ch["old_value"])),
                        set_at(copy.deepcopy(t2), keys2, corrupt_value(rng, ch["new_value"])))
            except Exception:
                continue
    return None, None


ALL_SIGN_PATTERNS = ["".join(p) for n_ in range(1, 7) for p in __import__("itertools").product("+-", repeat=n_)]


def history_checks(ctx, t1, t2, cases, full=False, corr_rate=1.0):
    """ONE Delta object along sign patterns of length <= 6, raise_errors False and True:
    * the two alternating chains +,-,+,-,+,- (from t1) and -,+,-,+,-,+ (from t2), every step applied to the previous RESULT:
      all twelve well-formed patterns are their prefixes; every intermediate result must be t2 / t1, nothing logged or raised;
    * patterns over {+,-} in any order, each step on a fresh copy of t1 / t2 (two random ones of length 6 per object; a replay runs
      all 126), and patterns that also apply the object to OTHER bases in between: t1 / t2 with one atom replaced anywhere ('P' / 'M':
      the outcome must be that of a fresh object) and t1 / t2 corrupted at a changed location ('C' / 'K': must be refused, raised or logged);
    * a step whose outcome is not the expected one is compared with a FRESH object on the same base: different -> clause REUSE (no
      known finding is about that), same -> clause INVERSION / DETECTION (a fresh first application fails too);
    * correspondence: actual results of the logging object's steps against the pure model, whose visiting orders are computed on a
      fresh delta (a stale order inside the implementation shows up as a model / implementation disagreement)."""
    import random
    import zlib
    from deepdiff import DeepDiff, Delta
    pair_seed = repr((_hcanon(t1), _hcanon(t2)))
    lrng = random.Random(zlib.crc32(pair_seed.encode()))
    outside = _has_tuple_key(t1) or _has_tuple_key(t2)
    guard = (not outside) and c01.in_guard(t1, t2) and DC.in_universe(t1) and DC.in_universe(t2)
    desc = c01.describe(t1, t2)
    cfgs = [(z, th) for z in (False, True) for th in ((0, 0.33, 0.9) if full else (lrng.choice(HIST_THRS),))]
    for zip_, thr in cfgs:
        cfg = dict(zip_ordered_iterables=zip_, threshold_to_diff_deeper=thr)
        base_case = dict(t1=repr(t1), t2=repr(t2), cfg=cfg, shared=None, **desc)
        # the (pair, configuration)'s own streams: a replay (all thresholds, no correspondence cases) draws the same histories
        lrng = random.Random(zlib.crc32((pair_seed + repr((zip_, thr))).encode()))
        crng = random.Random(zlib.crc32((pair_seed + repr((zip_, thr, "corr"))).encode()))
        try:
            dd = DeepDiff(*copy.deepcopy((t1, t2)), view="tree", **cfg)
            d0 = Delta(dd, bidirectional=True)
        except Exception as e:
            ctx.fail(dict(base_case, clause=BUILD, observed="raised %s" % type(e).__name__), "building a bidirectional delta raised")
            continue
        ctx.seen(("hist", repr(t1), repr(t2), zip_, thr), nontrivial=bool(d0.diff))
        for cat in d0.diff:
            ctx.count("hist:delta_with_" + cat)
        if len(d0.diff) >= 3:
            ctx.count("hist:delta_with_3+_categories")
        for cat in ("iterable_item_added", "iterable_item_removed", "dictionary_item_removed"):
            ps = list(d0.diff.get(cat, {}).items())
            if len(ps) >= 2:
                try:
                    sorted(ps, key=Delta._sort_key_for_item_added)
                except TypeError:
                    ctx.count("hist:%s_sorted_by_the_fallback_comparison" % cat)
        c1, c2 = _first_changed_bases(lrng, d0.diff, t1, t2)
        others = {"P": V.edit(lrng, t1, kinds=["replace_atom"])[0], "M": V.edit(lrng, t2, kinds=["replace_atom"])[0]}
        if c1 is not None:
            others.update(C=c1, K=c2)
        model_args = None
        if guard and cases is not None:
            payload = DC.delta_obs(d0.diff)
            rem, add = DC.impl_orders(d0)
            rd = Delta(dd, bidirectional=True)
            rd.diff = rd._get_reverse_diff()
            rrem, radd = DC.impl_orders(rd)
            model_args = (payload, rem, add, rrem, radd, DC.type_change_pairs(dd))
        for re_ in (False, True):
            pats = [("+-+-+-", True), ("-+-+-+", True)]
            pats += [("".join(lrng.choice("+-") for _ in range(6)), False) for _ in range(2)]
            pats += [("".join(lrng.choice("+-+-" + "".join(sorted(others))) for _ in range(6)), False) for _ in range(2)]
            if full:
                pats += [(p_, False) for p_ in ALL_SIGN_PATTERNS]
            for pat, chained in pats:
                obj = Delta(dd, bidirectional=True, raise_errors=re_)
                cur, steps = None, []
                ctx.count("hist:objects")
                for k, sym in enumerate(pat):
                    plus = sym in "+PC"
                    if sym in "+-":
                        base = cur if (chained and cur is not None) else (t1 if plus else t2)
                        want = t2 if plus else t1
                    else:
                        base, want = others[sym], None
                    got = _happly(plus, base, obj)
                    ctx.count("hist:steps")
                    hcase = dict(base_case, history=dict(pattern=pat, each_step_on_the_previous_result=chained, raise_errors=re_, step=k, op=sym),
                                 base=repr(base))
                    if sym in "+-" and got[0] == "ok" and got[2] == 0 and hist_eq(got[1], want):
                        cur = got[1]
                        steps.append((k, sym, base, got))
                        continue
                    ref = _happly(plus, base, Delta(dd, bidirectional=True, raise_errors=re_))
                    obs = dict(reused=(got[0], repr(got[1]), got[2]), fresh=(ref[0], repr(ref[1]), ref[2]))
                    if not _same_outcome(got, ref):
                        ctx.fail(dict(hcase, clause=REUSE, observed=obs),
                                 "history %s on one Delta object (raise_errors=%s): step %d (%s) differs from a fresh object on the same base" % (pat, re_, k, sym))
                        break
                    if sym in "+-":
                        if outside:
                            ctx.count("hist:outside_domain:exact_base_fails_on_a_fresh_object_too")
                            break
                        ctx.fail(dict(hcase, clause=INVERSION, observed=obs),
                                 "history %s on one Delta object (raise_errors=%s): step %d (%s) %s (a fresh object does the same)" % (
                                     pat, re_, k, sym, "rejects the exact base" if got[0] != "ok" else "does not give " + ("t2" if plus else "t1") if not hist_eq(got[1], want) else "logs an error"))
                        break
                    if sym in "CK" and not (got[0] != "ok" if re_ else (got[2] > 0 or got[0] != "ok")):
                        ctx.fail(dict(hcase, clause=DETECTION, observed=obs), "a mismatched base was accepted at step %d of history %s (raise_errors=%s)" % (k, pat, re_))
                        break
                    if got[0] == "ok":
                        steps.append((k, sym, base, got))
                # --- correspondence on the history's ACTUAL results (logging object) ---
                if model_args and not re_ and steps and crng.random() < corr_rate:
                    payload, rem, add, rrem, radd, pairs = model_args
                    later = [s_ for s_ in steps if s_[0] >= 1 and s_[1] in "+-CK"]      # 'P' / 'M': against a fresh object only
                    pick = ([s_ for s_ in later if s_[0] == 1] + [crng.choice(later)]) if (chained and later) else [crng.choice(later)] if later else []
                    for k, sym, base, got in {s_[0]: s_ for s_ in pick}.values():
                        if not (DC.in_universe(base) and DC.in_universe(got[1])):
                            continue
                        tag = dict(t1=repr(t1), t2=repr(t2), zip=zip_, thr=thr, base=repr(base), op="history %s on one object, step %d (%s)" % (pat, k, sym))
                        if sym in "+PC":
                            cv = DC.conv_table(pairs + [(type(x.t2), get_safe(base, x)) for x in dd.get("type_changes", []) if get_safe(base, x) is not DC._NF])
                            cases.append((DC.model_expr(t1, t2, zip_, thr, True, False, base, cv, rem, add), [payload, [DC.canon_unordered(got[1]), got[2] > 0]], tag))
                        else:
                            cases.append((DC.model_expr(t1, t2, zip_, thr, True, False, base, DC.conv_table(pairs), rrem, radd, want="sub"),
                                          [payload, [DC.canon_unordered(got[1]), got[2] > 0]], tag))


def one_pair(ctx, t1, t2, cases, corr=True, hyp_cases=None, shared=None, all_variants=False, observers=False):
    from deepdiff import DeepDiff, Delta
    from deepdiff.delta import DeltaError
    rng = ctx.rng
    guard = c01.in_guard(t1, t2)
    ctx.count("in_model_guard" if guard else "outside_model_guard")
    for zip_ in (False, True):
        thr = rng.choice(THRS)
        cfg = dict(zip_ordered_iterables=zip_, threshold_to_diff_deeper=thr)
        desc = c01.describe(t1, t2)
        base_case = dict(t1=repr(t1), t2=repr(t2), cfg=cfg, shared=shared, **desc)
        try:
            dd = DeepDiff(*copy.deepcopy((t1, t2)), view="tree", **cfg)      # one joint copy: sharing between t1 and t2 survives
            d = Delta(dd, bidirectional=True)
        except Exception as e:
            ctx.fail(dict(base_case, clause=BUILD, observed="raised %s" % type(e).__name__), "building a bidirectional delta raised")
            continue
        ctx.seen((repr(t1), repr(t2), zip_, thr), nontrivial=bool(d.diff))
        # --- inversion ---
        try:
            with DC.Counting() as cnt:
                fwd = copy.deepcopy(t1) + d
                back = copy.deepcopy(t2) - d
                again = copy.deepcopy(back) + d
            nerr = cnt.n
            okf, okb, oka = V.typed_eq(fwd, t2), V.typed_eq(back, t1), V.typed_eq(again, t2)
            if not (okf and okb and oka) or nerr:
                ctx.fail(dict(base_case, clause=INVERSION, observed=dict(add=repr(fwd), sub=repr(back), add_again=repr(again), errors=nerr)),
                         "bidirectional delta does not invert: " + ("t1+d != t2" if not okf else "t2-d != t1" if not okb else "(t2-d)+d != t2" if not oka else "errors logged"))
        except Exception as e:
            fwd = back = None
            ctx.fail(dict(base_case, clause=INVERSION, observed="raised %s: %s" % (type(e).__name__, str(e)[:150])), "bidirectional delta raised while inverting")
        # --- (t1 + d) - d == t1 ; t2' - d == t1 for t2' = t2 up to dict insertion order (C08_sub_inverts_from_any_equal_base) ---
        rt2 = c01.reordered(t2)
        rt2_differs = V.canon(rt2) != V.canon(t2)
        back2 = back3 = None
        if fwd is not None:
            try:
                with DC.Counting() as cnt:
                    back2 = copy.deepcopy(fwd) - d
                    back3 = (copy.deepcopy(rt2) - d) if rt2_differs else None
                if not V.typed_eq(back2, t1) or (rt2_differs and not V.typed_eq(back3, t1)) or cnt.n:
                    ctx.fail(dict(base_case, clause=INVERSION, observed=dict(sum_minus_d=repr(back2), reordered_t2=repr(rt2), reordered_t2_minus_d=repr(back3), errors=cnt.n)),
                             "bidirectional delta does not invert: " + ("(t1+d)-d != t1" if not V.typed_eq(back2, t1) else "t2'-d != t1 for t2' == t2 with another dict order" if cnt.n == 0 else "errors logged"))
                ctx.count("sub_from_sum")
                if rt2_differs:
                    ctx.count("sub_from_reordered_t2")
            except Exception as e:
                back2 = back3 = None
                ctx.fail(dict(base_case, clause=INVERSION, observed="raised %s: %s" % (type(e).__name__, str(e)[:150])), "(t1+d)-d or t2'-d raised")
        # --- back and forth ---
        if rng.random() < 0.3:
            cur, side = copy.deepcopy(t1), 1
            try:
                for step in range(rng.randint(2, 6)):
                    cur = (cur + d) if side == 1 else (cur - d)
                    want = t2 if side == 1 else t1
                    if not V.typed_eq(cur, want):
                        ctx.fail(dict(base_case, clause=INVERSION, observed=repr(cur), step=step), "back-and-forth sequence diverges at step %d" % step)
                        break
                    side = -side
                ctx.count("back_and_forth_sequences")
            except Exception as e:
                ctx.fail(dict(base_case, clause=INVERSION, observed="raised %s" % type(e).__name__), "back-and-forth sequence raised")
        # --- read-only conversions leave the delta alone ---
        if all_variants or observers or rng.random() < 0.3:
            observers_leave_delta_alone(ctx, t1, t2, dd, base_case)
        if guard and rng.random() < 0.25:
            flat_rows_probe(ctx, t1, t2, dd)
        # --- a directed delta refuses subtraction, whatever the other flags are ---
        refused = {}
        for aiv in (False, True):
            for re_ in (False, True):
                flags = dict(bidirectional=False, always_include_values=aiv, raise_errors=re_)
                ctx.count("refusal:aiv=%s,raise=%s" % (aiv, re_))
                try:
                    got = copy.deepcopy(t2) - Delta(dd, **flags)
                    refused[(aiv, re_)] = False
                    ctx.fail(dict(base_case, clause=REFUSAL, delta_flags=flags, observed="no exception: " + repr(got)[:120]),
                             "a non-bidirectional delta accepted subtraction")
                except ValueError:
                    refused[(aiv, re_)] = True
                except Exception as e:
                    refused[(aiv, re_)] = False
                    ctx.fail(dict(base_case, clause=REFUSAL, delta_flags=flags, observed="raised %s" % type(e).__name__),
                             "a non-bidirectional delta did not refuse subtraction with ValueError")
        # --- corruption detection ---
        corrupt_cases = []
        corrupt2 = []
        n_exact = [0]
        for cat in ("values_changed", "type_changes"):
            for p, ch in d.diff.get(cat, {}).items():
                if "old_value" not in ch:
                    continue
                keys = py_path(DC.parse_pathc(p))
                try:
                    get_at(t1, keys)
                except Exception:
                    continue
                cv = corrupt_value(rng, ch["old_value"])
                # every other time the corruption is exactly the recorded NEW value (the base already holds the change:
                # e.g. the delta applied to t2, or to t1 with this field updated) - still != the recorded old value
                if "new_value" in ch and n_exact[0] % 2 == 0 and py_differs(ch["new_value"], ch["old_value"]):
                    cv = copy.deepcopy(ch["new_value"])
                    ctx.count("corruptions:to_the_recorded_new_value")
                n_exact[0] += 1
                try:
                    base = set_at(copy.deepcopy(t1), keys, cv)
                except Exception:
                    continue
                ctx.count("corruptions")
                ccase = dict(base_case, corrupted_path=p, corrupted_to=repr(cv), old_value=repr(ch["old_value"]))
                raised = False
                try:
                    copy.deepcopy(base) + Delta(dd, bidirectional=True, raise_errors=True)
                except DeltaError:
                    raised = True
                except Exception as e:
                    raised = True   # some other exception: not silently accepted
                with DC.Counting() as cnt:
                    try:
                        res = copy.deepcopy(base) + d
                    except Exception as e:
                        res = e
                ctx.seen((repr(t1), repr(t2), zip_, thr, p, repr(cv)), nontrivial=True)
                if not raised:
                    ctx.fail(dict(ccase, clause=DETECTION, observed="raise_errors=True did not raise"), "a mismatched base was accepted (raise_errors=True)")
                elif cnt.n == 0 and not isinstance(res, Exception):
                    ctx.fail(dict(ccase, clause=DETECTION, observed="no error logged"), "a mismatched base was silently accepted (raise_errors=False)")
                if not isinstance(res, Exception):
                    corrupt_cases.append((base, res, cnt.n))
                # the same location corrupted on the t2 side (for raising subtractions)
                if "new_value" in ch and not corrupt2:
                    try:
                        keys2 = py_path(DC.parse_pathc(ch["new_path"])) if ch.get("new_path") else keys
                        get_at(t2, keys2)
                        corrupt2.append(set_at(copy.deepcopy(t2), keys2, corrupt_value(rng, ch["new_value"])))
                    except Exception:
                        pass
        # --- other construction shapes / flag combinations of the same delta ---
        if all_variants or rng.random() < 0.2:
            variant_checks(ctx, t1, t2, dd, d, base_case, [b for b, _r, _n in corrupt_cases], all_=all_variants)
        # --- corruption on the t2 side: corrupted_t2 - d must raise / log (the reverse delta's recorded old value is new_value) ---
        sub_corrupt = []
        for cat in ("values_changed", "type_changes"):
            for p, ch in d.diff.get(cat, {}).items():
                if "new_value" not in ch or "old_value" not in ch or len(sub_corrupt) >= 2:
                    continue
                try:
                    keys2 = py_path(DC.parse_pathc(ch["new_path"])) if ch.get("new_path") else py_path(DC.parse_pathc(p))
                    get_at(t2, keys2)
                    cv2 = corrupt_value(rng, ch["new_value"])
                    if not sub_corrupt and py_differs(ch["old_value"], ch["new_value"]):
                        cv2 = copy.deepcopy(ch["old_value"])        # the base already holds the OLD value at that location
                        ctx.count("corruptions_t2_side:to_the_recorded_old_value")
                    base2 = set_at(copy.deepcopy(t2), keys2, cv2)
                except Exception:
                    continue
                ctx.count("corruptions_t2_side")
                ccase = dict(base_case, op="sub", corrupted_path=ch.get("new_path") or p, corrupted_base=repr(base2), recorded=repr(ch["new_value"]))
                raised = False
                try:
                    copy.deepcopy(base2) - Delta(dd, bidirectional=True, raise_errors=True)
                except Exception:
                    raised = True
                with DC.Counting() as cnt:
                    try:
                        res2 = copy.deepcopy(base2) - d
                    except Exception as e:
                        res2 = e
                ctx.seen((repr(t1), repr(t2), zip_, thr, "sub", repr(base2)), nontrivial=True)
                if not raised:
                    ctx.fail(dict(ccase, clause=DETECTION, observed="raise_errors=True did not raise"), "a mismatched base was accepted by a subtraction (raise_errors=True)")
                elif cnt.n == 0 and not isinstance(res2, Exception):
                    ctx.fail(dict(ccase, clause=DETECTION, observed="no error logged"), "a mismatched base was silently accepted by a subtraction (raise_errors=False)")
                if not isinstance(res2, Exception):
                    sub_corrupt.append((base2, res2, cnt.n))
        # --- dictionary_item_removed with a differing value (beyond the quantifier; the model detects it:
        #     C08_detects_removed_dict_item_when_reached) : observed, compared with the model ---
        drem_corrupt = []
        for p, v in list(d.diff.get("dictionary_item_removed", {}).items())[:1]:
            try:
                keys = py_path(DC.parse_pathc(p))
                if not isinstance(get_at(t1, keys[:-1]), dict):
                    continue
                based = set_at(copy.deepcopy(t1), keys, corrupt_value(rng, v))
            except Exception:
                continue
            try:
                copy.deepcopy(based) + Delta(dd, bidirectional=True, raise_errors=True)
                raised = False
            except Exception:
                raised = True
            with DC.Counting() as cnt:
                try:
                    resd = copy.deepcopy(based) + d
                except Exception as e:
                    resd = e
            ctx.count("removed_key_corruption:" + ("raised" if raised else "accepted"))
            if not isinstance(resd, Exception):
                drem_corrupt.append((based, resd, cnt.n, p, keys))
        # --- correspondence ---
        if guard and fwd is not None:   # (a replay runs this block too: its cases are simply not compiled)
            rem, add = DC.impl_orders(d)
            # reversed delta orders
            rd = Delta(dd, bidirectional=True)
            rd.diff = rd._get_reverse_diff()
            rrem, radd = DC.impl_orders(rd)
            pairs = DC.type_change_pairs(dd)
            conv = DC.conv_table(pairs)
            payload = DC.delta_obs(d.diff)
            tag = dict(t1=repr(t1), t2=repr(t2), zip=zip_, thr=thr)
            cases.append((DC.model_expr(t1, t2, zip_, thr, True, False, t1, conv, rem, add),
                          [payload, [DC.canon_unordered(fwd), False]], dict(tag, op="add")))
            cases.append((DC.model_expr(t1, t2, zip_, thr, True, False, t2, conv, rrem, radd, want="sub"),
                          [payload, [DC.canon_unordered(back), False]], dict(tag, op="sub")))
            # subtraction from the implementation's own sum and from t2 with reversed dict orders (model: same delta, that base)
            if back2 is not None and DC.in_universe(fwd) and (V.canon(fwd) != V.canon(t2) or rng.random() < 0.15):
                cases.append((DC.model_expr(t1, t2, zip_, thr, True, False, fwd, conv, rrem, radd, want="sub"),
                              [payload, [DC.canon_unordered(back2), False]], dict(tag, op="sub from the sum t1+d", base=repr(fwd))))
            if back3 is not None and rng.random() < 0.5:
                cases.append((DC.model_expr(t1, t2, zip_, thr, True, False, rt2, conv, rrem, radd, want="sub"),
                              [payload, [DC.canon_unordered(back3), False]], dict(tag, op="sub from reordered t2", base=repr(rt2))))
            for base2, res2, n2 in sub_corrupt[:1]:
                if DC.in_universe(base2) and DC.in_universe(res2) and (ctx.thorough or rng.random() < 0.6):
                    # conv may be asked about the corrupted value (reverse type change without recorded value never occurs: bidirectional)
                    cases.append((DC.model_expr(t1, t2, zip_, thr, True, False, base2, conv, rrem, radd, want="sub"),
                                  [payload, [DC.canon_unordered(res2), n2 > 0]], dict(tag, op="sub on corrupted t2", base=repr(base2))))
            for based, resd, nd, pstr, qkeys in drem_corrupt:
                if DC.in_universe(based) and DC.in_universe(resd):
                    # the guard of C08_detects_removed_dict_item_initial_base, mirrored in Python and evaluated in Coq
                    drem_order = rem[len(rem) - len(d.diff.get("dictionary_item_removed", {})):]
                    g_py = removed_key_guard(qkeys, d, drem_order)
                    ctx.count("removed_key_guard:" + ("holds" if g_py else "fails") + (":detected" if nd > 0 else ":ACCEPTED"))
                    qc = D.coq_pathc(DC.parse_pathc(pstr))
                    opsr = D.coq_ops_table(D.opcode_table(t1, t2))
                    REM_CASES.append((
                        "(let r := run_diff hatom_deep (tbl_udiff %s) (tbl_ops %s) no_paths no_paths %s %s %s in "
                        "let d := to_delta (tbl_conv %s) true false (tbl_ops %s) %s %s (fst r) (snd r) in "
                        "let q := %s in "
                        "let l1 := (fix go (l : list (path * value)) := match l with [] => [] | x :: r0 => if path_eqb (fst x) q then [] else x :: go r0 end) "
                        "(order_by %s fst (d_drem d)) in "
                        "SL [sx_bool (leaves_alone q d && earlier_ok q l1)])" % (
                            D.coq_udiff_table(D.udiff_table(t1, t2)), opsr, D.coq_cfg(zip_, thr, True), V.to_coq(t1), V.to_coq(t2),
                            conv, opsr, V.to_coq(t1), V.to_coq(t2), qc, DC.coq_paths(rem)),
                        [g_py], dict(tag, removed_key=pstr, observable="guard of C08_detects_removed_dict_item_initial_base")))
                    convd = DC.conv_table(pairs + [(type(x.t2), get_safe(based, x)) for x in dd.get("type_changes", []) if get_safe(based, x) is not DC._NF])
                    cases.append((DC.model_expr(t1, t2, zip_, thr, True, False, based, convd, rem, add),
                                  [payload, [DC.canon_unordered(resd), nd > 0]], dict(tag, op="add on a base with a differing removed key", base=repr(based))))
            # the refusal in the model (a function of bidirectional only), always_include_values varied independently
            for aiv in ((False, True) if (ctx.thorough or rng.random() < 0.2) else ()):
                try:
                    dird = Delta(dd, always_include_values=aiv)
                    cases.append((DC.model_expr(t1, t2, zip_, thr, False, aiv, t2, conv, rem, add, want="sub"),
                                  [DC.delta_obs(dird.diff), "NotBidirectional" if refused.get((aiv, False)) else "accepted"],
                                  dict(tag, op="sub refused", always_include_values=aiv)))
                except Exception:
                    pass
            # --- operation sequences on ONE Delta object: the model's apply is a pure function of (delta, base) ---
            if corrupt_cases and (not corr or rng.random() < (0.5 if ctx.thorough else 0.3)):
                cbase = corrupt_cases[0][0]
                C, G = True, False     # corrupted / good base
                seq = [("add", cbase, C), ("add", cbase, C), ("add", t1, G), ("sub", t2, G), ("add", cbase, C), ("add", cbase, C)]
                # raising subtractions and the states they leave behind (fixed in /repo by 2fbf190, finding F10):
                # a failed '-' must not leave the object reversed, a failed '+' must not leave post-processing state
                # (the base with lists where t1 has tuples shows a stale tuple conversion)
                if corrupt2:
                    seq = [("sub", corrupt2[0], C), ("add", t1, G), ("sub", t2, G)] + seq + [("sub", corrupt2[0], C), ("sub", t2, G), ("add", t1, G)]
                lt1 = c01.detuple(t1)
                seq = seq + [("add", cbase, C), ("add", lt1, G), ("add", t1, G)]
                ctx.count("reuse_sequences")
                for re_ in (True, False):
                    obj = Delta(dd, bidirectional=True, raise_errors=re_)
                    for k, (op, base, is_corrupt) in enumerate(seq):
                        def run_on(o):
                            with DC.Counting() as c0:
                                try:
                                    r0 = (copy.deepcopy(base) + o) if op == "add" else (copy.deepcopy(base) - o)
                                    return ("ok", r0, c0.n)
                                except Exception as e:
                                    return ("raised " + type(e).__name__, None, c0.n)
                        got = run_on(obj)
                        ref = run_on(Delta(dd, bidirectional=True, raise_errors=re_))
                        same = got[0] == ref[0] and (got[1] is None or V.typed_eq(got[1], ref[1])) and (got[2] > 0) == (ref[2] > 0)
                        if not same:
                            ctx.fail(dict(base_case, clause=REUSE, raise_errors=re_, step=k, sequence=[(o, repr(b)) for o, b, _c in seq],
                                          observed=dict(reused=(got[0], repr(got[1]), got[2]), fresh=(ref[0], repr(ref[1]), ref[2]))),
                                     "a reused Delta object behaves differently from a fresh one (history dependence) at step %d" % k)
                            break
                        if is_corrupt and re_ and got[0] == "ok":
                            ctx.fail(dict(base_case, clause=DETECTION, raise_errors=True, step=k, base=repr(base), observed="no exception"),
                                     "a mismatched base was accepted by a reused Delta object (raise_errors=True)")
                            break
                        # correspondence: every step of the logging object against the pure model
                        if not re_ and got[0] == "ok" and (k % 2 == 1 if ctx.thorough else k in (1, 2, 7)) and DC.in_universe(base) and DC.in_universe(got[1]):
                            if op == "add":
                                cv2 = DC.conv_table(pairs + [(type(x.t2), get_safe(base, x)) for x in dd.get("type_changes", []) if get_safe(base, x) is not DC._NF])
                                cases.append((DC.model_expr(t1, t2, zip_, thr, True, False, base, cv2, rem, add),
                                              [payload, [DC.canon_unordered(got[1]), got[2] > 0]], dict(tag, op="reused object, step %d: add" % k, base=repr(base))))
                            else:
                                cases.append((DC.model_expr(t1, t2, zip_, thr, True, False, base, conv, rrem, radd, want="sub"),
                                              [payload, [DC.canon_unordered(got[1]), got[2] > 0]], dict(tag, op="reused object, step %d: sub" % k)))
            if hyp_cases is not None and (ctx.thorough or shared or rng.random() < 0.75):
                kn = keys_nonneg(t2)
                ctx.count("hyp:keys_nonneg_true" if kn else "hyp:keys_nonneg_false")
                ctx.count("hyp:cases")
                if D.opcode_table(t1, t2):
                    ctx.count("hyp:cases_with_opcode_tables")
                if d.diff.get("iterable_item_moved"):
                    ctx.count("hyp:cases_with_moved_items")
                # expected: every guard holds on in-guard inputs (indep_verified is claimed only when keys_nonneg t2)
                ko = korder(t1, t2)
                ctx.count("hyp:korder_true" if ko else "hyp:korder_false")
                if zip_:
                    ctx.count("hyp:positional_all_guards_of_sub_inverts" if (ko and kn and keys_nonneg(t1))
                              else "hyp:positional_outside_guards_of_sub_inverts")
                nc = not mutual_clash(t1, t2, cfg)
                ctx.count("hyp:no_clash_true" if nc else "hyp:no_clash_false")
                ctx.count("hyp:all_data_guards_of_sub_inverts_default_partial" if (ko and nc)
                          else "hyp:outside_data_guards_of_sub_inverts_default_partial")
                nt = ntp_vals(t2, d)
                kn1 = keys_nonneg(t1)
                ctx.count("hyp:ntp_vals_true" if nt else "hyp:ntp_vals_false")
                if not nc:
                    ctx.count("hyp:clash_case_inside_guards_of_sub_inverts_default" if (ko and nt and kn1)
                              else "hyp:clash_case_outside_guards_of_sub_inverts_default")
                ctx.count("hyp:all_data_guards_of_sub_inverts_default" if (ko and (nc or (nt and kn1)))
                          else "hyp:outside_data_guards_of_sub_inverts_default")
                # ORDER of the values_changed pass: under korder (and without a clash, whose merged level the code appends
                # at the end) the model lists the entries in the order the implementation does
                vpaths = [DC.parse_pathc(p_) for p_ in d.diff.get("values_changed", {})]
                if len(vpaths) >= 2 and nc:
                    ctx.count("order:values_changed_lists_with_2+_entries:korder_%s" % ko)
                    if ko:
                        ops_ = D.coq_ops_table(D.opcode_table(t1, t2))
                        ORDER_CASES.append((
                            "(let r := run_diff hatom_deep (tbl_udiff %s) (tbl_ops %s) no_paths no_paths %s %s %s in "
                            "let d := to_delta (tbl_conv %s) true false (tbl_ops %s) %s %s (fst r) (snd r) in "
                            "SL (map (fun c => sx_path (vc_path c)) (d_val d)))" % (
                                D.coq_udiff_table(D.udiff_table(t1, t2)), ops_, D.coq_cfg(zip_, thr, True), V.to_coq(t1), V.to_coq(t2),
                                conv, ops_, V.to_coq(t1), V.to_coq(t2)),
                            vpaths, dict(tag, observable="ORDERED values_changed paths (korder holds, no clash)")))
                of1, of2 = ordfree(t1), ordfree(t2)
                clash_ok = nc or (nt and kn1)          # the disjunctive guard of the round-3 theorems
                ctx.count("hyp:inside_guards_of_back_and_forth_default" if (ko and clash_ok) else "hyp:outside_guards_of_back_and_forth_default")
                if of1:
                    ctx.count("hyp:ordfree_t1:" + ("inside" if (nc or nt) else "outside") + "_guards_of_sub_inverts_exact")
                if of1 and of2:
                    ctx.count("hyp:ordfree_both:" + ("inside" if (nc or nt) else "outside") + "_guards_of_back_and_forth_exact")
                hyp_cases.append((hyp_expr8(t1, t2, zip_, thr, conv, kn, rrem, radd, kn1), [True, True, True, kn, ko, nc, nt, True, True, of1, of2, True],
                                  dict(tag, hypotheses="indep_verified/ops_disjoint/sym_ok/keys_nonneg/korder/no_clash/ntp_vals/ops_sorted2/orders_ok(reverse d)/ordfree t1/ordfree t2/indep_verified(reverse d)")))
            for base, res, n in corrupt_cases[:2]:
                if not DC.in_universe(base) or not DC.in_universe(res):
                    continue
                # conv may be asked about the corrupted value: extend the table
                conv2 = DC.conv_table(pairs + [(type(x.t2), get_safe(base, x)) for x in dd.get("type_changes", []) if get_safe(base, x) is not DC._NF])
                cases.append((DC.model_expr(t1, t2, zip_, thr, True, False, base, conv2, rem, add),
                              [payload, [DC.canon_unordered(res), n > 0]], dict(tag, op="add on corrupted base", base=repr(base))))


def get_safe(base, level):
    try:
        keys = [k for k in level.path(output_format="list")]
        return get_at(base, keys)
    except Exception:
        return DC._NF


# ---------------------------------------------------------------------------
# source tie (second tie between model and code): harness/translate/deltapasses.py regenerates Delta.__add__ (pass order,
# deepcopy-unless-mutate, try/finally + reset), __radd__, __rsub__, _get_reverse_diff, _do_verify_changes / _raise_or_log and the
# thin pass wrappers _do_* from the CURRENT deepdiff/delta.py as Gallina text (DDGen.DeltaGen, over the vocabulary of
# Delta/DeltaSrc.v); coq/srctie/DeltaGenEquiv.v proves them equal to Delta/DeltaModel.v (apply / reverse / sub / verify, the
# list `passes`) for all arguments and restates C08's theorems about them
# ---------------------------------------------------------------------------
SOURCE_TIES = [{"name": "deltapasses", "translator": "deltapasses", "gen_module": "DeltaGen", "equiv": ["DeltaGenEquiv"],
                "needs": ["Delta.DeltaSrc", "Delta.DeltaShow", "Properties.C08"],
                "sources": ["deepdiff/delta.py"],
                "fragment": "class Delta: __add__ (order of the 14 passes, deepcopy unless mutate, try/finally, reset), __radd__, __rsub__, "
                            "_get_reverse_diff (per-category table, swapped fields, opcode reversal), _do_verify_changes, _raise_or_log, reset and the "
                            "pass wrappers _do_values_changed / _do_type_changes / _do_set_item_added / _do_set_item_removed / _do_iterable_item_removed / "
                            "_do_iterable_item_added / _do_dictionary_item_added / _do_dictionary_item_removed / _do_attribute_added / "
                            "_do_attribute_removed / _do_post_process (+ the guards of _do_pre_process and _do_ignore_order); NOT the workers "
                            "_do_values_or_type_changed, _do_item_added, _do_item_removed, _do_set_or_frozenset_item, _do_iterable_opcodes"}]
TIE_STATE = {"decided": False}

TIE_HDR = (DC.HDR + "\nFrom DD Require Import Delta.DeltaSrc Delta.DeltaReverseSeq.\nFrom DDGen Require Import DeltaGen.\n"
           "Definition tie_fresh (d : delta) : dobj := mkObj d None false (mkSt (VAtom ANone) [] 0).\n"
           "Definition tie_add cv ro ao (d : delta) (v : value) : value * nat := let '(o, r) := g___add__ cv ro ao (tie_fresh d) v in (r, obj_errs o).\n"
           "Definition tie_sub cv ro ao (d : delta) (v : value) : option (value * nat) :=\n"
           "  match g___rsub__ cv ro ao (tie_fresh d) v with Some (o, r) => Some (r, obj_errs o) | None => None end.\n"
           "Fixpoint tie_seq cv ro ao (o : dobj) (l : list dir) (v : value) : option (value * nat) :=\n"
           "  match l with\n  | [] => Some (v, 0)\n"
           "  | Plus :: l' => let '(o', r) := g___add__ cv ro ao o v in\n"
           "      match tie_seq cv ro ao o' l' r with Some (v', k) => Some (v', obj_errs o' + k) | None => None end\n"
           "  | Minus :: l' => match g___rsub__ cv ro ao o v with\n"
           "      | Some (o', r) => match tie_seq cv ro ao o' l' r with Some (v', k) => Some (v', obj_errs o' + k) | None => None end\n"
           "      | None => None end\n  end.\n"
           "Definition tie_rev (d : delta) : sx := match g__get_reverse_diff (tie_fresh d) with Some r => sx_delta r | None => SA \"None\" end.\n"
           "Definition hand_rev (d : delta) : sx := if d_bidir d then sx_delta (reverse d) else SA \"None\".\n"
           "Definition tie_verify (b : bool) (e : option value) (c : value) : sx :=\n"
           "  sx_nat (obj_errs (g__do_verify_changes (mkObj (diff_empty b) None false (mkSt c [] 0)) [] e c)).\n"
           "Definition hand_verify (b : bool) (e : option value) (c : value) : sx := sx_nat (errs (verify b e c (mkSt c [] 0))).\n")


def _tie_expr(t1, t2, zip_, thr, conv, rem, add, rrem, radd):
    """(hand, generated): on one (t1, t2, config) the results of + on t1 and on t2, of - on t2 and on t1 (bidirectional and
    directed delta), of the sequence +,-,+,- on ONE object, the reversed payload, and the verification decision on a small grid"""
    ops = D.coq_ops_table(D.opcode_table(t1, t2))
    pre = ("(let r := run_diff hatom_deep (tbl_udiff %s) (tbl_ops %s) no_paths no_paths %s %s %s in let cv := tbl_conv %s in "
           "let d := to_delta cv true false (tbl_ops %s) %s %s (fst r) (snd r) in "
           "let dd := to_delta cv false false (tbl_ops %s) %s %s (fst r) (snd r) in "
           "let ro := order_by %s fst in let ao := order_by %s fst in let rro := order_by %s fst in let rao := order_by %s fst in "
           "let a := %s in let b := %s in ") % (
        D.coq_udiff_table(D.udiff_table(t1, t2)), ops, D.coq_cfg(zip_, thr, True), V.to_coq(t1), V.to_coq(t2), conv,
        ops, V.to_coq(t1), V.to_coq(t2), ops, V.to_coq(t1), V.to_coq(t2),
        DC.coq_paths(rem), DC.coq_paths(add), DC.coq_paths(rrem), DC.coq_paths(radd), V.to_coq(t1), V.to_coq(t2))
    grid = "; ".join("%%s %s %s %s" % (b, e, c) for b in ("true", "false") for e in ("None", "(Some a)", "(Some b)") for c in ("a", "b"))
    body = ("SL [sx_result (%(add)s cv ro ao d a); sx_result (%(add)s cv ro ao d b); sx_sub_result (%(sub)s cv rro rao d b); "
            "sx_sub_result (%(sub)s cv rro rao d a); sx_sub_result (%(sub)s cv rro rao dd b); sx_result (%(add)s cv ro ao dd a); "
            "sx_sub_result (%(seq)s [Plus; Minus; Plus; Minus] a); %(rev)s d; %(rev)s dd; " + grid.replace("%s", "%(ver)s") + "])")
    hand = pre + body % dict(add="apply", sub="sub", seq="run_seq cv ro ao d", rev="hand_rev", ver="hand_verify")
    gen = pre + body % dict(add="tie_add", sub="tie_sub", seq="tie_seq cv ro ao (tie_fresh d)", rev="tie_rev", ver="tie_verify")
    return hand, gen


class _TieGenCtx:
    """what the pair generators need of a ctx: their own PRNG (the run's stream is left alone), counters dropped"""

    def __init__(self, seed, thorough):
        import random
        self.rng = random.Random(seed)
        self.thorough = thorough
        self.tier = "thorough" if thorough else "quick"

    def count(self, *a, **k):
        pass


def tie_search(ctx, name, rec):
    """(report, differing): the (t1, t2, zip, thr) from the generators on which the model regenerated from the current delta.py and
    the hand-written model differ, both evaluated inside Coq (shared by C08 and C01, which register the same tie)"""
    import os
    import re as _re
    from concurrent.futures import ThreadPoolExecutor
    from deepdiff import DeepDiff, Delta
    if name != "deltapasses":
        return {"searched": "nothing (unknown tie)"}, []
    gen_dir = os.path.join(ctx.scratch, "srctie")
    if rec.get("status") in ("translator-rejected", "generated-model-does-not-compile") or not os.path.exists(os.path.join(gen_dir, "DeltaGen.vo")):
        return {"searched": "nothing inside Coq (no compiled generated model: %s); run() escalates its streams to thorough size" % rec.get("status")}, []
    ctx.ensure_built(TIE_HDR)
    g = _TieGenCtx(ctx.seed + 808, False)
    pairs = [([1, 2, 3], [1, 3, 4]), ([1, 2, 3], [3, 1]), ({"a": 1, "b": [1, 2]}, {"a": 2, "b": [2]}), ((1, "a"), (2, 3)), ({1, 2}, {2, 3}),
             ({"a": {1}, "b": 2}, {"a": {2}, "c": 2}), ([[1, 2], [3]], [[2, 1], [3, 4]]), ({"a": 1}, {"a": "1"}), ([1, [2, 3]], [[2, 3, 4], 1])]
    pairs += c01.gen_random(g, 90) + gen_clash(g, 16) + gen_dict_removed(g, 10) + gen_single_added(g, 6)
    jobs = []
    for t1, t2 in pairs:
        if not c01.in_guard(t1, t2):
            continue
        for zip_ in (False, True):
            thr = 0.33
            try:
                dd = DeepDiff(*copy.deepcopy((t1, t2)), view="tree", zip_ordered_iterables=zip_, threshold_to_diff_deeper=thr)
                d = Delta(dd, bidirectional=True)
                rem, add = DC.impl_orders(d)
                rd = Delta(dd, bidirectional=True)
                rd.diff = rd._get_reverse_diff()
                rrem, radd = DC.impl_orders(rd)
                conv = DC.conv_table(DC.type_change_pairs(dd))
            except Exception:
                continue
            jobs.append((t1, t2, zip_, thr, _tie_expr(t1, t2, zip_, thr, conv, rem, add, rrem, radd)))
    shard = max(1, (len(jobs) + 15) // 16)
    files = []
    for k in range(0, len(jobs), shard):
        fn = os.path.join(ctx.scratch, "tie_cases_%d.v" % (k // shard))
        with open(fn, "w") as f:
            f.write("From Coq Require Import List String ZArith NArith Bool.\nImport ListNotations.\nFrom DD Require Import Base.Sx.\n" + TIE_HDR +
                    "Local Open Scope string_scope.\nDefinition cases : list (sx * sx) := [\n")
            f.write(";\n".join("(%s,\n %s)" % (gen, hand) for (_a, _b, _z, _t, (hand, gen)) in jobs[k:k + shard]))
            f.write("\n].\nEval vm_compute in run_cases cases.\n")
        files.append((k, fn))

    def one(kf):
        return core.sh(["coqc", "-Q", core.THEORIES, "DD", "-Q", gen_dir, "DDGen", kf[1]], timeout=900, cwd=ctx.scratch)
    with ThreadPoolExecutor(max_workers=core.NCPU) as ex:
        results = list(ex.map(one, files))
    differing, errors = [], []
    for (k, fn), (rc, out) in zip(files, results):
        m = _re.search(r'"BEGIN\n(.*)END"', out, _re.S)
        if rc != 0 or not m:
            errors.append(out[-400:])
            continue
        for line in m.group(1).splitlines():
            if line.strip():
                differing.append(jobs[k + int(line.partition("\t")[0])])
    res = {"searched": "%d (t1, t2, config) from the module's generators: generated __add__ / __rsub__ / _get_reverse_diff / _do_verify_changes vs "
                       "DeltaModel.apply / sub / reverse / verify inside Coq (+ on t1 and t2, - on t2 and t1, directed delta, the sequence +,-,+,- on one "
                       "object, reversed payload, 12 verification decisions)" % len(jobs),
           "differing": len(differing), "coq_errors": errors[:2]}
    differing.sort(key=lambda j: len(repr(j[0])) + len(repr(j[1])))
    uniq, seenp = [], set()
    for (t1, t2, zip_, thr, _e) in differing:
        if (repr(t1), repr(t2)) not in seenp:
            seenp.add((repr(t1), repr(t2)))
            uniq.append((t1, t2, zip_, thr))
    return res, uniq


def on_source_tie_break(ctx, name, rec):
    """The model regenerated from the current delta.py is no longer proved equal to the hand-written one (or could not be
    generated).  Search for a concrete (t1, t2, config) on which the two differ - both evaluated inside Coq on pairs from
    the module's own generators - then judge that pair like any generated case: the direct oracle of one_pair (inversion,
    detection, refusal, reuse; all construction variants) and the correspondence of the hand model with the implementation."""
    res, differing = tie_search(ctx, name, rec)
    if not differing:
        return res
    judged, cases = [], []
    f0, b0, k0 = len(ctx.failures), len(ctx.breaks), sum(v["n"] for v in ctx.known_seen.values())
    for (t1, t2, zip_, thr) in differing[:5]:
        ctx.count("gen:source_tie_differing_pair")
        one_pair(ctx, t1, t2, cases, all_variants=True, observers=True)
        judged.append({"t1": repr(t1), "t2": repr(t2), "first_cfg(zip,thr)": [zip_, thr]})
    ctx.coq_cases("c08tie", DC.HDR, cases, shard=60, label="source_tie_differing_pairs")
    res["first_differing"] = judged
    res["judged"] = {"new_oracle_failures": len(ctx.failures) - f0, "new_breaks": len(ctx.breaks) - b0,
                     "known_finding_cases": sum(v["n"] for v in ctx.known_seen.values()) - k0}
    if len(ctx.failures) > f0 or len(ctx.breaks) > b0:
        TIE_STATE["decided"] = True          # a concrete input was found and judged: no need to escalate the random streams
    return res


def run(ctx):
    del ORDER_CASES[:]
    del REM_CASES[:]
    cases = []
    hyp_cases = []
    # a source tie that is not intact (and whose search found no concrete differing input) escalates the streams to thorough size
    big = ctx.thorough or (ctx.tie_broken("deltapasses") and not TIE_STATE["decided"])
    if big and not ctx.thorough:
        ctx.count("escalated_by_broken_source_tie")
    pairs = c01.gen_random(ctx, 1700 if big else 250)
    pairs += gen_clash(ctx, 120 if big else 24)
    pairs += gen_dict_removed(ctx, 80 if big else 16)
    single = gen_single_added(ctx, 60 if big else 12)
    pairs += single
    pairs += gen_reordered(ctx, pairs, 120 if big else 24)
    for t1, t2 in pairs:
        mode = None
        if ctx.rng.random() < 0.13 and not DC.has_container_in_tuple(t1) and not DC.has_container_in_tuple(t2):
            t1, t2, mode = with_sharing(ctx, t1, t2)
        one_pair(ctx, t1, t2, cases, hyp_cases=hyp_cases, shared=mode, observers=any(t1 is a for a, _b in single))
    # histories on ONE Delta object: the shapes the ordering code depends on (every 8th of them also through all other clauses),
    # and every 4th pair of the streams above
    hist_cases = []
    for i, (t1, t2) in enumerate(gen_history_shapes(ctx, 700 if big else 120)):
        history_checks(ctx, t1, t2, hist_cases, corr_rate=0.08 if big else 0.2)
        if i % 8 == 0 and not (_has_tuple_key(t1) or _has_tuple_key(t2)):
            one_pair(ctx, t1, t2, cases)
    for t1, t2 in pairs[::4]:
        history_checks(ctx, t1, t2, hist_cases, corr_rate=0.04 if big else 0.1)
    doc_cases(ctx, cases)
    for c in cases[:3]:
        ctx.sample(c[2])
    ctx.coq_cases("c08", DC.HDR, cases, shard=120, label="payload+add+sub+corrupted")
    ctx.coq_cases("c08hyp", HYP_HDR, hyp_cases, shard=160, label="theorem-guards")
    ctx.coq_cases("c08ord", DC.HDR, ORDER_CASES, shard=160, label="ordered values_changed pass under korder")
    ctx.coq_cases("c08rem", REM_HDR, REM_CASES, shard=160, label="guard of the initial-base detection of removed keys")
    ctx.coq_cases("c08hist", DC.HDR, hist_cases, shard=60, label="actual results of histories on one Delta object")


def replay(ctx, data):
    case = data.get("case", {})
    if "t1" in case:
        t1, t2 = eval(case["t1"]), eval(case["t2"])
        if case.get("shared"):
            t1, t2 = reshare(t1, t2, case["shared"])
        if not (_has_tuple_key(t1) or _has_tuple_key(t2)):
            one_pair(ctx, t1, t2, [], corr=False, shared=case.get("shared"), all_variants=True)
        history_checks(ctx, t1, t2, None, full=True)      # all 126 sign patterns, all thresholds, the pair's own random histories
    else:
        run(ctx)

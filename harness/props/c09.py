"""C09 - path strings round-trip: report -> extract / parse_path -> same location.

proof:           coq/theories/Path/*.v (PathModel / PathLex / PathProofs / PathTight: the printer and the parser
                 automaton over the atoms of Base/Value.v; PathCacheModel / PathCacheProofs: the cache of
                 DiffLevel.path and the lru_cache of _path_to_elements; PathActsModel / PathActsProofs:
                 parse_path / stringify_path with all arguments; PathLit: a total model of ast.literal_eval and
                 of float repr; PathXModel / PathXProofs: every float and int as a key), Properties/C09.v
correspondence:  for each key sequence ks and an object holding a value at ks:
                 the path DeepDiff reports (text view), parse_path with key types,
                 _path_to_elements(root_element=None) with actions, extract,
                 stringify_path in both readings, the tree view's list-form path;
                 all compared with the model evaluated inside Coq.  Plus the
                 parser/extractor on arbitrary (hand-written, mutated, random)
                 path strings (old and extended alphabet, every string compared with the extended parser),
                 extract over every position of random values, traces of level.path(...) calls with
                 every argument combination, traces of _path_to_elements calls through its lru_cache,
                 parse_path / stringify_path with every argument shape, float / int keys of every
                 notation, and ast.literal_eval itself on fuzzed texts.
direct oracle:   the property statement on DeepDiff(obj1, obj2) where obj1/obj2
                 differ exactly at the location ks; and on diffs with 3-6 changed
                 children under one container: the list-form path of every leaf
                 level (asked twice) and of every ancestor level; on every result of every call trace.
All Coq evaluation of one run is batched (emit / flush) into as many parallel coqc runs as there are CPUs.
"""
import copy
import itertools
import logging
import multiprocessing as mp
import random
import sys

from harness import core, values

THEOREM_FILE = "Properties/C09.v"
COQCHK = ["Properties.C09"]
RULE = ("exhaustive: every string key of length <= 3 over the 23-character hostile alphabet (quick: all of length <= 2 and a seeded slice of length 3), "
        "as the only key and embedded in key sequences; random: key sequences of depth <= 4 mixing hostile strings (length <= 6), ints (negative too), "
        "half-integer floats, None, True/False and list/tuple indexes, inside containers with sibling entries (unchanged sibling containers being one "
        "shared object in 40 % of the dicts); diffs with 3-8 changed leaves under one "
        "container at depth 0-2 (list-form path of every leaf level, asked twice, and of every ancestor level; 1 in 7 with children shared between "
        "heads); default-mode diffs of edited scalar lists "
        "planted under such key sequences (every reported entry, t1 and t2 side); traces of 5-12 level.path(root, force, get_parent_too, use_t2, "
        "output_format) calls and list rewrites on reported levels and their ancestors (all 24 argument combinations, 5 roots; a third of the multi-leaf "
        "inputs with shared children); traces of 6-14 _path_to_elements calls (str with 4 root_element shapes, tuple / list objects, caller rewrites) "
        "from an empty lru_cache; parse_path / stringify_path with every root_element / include_actions / quote_str / list-tuple / pairs shape, first "
        "keys that could be taken for actions ('GET', 'xG', ...); float keys in every notation (exponent form, non half-integers, -0.0, subnormal, max, "
        "inf, nan), ints up to 400 digits and at the 4300-digit limit; ast.literal_eval on structured / mutated / token-soup texts; "
        "a case is non-trivial when the sequence is non-empty; distinct = distinct (key sequence, object) / trace / text")
TRUSTED = ["ast.literal_eval is modelled TOTALLY (Path/PathLit.v: tokenizer, expression grammar, _convert, decimal -> binary64) and compared with CPython "
           "on every generated text; the one unsupported corner - a token outside the vocabulary of literals in a text where _convert could raise "
           "TypeError / OverflowError - is counted (model_unsupported) and not compared; the parser model consults the older hand model of the reachable "
           "sub-language first (PathModel.literal_eval, without the 4300-digit limit: not consulted on such literals) - agreement of the two models "
           "is part of the correspondence",
           "float repr is modelled exactly (shortest digits that read back, Python's notation rules); the Coq theorems about float keys carry the "
           "decidable guard float_text_ok (the repr text reads back as the same float), evaluated on every float key of every run",
           "numpy / dataclass / custom-object / tuple keys are not modelled (tuple keys print as root[1][2]: outside the property's domain); "
           "attribute (GETATTR) rendering is the Obj extension; bytes dict keys (printed since /repo 0fac13b) are outside the property's quantifier: "
           "compared with the model, their round-trip failures (repr with a backslash escape) are counted and not reported; the self check of "
           "stringify_param is modelled for every key type but bytes",
           "object identities returned through the lru_cache and its hit / miss statistics are compared with the model but only recorded "
           "(lru_calls:traces_whose_object_identities_and_cache_statistics_agree_with_the_model): a refactoring of the cache key is no violation",
           "source tie (in addition to the correspondence, never instead of it): harness/translate/pathparse.py (Python ast -> Gallina; rules T1-T7 of "
           "coq/theories/Path/NOTES_tie.md) for _add_to_elements, _parse_path_to_elements, stringify_element and the constants GET / GETATTR / "
           "DEFAULT_FIRST_ELEMENT of deepdiff/path.py; ast.literal_eval stays an oracle there"]
ASSUMPTIONS = ["keys are atoms of Base/Value.v (str of any code points, int, half-integer float with |x| < 2^52, None, bool) in the theorems over "
               "Path/PathModel.v, and pvals of Path/PathLit.v (every binary64 float, every int) in the theorems over Path/PathXModel.v; "
               "list/tuple indexes are naturals",
               "the objects are tree shaped in the models (the generators share unchanged / changed sub-containers); "
               "sys.get_int_max_str_digits() is the default 4300 (PathXModel; the theorems over PathModel.v print ints in full)"]

ESC = "\U0001d1c0"
ALPHABET = ["'", '"', "[", "]", ".", "\\", " ", "\n", "\t", "é", ESC,
            "r", "o", "t", "_", "0", "1", "5", "-", "a", "b", "e", "+"]
assert len(ALPHABET) == 23

HEADER = "From DD Require Import Base.PyStr Base.Value Path.PathModel Path.PathShow.\nLocal Open Scope N_scope."
HEADER_ALL = ("From DD Require Import Base.PyStr Base.Value Path.PathModel Path.PathShow Path.PathCacheModel Path.PathCacheShow "
              "Path.PathActsModel Path.PathActsShow Path.PathLit Path.PathLitShow Path.PathXModel Path.PathXShow.\nLocal Open Scope N_scope.")


# The streams of one run hand their correspondence cases to one batch, evaluated at the end by as many
# parallel coqc runs as there are CPUs (a stream alone has too few cases to keep them busy).
def emit(ctx, name, header, cases, shard=250):
    b = getattr(ctx, "_c09_batch", None)
    if b is None:
        ctx.coq_cases(name, header, cases, shard=shard, label=name)
        return
    ctx.count("corr_cases:" + name, len(cases))
    b["cases"].extend((e, x, dict(t, stream=name) if isinstance(t, dict) else t) for e, x, t in cases)


def emit_count(ctx, name, header, fn, items, chunk, key):
    """ctx.count(key, number of items for which the Coq predicate behind `fn` holds)"""
    b = getattr(ctx, "_c09_batch", None)
    if b is None:
        ctx.count(key, par_count(ctx, name, header, fn, items, chunk))
    else:
        b["counts"].append((name, fn, items, chunk, key))


def flush(ctx):
    from concurrent.futures import ThreadPoolExecutor
    b = ctx._c09_batch
    ctx._c09_batch = None
    cases = b["cases"]
    # interleave, so that the expensive cases of one stream do not end up in one shard
    k = max(1, 2 * core.NCPU)
    cases = [c for i in range(k) for c in cases[i::k]]
    shard = max(25, -(-len(cases) // (3 * core.NCPU)))
    ctx.ensure_built(HEADER_ALL)

    def counts():
        for name, fn, items, chunk, key in b["counts"]:
            ctx.count(key, par_count(ctx, name, HEADER_ALL, fn, items, chunk))
    with ThreadPoolExecutor(max_workers=2) as ex:
        f1 = ex.submit(ctx.coq_cases, "batched", HEADER_ALL, cases, shard, 900, "batched(all streams)")
        f2 = ex.submit(counts)
        f1.result()
        f2.result()




# ---------------------------------------------------------------------------
# key sequences: list of ("k", atom) | ("x", index)
# ---------------------------------------------------------------------------

def coq_pkey(k):
    tag, a = k
    if tag == "x":
        return "(PIdx %d%%nat)" % a
    return "(PKey %s)" % values.atom_to_coq(a)


def coq_path(ks):
    """Coq term of type `path` (Base/Value.v) for a key sequence."""
    return "[" + "; ".join(coq_pkey(k) for k in ks) + "]"


def key_json(k):
    tag, a = k
    if tag == "x":
        return ["x", a]
    if a is None:
        return ["n"]
    if a is True or a is False:
        return ["b", a]
    if isinstance(a, int):
        return ["i", a]
    if isinstance(a, float):
        return ["f", int(a * 2)]
    if isinstance(a, bytes):
        return ["y", a.decode("latin-1")]
    return ["s", a]


def key_unjson(j):
    t = j[0]
    if t == "x":
        return ("x", j[1])
    if t == "n":
        return ("k", None)
    if t == "b":
        return ("k", bool(j[1]))
    if t == "i":
        return ("k", int(j[1]))
    if t == "f":
        return ("k", j[1] / 2)
    if t == "y":
        return ("k", j[1].encode("latin-1"))
    return ("k", j[1])


def canon_keys(ks):
    """mirror of sx_path (norm ks): an index is the int key"""
    return [["k", values.canon_atom(a)] for _t, a in ks]


def str_ok(s):
    return not ("'" in s and '"' in s) and not s.endswith(ESC)


def has_bytes(ks):
    return any(isinstance(a, bytes) for _t, a in ks)


def bytes_ok(b):
    return all(32 <= c <= 126 and c != 92 for c in b) and not (39 in b and 34 in b)


def key_ok(a):
    if isinstance(a, bytes):
        return bytes_ok(a)
    return not isinstance(a, str) or str_ok(a)


def path_ok(ks):
    """mirror of PathModel.path_ok (the guard of the Coq theorems)"""
    return all(key_ok(a) for _t, a in ks)


SIB_KEYS = ["sib", 7, None, "x y", 2.5, "a", 0, True, "'", '"', "[0]", "root", ESC + "z"]


def build(ks, leaf, sib_seed):
    """The object with exactly one leaf at location ks.  sib_seed None: the bare
    nest; otherwise dicts get sibling keys and sequences trailing items."""
    rng = random.Random(sib_seed) if sib_seed is not None else None

    def go(i):
        if i == len(ks):
            return leaf
        tag, a = ks[i]
        child = go(i + 1)
        if tag == "x":
            items = [None] * a + [child]
            if rng is not None:
                items = [rng.choice([None, 0, "f", [0], {"q": 0}]) for _ in range(a)] + [child]
                items += [rng.choice([None, 5, "t"]) for _ in range(rng.randint(0, 2))]
                if rng.random() < 0.3:
                    return tuple(items)
            return items
        d = {}
        sibs = []
        if rng is not None:
            sibs = [q for q in rng.sample(SIB_KEYS, rng.randint(0, 3)) if not (q == a)]
        cut = rng.randint(0, len(sibs)) if rng is not None else 0
        shared = [1] if (rng is not None and rng.random() < 0.4) else None      # one list object at several sibling keys
        for q in sibs[:cut]:
            d[q] = rng.choice([0, "v", shared if shared is not None else [1], None])
        d[a] = child
        for q in sibs[cut:]:
            d[q] = rng.choice([0, "v", shared if shared is not None else [1], None])
        return d
    return go(0)


def canon_or_nonatom(a):
    try:
        return values.canon_atom(a)
    except Exception:
        return "NONATOM"


def canon_val(v):
    try:
        return values.canon(v)
    except Exception:
        return "NONVALUE"


def typed_key_eq(a, b):
    return type(a) is type(b) and a == b


ROUNDTRIP_CLAUSES = ("parse_path", "extract", "stringify_path")     # the clauses findings K5 / K6 are about


def observe(ks, sib_seed):
    """Run the real API on the location ks.  Returns (expected observable for
    c09_case, list of (clause, failure text) - one entry per failing clause, obj1)."""
    from deepdiff import DeepDiff, extract, parse_path
    from deepdiff.path import stringify_path, _path_to_elements
    obj1 = build(ks, 1, sib_seed)
    obj2 = build(ks, 2, sib_seed)
    raw = [a for _t, a in ks]
    text = DeepDiff(obj1, obj2, ignore_private_variables=False)
    tree = DeepDiff(obj1, obj2, ignore_private_variables=False, view="tree")
    if list(text.keys()) != ["values_changed"] or len(text["values_changed"]) != 1:
        return None, [("report", "DeepDiff did not report exactly one values_changed: %r" % (text,))], obj1
    p = list(text["values_changed"])[0]
    level = tree["values_changed"][0]
    lp = level.path(output_format="list")
    if not isinstance(p, str):
        return None, [("report", "reported path is not a string: %r" % (p,))], obj1
    whys = []
    if level.path() != p:
        whys.append(("report", "tree view path() %r differs from the text view key %r" % (level.path(), p)))
    # -- parse
    parsed = parse_path(p)
    els = _path_to_elements(p, root_element=None)
    if not (len(parsed) == len(raw) and all(typed_key_eq(x, y) for x, y in zip(parsed, raw))):
        whys.append(("parse_path", "parse_path(%r) = %r, the key sequence is %r" % (p, parsed, raw)))
    # -- list path
    if not (isinstance(lp, list) and len(lp) == len(raw) and all(typed_key_eq(x, y) for x, y in zip(lp, raw))):
        whys.append(("list-form", "tree view list path %r, the key sequence is %r" % (lp, raw)))
    # -- extract
    try:
        got = extract(obj1, p)
        ex = ["Some", canon_val(got)]
        if not (type(got) is int and got == 1):
            whys.append(("extract", "extract(obj, %r) returned %r, the object at the location is 1" % (p, got)))
    except Exception as e:
        ex = None
        whys.append(("extract", "extract(obj, %r) raised %s: %s" % (p, type(e).__name__, e)))
    # -- stringify_path, both readings
    sa = stringify_path(els)
    sb = stringify_path(parsed, root_element=("root", "GET"))
    if sa != p:
        whys.append(("stringify_path", "stringify_path(_path_to_elements(p, root_element=None)) = %r, p = %r" % (sa, p)))
    if sb != p:
        whys.append(("stringify_path", "stringify_path(parse_path(p), root_element=('root','GET')) = %r, p = %r" % (sb, p)))
    exp = [p,
           ["Some", [["k", canon_or_nonatom(x)] for x in parsed]],
           [[canon_or_nonatom(x), "G" if act == "GET" else "A"] for x, act in els],
           ex, sa, sb,
           [["k", canon_or_nonatom(x)] for x in (lp if isinstance(lp, list) else [])]]
    return exp, whys, obj1


def split_whys(whys):
    """(failure outside the round-trip clauses or None, first round-trip failure or None):
    a known finding about the printer / parser pair never covers the other clauses"""
    other = next(((c, w) for c, w in whys if c not in ROUNDTRIP_CLAUSES), None)
    rt = next(((c, w) for c, w in whys if c in ROUNDTRIP_CLAUSES), None)
    return other, rt


def _task(args):
    ks, sib_seed = args
    logging.disable(logging.CRITICAL)
    try:
        exp, whys, obj1 = observe(ks, sib_seed)
    except Exception as e:
        return (ks, sib_seed, None, [("api", "the path API raised %s: %s" % (type(e).__name__, e))], None)
    return (ks, sib_seed, exp, whys, values.to_coq(obj1) if exp is not None else None)


def case_dict(ks, sib_seed, why=None, clause=None):
    d = {"keys": [key_json(k) for k in ks], "sib_seed": sib_seed,
         "python": "DeepDiff(build(keys,1), build(keys,2), ignore_private_variables=False); keys = %r" % ([a for _t, a in ks],)}
    if why:
        d["failure"] = why
        d["clause"] = clause
    return d


# ---------------------------------------------------------------------------
# known findings
# ---------------------------------------------------------------------------

def _strs(case):
    return [j[1] for j in list(case.get("keys", [])) + list(case.get("xkeys", [])) if j[0] == "s"]


def _rt(case):
    """the failing clause is one the printer / parser findings are about (never the list form,
    the report itself, a crash of the API or the history of calls)"""
    return case.get("clause") in ROUNDTRIP_CLAUSES


def _xkeys(case):
    return case.get("xkeys", [])


MATCHERS = {
    # DiffLevel.path() is None (no path string at all) and a key on the path is inf / -inf / nan
    "K7-nonfinite-float-key": lambda case: case.get("clause") == "no-path-string"
    and any(j[0] == "F" and j[1] in ("inf", "-inf", "nan") for j in _xkeys(case)),
    # DeepDiff itself raises ValueError out of repr(key) and a key on the path is an int of more than 4300 digits
    "K8-int-key-beyond-str-digits-limit": lambda case: case.get("clause") == "api" and "Exceeds the limit" in case.get("failure", "")
    and any(j[0] == "I" and j[1] > 4300 for j in _xkeys(case)),
    # a string key on the path contains both quote characters, and the string round trip is what fails
    "K5-both-quote-characters": lambda case: _rt(case) and any("'" in s and '"' in s for s in _strs(case)),
    # a string key on the path ends with the parser's private escape character, and the string round trip is what fails
    "K6-escape-character": lambda case: _rt(case) and any(s.endswith(ESC) for s in _strs(case)),
}


# ---------------------------------------------------------------------------
# generators
# ---------------------------------------------------------------------------

def all_strings(maxlen):
    for n in range(maxlen + 1):
        for t in itertools.product(ALPHABET, repeat=n):
            yield "".join(t)


NONSTR = [None, True, False, 0, 1, -1, 2, 10, -12, 123456789, 0.5, -0.5, 1.5, 2.0, 0.0, -3.0, 100.5, 1e15 + 0.5]


BYTES_KEYS = [b"ab", b"", b" ", b"a'b", b'a"b', b"a'\"", b"\xff", b"a\\b", b"\n", b"\x01", b"[0]", b"root", b"__x", b"a]['b", b"1", b"~\x7f"]


def gen_key(rng, pool):
    r = rng.random()
    if r < 0.45:
        if rng.random() < 0.6:
            return ("k", rng.choice(pool))
        n = rng.randint(1, 6)
        return ("k", "".join(rng.choice(ALPHABET) for _ in range(n)))
    if r < 0.60:
        return ("x", rng.randint(0, 4))
    if r < 0.70:
        return ("k", rng.choice(["root", "__a", "__", "root['a']", "a.b", "[0]", "0", "-1", "1.5", "None", "True", "b'a'", "r'a'", " 1", "", "中文", "a b"]))
    if r < 0.76:
        return ("k", rng.choice(BYTES_KEYS))
    a = rng.choice(NONSTR)
    if isinstance(a, int) and not isinstance(a, bool) and rng.random() < 0.3:
        a = rng.randint(-10 ** 12, 10 ** 12)
    return ("k", a)


def gen_seq(rng, pool, maxdepth=4):
    return [gen_key(rng, pool) for _ in range(rng.randint(1, maxdepth))]


def run_sequences(ctx, name, seqs):
    """seqs: list of (ks, sib_seed).  Correspondence + direct oracle."""
    with mp.get_context("fork").Pool(core.NCPU) as pool:
        res = pool.map(_task, seqs, chunksize=64)
    cases = []
    bad_paths = []
    for ks, sib_seed, exp, whys, obj_coq in res:
        ok = path_ok(ks)
        ctx.seen((tuple(map(tuple, map(key_json, ks))), sib_seed), nontrivial=bool(ks))
        ctx.count("%s:%s" % (name, "inside_guard" if ok else "outside_guard"))
        ctx.count("depth:%d" % len(ks))
        other, rt = split_whys(whys)
        if other:
            # the report itself, the list form, a crash: no finding about the printer / parser pair covers these
            ctx.fail(case_dict(ks, sib_seed, other[1], other[0]), other[1])
        if rt and has_bytes(ks) and not all(key_ok(a) for _t, a in ks if isinstance(a, bytes)):
            # bytes keys are outside C09's quantifier: the model must agree with the code on
            # them (correspondence below); the round-trip failures of bytes keys whose repr
            # needs an escape (outside the Coq guard) are counted, not reported
            ctx.count("%s:bytes_key_roundtrip_failure(outside the property's universe)" % name)
        elif rt:
            r = ctx.fail(case_dict(ks, sib_seed, rt[1], rt[0]), rt[1])
            if r == "known" and ok:
                # a failure inside the proved guard can never be a known finding
                ctx.failures.append({"what": "failure inside the proved guard: " + rt[1], "case": case_dict(ks, sib_seed, rt[1], rt[0])})
        if exp is None:
            continue
        if ok:
            cases.append(("c09_case %s %s" % (coq_path(ks), obj_coq), exp, case_dict(ks, sib_seed)))
        else:
            bad_paths.append(ks)
            cases.append(("c09_case_or %s %s (%s)" % (coq_path(ks), obj_coq, core.sx(exp)), exp, case_dict(ks, sib_seed)))
    emit(ctx, name, HEADER, cases)
    if bad_paths:
        emit_count(ctx, "%s_unsup" % name, HEADER, "count_unsup_paths", [coq_path(k) for k in bad_paths], 400,
                   "%s:model_unsupported(not compared)" % name)


def exhaustive_single(ctx, big=False):
    pool2 = list(all_strings(2))
    len3 = ["".join(t) for t in itertools.product(ALPHABET, repeat=3)]
    if not (ctx.thorough or big):
        r = random.Random(ctx.rng.randrange(1 << 30))
        len3 = r.sample(len3, 1500)
    keys = pool2 + len3
    ctx.note("exhaustive_string_keys", {"alphabet": [("U+%04X" % ord(c)) for c in ALPHABET], "max_len": 3,
                                        "keys": len(keys), "exhaustive": bool(ctx.thorough or big),
                                        "quick_tier": "all of length <= 2 and 1500 seeded of length 3"})
    seqs = [([("k", s)], None) for s in keys]
    run_sequences(ctx, "single_key", seqs)
    return pool2, len3


def embedded(ctx, pool, n):
    """hostile strings at every depth of mixed sequences"""
    seqs = []
    rng = ctx.rng
    for _ in range(n):
        ks = gen_seq(rng, pool)
        seqs.append((ks, rng.randrange(1 << 30) if rng.random() < 0.7 else None))
    # systematic: every length<=2 string between two other elements and as 2nd/3rd/4th element
    sysn = 0
    for s in pool:
        if len(s) <= (2 if ctx.thorough else 1):
            seqs.append(([("x", 1), ("k", s), ("k", -1)], None))
            seqs.append(([("k", "a"), ("k", 1.5), ("k", None), ("k", s)], None))
            seqs.append(([("k", s), ("k", s)], None))
            sysn += 3
    ctx.count("embedded:systematic", sysn)
    for ks, _s in seqs[:3]:
        ctx.sample({"keys": [a for _t, a in ks]})
    run_sequences(ctx, "sequences", seqs)


# ---- the parser on arbitrary path strings -----------------------------------

HAND = ["root", "root[4.3].b['a3']", "root.a[1]", "root['joe'].age", "root[1][2]['age']", "root.x.y", "root.__x", "root['__x']",
        "root[ 1]", "root[1 ]", "root[- 1]", "root[+1]", "root[--1]", "root[00]", "root[01]", "root[1_0]", "root[1.]", "root[.5]",
        "root[1.50]", "root[None]", "root[ None ]", "root[True]", "root[False]", "root[b'a']", "root[r'a']", "root[u'a']", "root[f'a']",
        "root[rb'a']", "root['a'", "root['a", "root[", "root]", "root.", "root..a", "root.a.", "root[[1]]", "root[1]]", "root[']']",
        "root['a']['b']", "root[\"a\"]", "root['a\"b']", "root[\"a'b\"]", "root[\"a'b\"c\"]", "root['%s']" % ESC, "root['a%s']['b']" % ESC,
        "root['%s'x']" % ESC, "root[%s]1]" % ESC, "root.a['b'].c[0]", "root[0].a", "root.None", "root.1.5", "root['a'].b['c']",
        "root['a\\b']", "root[a\\b]", "root['\\'']", "root[1][2][3][4]", "root[-1]", "root[-0.5]", "root[1.5]", "root['']", "root['']['']",
        "root[' ']", "root[\n1]", "root[1\n]", "root[\n 1]", "root[abc]", "root[a b]", "root[_1]", "root[1_]", "root[1__0]", "xxxx[1]", "ro",
        "root'a'", "root'a'[1]", "root[1]'a'", "root[1].a'b'", "root[1 2]", "root[1.2.3]", "root[0_0]", "root[- .5]", "root[-\n1]"]

PATH_CHARS = ["[", "]", ".", "'", '"', "1", "0", "5", "a", "b", "r", "_", "-", " ", "\n", ESC, "\\", "é", "None", "True", "root", "['a']", "[1]", ".x"]

PARSE_OBJ = {"a": {"b": [10, 20, {"c": "xyz"}]}, 1: [[5, 6], "str"], "": {"": 3}, "a'b": 4, None: 5, 1.5: 6, "joe": {"age": 7},
             -1: 8, "abc": 9, "a b": 10, ESC + "x": 11, "a\\b": 12}


def mutate(rng, p):
    p = list(p)
    for _ in range(rng.randint(1, 2)):
        r = rng.random()
        i = rng.randrange(4, len(p) + 1) if len(p) >= 4 else len(p)
        if r < 0.35 and i < len(p):
            del p[i]
        elif r < 0.7:
            p.insert(i, rng.choice(PATH_CHARS[:18]))
        elif i < len(p):
            p[i] = rng.choice(PATH_CHARS[:18])
    return "".join(p)


def parser_string_cases(ctx, strs, label="parser_strings"):
    """the correspondence cases (hand model, extended model) of _path_to_elements / extract / stringify_path on path strings"""
    from deepdiff import extract
    from deepdiff.path import stringify_path, _path_to_elements
    obj_coq = values.to_coq(PARSE_OBJ)
    cases, xcases = [], []
    for p in strs:
        try:
            els = _path_to_elements(p, root_element=None)
        except Exception as e:  # outside anything C09 talks about; the model has no such outcome
            ctx.count(label + ":impl_raised_" + type(e).__name__)
            continue
        try:
            ex = ["Some", canon_val(extract(PARSE_OBJ, p))]
        except Exception:
            ex = None
        try:
            sa = stringify_path(els)
        except Exception:
            continue
        exp = [[[canon_or_nonatom(x), "G" if act == "GET" else "A"] for x, act in els], ex, sa]
        ctx.seen(("pstr", p), nontrivial=len(els) > 0)
        ctx.count(label + (":with_attr" if any(act != "GET" for _x, act in els) else ":get_only"))
        cases.append(("c09_parse_case_or %s %s (%s)" % (core.coq_pystr(p), obj_coq, core.sx(exp)), exp, {"path_string": p}))
        # the same string through the extended parser (total model of literal_eval): compared whenever the old one is not
        xexp = ["ok", [[pv_canon(x), "G" if act == "GET" else "A"] for x, act in els], ["Some", sa]]
        if any(isinstance(c[0], list) and c[0][0] == "o" for c in xexp[1]):
            xexp[2] = None
        xcases.append(("c09_xparse_or %s (%s)" % (core.coq_pystr(p), core.sx(xexp)), xexp, {"path_string": p}))
    return cases, xcases


def parser_strings(ctx, n):
    from deepdiff import extract
    from deepdiff.path import stringify_path, _path_to_elements
    rng = ctx.rng
    strs = list(HAND)
    rendered = []
    for _ in range(n // 2):
        ks = gen_seq(rng, ["a", "b", "a'b", 'a"b', "", " ", "x.y", "[", "]"], 3)
        try:
            rendered.append(stringify_path([a for _t, a in ks], root_element=("root", "GET")))
        except Exception:
            pass
    strs += [mutate(rng, p) for p in rendered]
    for _ in range(n // 2):
        strs.append("root" + "".join(rng.choice(PATH_CHARS) for _ in range(rng.randint(1, 8))))
    strs = list(dict.fromkeys(strs))
    cases, xcases = parser_string_cases(ctx, strs)
    emit(ctx, "parser_strings", HEADER, cases)
    emit(ctx, "parser_strings(extended parser)", HEADER_ALL, xcases)
    emit_count(ctx, "parser_xunsup", HEADER_ALL, "count_xunsup", [core.coq_pystr(p) for p in strs], 200,
               "parser_strings:extended_parser_unsupported(not compared)")
    emit_count(ctx, "parser_unsup", HEADER, "count_unsup_strs", [core.coq_pystr(p) for p in strs], 200,
               "parser_strings:model_unsupported(not compared)")


# ---- extract over every position of random values ----------------------------

def _keygen(rng):
    r = rng.random()
    if r < 0.5:
        return rng.choice(["a", "b", "a'b", 'q"', "", " ", "x.y", "[0]", "root", "__p", "1", "é", "\\", ESC + "a", "a]['b"])
    if r < 0.75:
        return rng.randint(-3, 5)
    return rng.choice([None, True, False, 0.5, 1.5, -2.0])


def extract_positions(ctx, n):
    from deepdiff import extract
    from deepdiff.path import stringify_path
    rng = ctx.rng
    cases = []
    for _ in range(n):
        v = values.gen_value(rng, depth=3, width=3, kinds="LTDA", keygen=_keygen, strings=["s", "", "xy"])
        if not isinstance(v, (list, tuple, dict)):
            continue
        vc = values.to_coq(v)
        for pos in list(values.positions(v))[:12]:
            if not pos:
                continue
            # positions carry the real keys; which ones are sequence indexes follows from the containers
            ks, cur = [], v
            for q in pos:
                ks.append(("x", q) if isinstance(cur, (list, tuple)) else ("k", q))
                cur = cur[q]
            p = stringify_path(list(pos), root_element=("root", "GET"))
            try:
                got = extract(v, p)
                ex = ["Some", values.canon(got)]
                good = got is cur or (type(got) is type(cur) and values.typed_eq(got, cur))
            except Exception as e:
                ex, good = None, False
            ctx.seen(("pos", vc, pos), nontrivial=True)
            ctx.count("extract_positions:%s" % ("inside_guard" if path_ok(ks) else "outside_guard"))
            if not good:
                why = "extract(obj, %r) does not return the object at %r" % (p, list(pos))
                ctx.fail({"keys": [key_json(k) for k in ks], "obj": repr(v), "path": p, "failure": why, "clause": "extract"}, why)
            cases.append(("c09_extract_case %s %s" % (vc, coq_path(ks)), [p, ex, ["Some", values.canon(cur)]], {"obj": repr(v), "pos": repr(pos)}))
    emit(ctx, "extract_positions", HEADER, cases)


# ---- several changed children under one container: list-form paths of every level ----

def build_multi(locs, leaf):
    """Merge the locations (key sequences) into one object; every location holds `leaf`.
    Sequence levels are lists, gaps are filled with None."""
    if any(len(l) == 0 for l in locs):
        return leaf
    groups = {}
    order = []
    for l in locs:
        k = l[0]
        gk = (k[0], type(k[1]).__name__, k[1])
        if gk not in groups:
            groups[gk] = (k, [])
            order.append(gk)
        groups[gk][1].append(l[1:])
    if locs[0][0][0] == "x":
        n = max(groups[g][0][1] for g in order) + 1
        items = [None] * n
        for g in order:
            k, subs = groups[g]
            items[k[1]] = build_multi(subs, leaf)
        return items
    return {groups[g][0][1]: build_multi(groups[g][1], leaf) for g in order}


def gen_multi(rng, pool):
    prefix = [gen_key(rng, pool) for _ in range(rng.randint(0, 2))]
    m = rng.randint(3, 6)
    if rng.random() < 0.35:
        idx = rng.sample(range(m + rng.randint(0, 2)), m)
        heads = [("x", i) for i in sorted(idx)]
    else:
        heads = []
        tries = 0
        while len(heads) < m and tries < 60:
            tries += 1
            k = gen_key(rng, pool)
            if k[0] == "x":
                k = ("k", k[1])
            if all(not (k[1] == h[1]) for h in heads):
                heads.append(k)
    locs = []
    for h in heads:
        tail = []
        if rng.random() < 0.3:
            tail = [gen_key(rng, pool)]
            if rng.random() < 0.3:
                # a second changed leaf below the same child
                k2 = ("x", tail[0][1] + 1) if tail[0][0] == "x" else ("k", "zz")
                if tail[0][0] == "x" or not (tail[0][1] == "zz"):
                    locs.append(prefix + [h] + [k2])
        locs.append(prefix + [h] + tail)
    return locs


def typed_seq_eq(got, raw):
    return isinstance(got, list) and len(got) == len(raw) and all(typed_key_eq(x, y) for x, y in zip(got, raw))


def observe_multi(locs, shared=False):
    """Returns (expected observable for c09_multi, failure text or None).  shared: children holding the same
    sub-locations under different heads are ONE object (in t1, and one in t2)."""
    from deepdiff import DeepDiff, parse_path
    from deepdiff.path import stringify_path
    bm = build_multi_shared if shared else build_multi
    obj1, obj2 = bm(locs, 1), bm(locs, 2)
    raws = [[a for _t, a in l] for l in locs]
    strs = [stringify_path(r, root_element=("root", "GET")) for r in raws]
    if len(set(strs)) != len(strs):
        return None, None          # two locations print alike (outside the guard): nothing to match levels by
    tree = DeepDiff(obj1, obj2, ignore_private_variables=False, view="tree")
    if list(tree.keys()) != ["values_changed"] or len(tree["values_changed"]) != len(locs):
        return None, "DeepDiff did not report exactly the %d changed leaves: %r" % (len(locs), tree)
    levels = list(tree["values_changed"])
    by_str = {}
    for lv in levels:
        by_str[lv.path()] = lv
    if set(by_str) != set(strs):
        return None, "reported paths %r, expected %r" % (sorted(by_str), sorted(strs))
    ordered = [by_str[s_] for s_ in strs]
    why = None
    first = {}
    # 1. every leaf, in the order DeepDiff reports them
    for lv in levels:
        i = strs.index(lv.path())
        got = lv.path(output_format="list")
        first[i] = got
        if why is None and not typed_seq_eq(got, raws[i]):
            why = "tree view list path of %s is %r, the key sequence is %r" % (strs[i], got, raws[i])
    # 2. every ancestor level up to the root
    anc = {}
    for i, lv in enumerate(ordered):
        anc[i] = []
        up, d = lv.up, len(raws[i]) - 1
        while up is not None:
            got = up.path(output_format="list")
            anc[i].append(got)
            if why is None and (d < 0 or not typed_seq_eq(got, raws[i][:d])):
                why = "list path of the ancestor level %s of %s is %r, expected %r" % (up.path(), strs[i], got, raws[i][:max(d, 0)])
            up, d = up.up, d - 1
        if why is None and d != -1:
            why = "level %s has %d ancestors, expected %d" % (strs[i], len(anc[i]), len(raws[i]))
    # 3. every leaf a second time
    second = {}
    for i, lv in enumerate(ordered):
        got = lv.path(output_format="list")
        second[i] = got
        if why is None and not typed_seq_eq(got, raws[i]):
            why = "tree view list path of %s asked a second time is %r, the key sequence is %r" % (strs[i], got, raws[i])
    # 4. the list form is what parse_path makes of the string form
    for i, lv in enumerate(ordered):
        if why is None and path_ok(locs[i]) and not typed_seq_eq(parse_path(lv.path()), first[i]):
            why = "parse_path(%r) = %r differs from the list-form path %r" % (strs[i], parse_path(lv.path()), first[i])

    def cl(seq):
        return [["k", canon_or_nonatom(x)] for x in seq] if isinstance(seq, list) else "NOLIST"
    exp = [[strs[i], cl(first[i]), cl(second[i]), [cl(a) for a in anc[i]]] for i in range(len(locs))]
    return exp, why


def _multi_task(args):
    locs, shared = args
    logging.disable(logging.CRITICAL)
    try:
        exp, why = observe_multi(locs, shared)
    except Exception as e:
        return (locs, shared, None, "the path API raised %s: %s" % (type(e).__name__, e))
    return (locs, shared, exp, why)


def multi_case(locs, why=None, shared=False):
    d = {"locations": [[key_json(k) for k in l] for l in locs], "shared_children": shared,
         "python": "levels of DeepDiff(build_multi(locs,1), build_multi(locs,2), ignore_private_variables=False, view='tree')['values_changed']; "
                   "locs = %r" % ([[a for _t, a in l] for l in locs],)}
    if why:
        d["failure"] = why
    return d


def multi_leaf(ctx, pool, n):
    rng = ctx.rng
    inputs = [(gen_multi_shared(rng, pool), True) if i % 7 == 3 else (gen_multi(rng, pool), False) for i in range(n)]
    # fixed small ones: three siblings in a dict / in a list, at the root and two levels down
    inputs += [([[("k", "a")], [("k", "b")], [("k", "c")]], False),
               ([[("x", 0)], [("x", 1)], [("x", 2)], [("x", 3)]], False),
               ([[("k", "a.b"), ("k", "it's"), ("x", 0), ("k", "x")], [("k", "a.b"), ("k", "it's"), ("x", 0), ("k", "y][")],
                 [("k", "a.b"), ("k", "it's"), ("x", 0), ("k", " z ")], [("k", "a.b"), ("k", "it's"), ("x", 0), ("k", 1.5)]], False),
               ([[("k", "p"), ("k", "x")], [("k", "p"), ("k", "y")], [("k", "q"), ("k", "x")], [("k", "q"), ("k", "y")]], True)]
    with mp.get_context("fork").Pool(core.NCPU) as pool_:
        res = pool_.map(_multi_task, inputs, chunksize=16)
    cases = []
    for locs, shared, exp, why in res:
        if exp is None and why is None:
            ctx.count("multi_leaf:skipped(locations print alike)")
            continue
        ctx.seen(("multi", repr(locs), shared), nontrivial=True)
        ctx.count("multi_leaf:%d_locations" % len(locs))
        if shared:
            ctx.count("multi_leaf:inputs_with_children_shared_between_heads")
        cp = 0
        while all(len(l) > cp for l in locs) and all(l[cp] == locs[0][cp] for l in locs):
            cp += 1
        ctx.count("multi_leaf:container_%s_at_depth_%d" % ("list" if locs[0][cp][0] == "x" else "dict", cp))
        if why:
            ctx.fail(multi_case(locs, why, shared), why)
        if exp is not None:
            cases.append(("c09_multi [%s]" % "; ".join(coq_path(l) for l in locs), exp, multi_case(locs, shared=shared)))
    ctx.sample({"multi_leaf_locations": [[a for _t, a in l] for l in inputs[0][0]]})
    emit(ctx, "multi_leaf", HEADER, cases, shard=100)


# ---- heavily edited scalar lists in default alignment mode: every reported entry ----

def gen_list_pair(rng):
    """(a, b): either harness.values.gen_atom_list_pair or a targeted shape
    insert/delete, equal block, replace block whose sides differ in length, equal block."""
    alphabet = rng.choice([["a", "b", "c", "d"], list(range(8)), ["a", 1, None, 2.5, "b", 7], list("ABCDEFGHIJ"), ["x", "y"]])
    if rng.random() < 0.5:
        a, b, _k = values.gen_atom_list_pair(rng, maxlen=10, alphabet=alphabet)
        return a, b
    pick = lambda n: [rng.choice(alphabet) for _ in range(n)]
    eq1, eq2 = pick(rng.randint(1, 3)), pick(rng.randint(0, 2))
    old, new = pick(rng.randint(0, 2)), pick(rng.randint(1, 4))
    fresh = ["X", "Y", "Z", 91, 92]
    new = [rng.choice(fresh) if rng.random() < 0.7 else x for x in new]
    shift = pick(rng.randint(1, 2))
    if rng.random() < 0.5:
        old, new = new, old
    if rng.random() < 0.5:
        return eq1 + old + eq2, shift + eq1 + new + eq2          # insert first
    return shift + eq1 + old + eq2, eq1 + new + eq2              # delete first


def same_object(got, want):
    return got is want or (type(got) is type(want) and values.typed_eq(got, want))


def observe_list_edit(prefix, a, b, sib_seed):
    """Every entry DeepDiff reports (tree view) must name, on each side it has an
    object for, the location of exactly that object.  Returns (cases, failure)."""
    from deepdiff import DeepDiff, extract
    from deepdiff.helper import notpresent
    obj1 = build(prefix, list(a), sib_seed)
    obj2 = build(prefix, list(b), sib_seed)
    raw = [x for _t, x in prefix]
    tree = DeepDiff(obj1, obj2, ignore_private_variables=False, view="tree")
    why = None
    cases = []
    nent = 0
    for report_type, levels in tree.items():
        for level in levels:
            nent += 1
            for side, obj, want, kw in (("t1", obj1, level.t1, {}), ("t2", obj2, level.t2, {"use_t2": True})):
                if want is notpresent:
                    continue
                p = level.path(**kw)
                lp = level.path(output_format="list", **kw)
                where = "%s entry, %s side, path %r" % (report_type, side, p)
                try:
                    got = extract(obj, p)
                    ex = ["Some", canon_val(got)]
                    if why is None and not same_object(got, want):
                        why = "%s: extract returns %r, the entry's own %s object is %r" % (where, got, side, want)
                except Exception as e:
                    ex = None
                    if why is None:
                        why = "%s: extract raised %s: %s (the entry's own %s object is %r)" % (where, type(e).__name__, e, side, want)
                ks = None
                if isinstance(lp, list) and len(lp) >= len(raw) and typed_seq_eq(lp[:len(raw)], raw) \
                        and all(type(x) is int and x >= 0 for x in lp[len(raw):]):
                    ks = list(prefix) + [("x", x) for x in lp[len(raw):]]
                    try:
                        got2 = values.get_at(obj, lp)
                        if why is None and not same_object(got2, want):
                            why = "%s: the list-form path %r leads to %r, the entry's own %s object is %r" % (where, lp, got2, side, want)
                    except Exception as e:
                        if why is None:
                            why = "%s: the list-form path %r does not exist in %s (%s)" % (where, lp, side, type(e).__name__)
                elif why is None:
                    why = "%s: list-form path %r is not the container's key sequence %r followed by indexes" % (where, lp, raw)
                if ks is not None:
                    cases.append((obj, ks, [p, ex, ["Some", canon_val(want)]]))
    return cases, why, nent


def _list_task(args):
    prefix, a, b, sib_seed = args
    logging.disable(logging.CRITICAL)
    try:
        cases, why, nent = observe_list_edit(prefix, a, b, sib_seed)
    except Exception as e:
        return (args, [], "the path API raised %s: %s" % (type(e).__name__, e), 0)
    return (args, [("c09_extract_case %s %s" % (values.to_coq(o), coq_path(ks)), exp) for o, ks, exp in cases], why, nent)


def list_case(prefix, a, b, sib_seed, why=None):
    d = {"list_edit": {"prefix": [key_json(k) for k in prefix], "a": a, "b": b, "sib_seed": sib_seed},
         "python": "every level of DeepDiff(build(prefix,a), build(prefix,b), ignore_private_variables=False, view='tree'); "
                   "prefix = %r, a = %r, b = %r" % ([x for _t, x in prefix], a, b)}
    if why:
        d["failure"] = why
    return d


def list_edits(ctx, pool, n):
    rng = ctx.rng
    inputs = [([], ["B", "C", "D"], ["A", "B", "C", "X", "Y"], None)]
    while len(inputs) < n:
        prefix = [gen_key(rng, pool) for _ in range(rng.randint(0, 3))]
        if not path_ok(prefix):
            continue                    # K5/K6 keys are exercised elsewhere; here every failure is about the location
        a, b = gen_list_pair(rng)
        inputs.append((prefix, a, b, rng.randrange(1 << 30) if rng.random() < 0.5 else None))
    with mp.get_context("fork").Pool(core.NCPU) as pool_:
        res = pool_.map(_list_task, inputs, chunksize=16)
    cases = []
    for (prefix, a, b, sib_seed), cs, why, nent in res:
        ctx.seen(("list_edit", repr(prefix), repr(a), repr(b), sib_seed), nontrivial=nent > 0)
        ctx.count("list_edits:reported_entries", nent)
        ctx.count("list_edits:%s" % ("length_changes" if len(a) != len(b) else "same_length"))
        if why:
            ctx.fail(list_case(prefix, a, b, sib_seed, why), why)
        for expr, exp in cs:
            cases.append((expr, exp, list_case(prefix, a, b, sib_seed)))
    ctx.sample({"list_edit": {"prefix": [x for _t, x in inputs[1][0]], "a": inputs[1][1], "b": inputs[1][2]}})
    emit(ctx, "list_edits", HEADER, cases)


# ---- DiffLevel.path: every argument combination, in any order, on one level -------------
# (the per-level cache self._path; seeded change C09-3 lived there)

HEADER2 = HEADER.replace("Path.PathShow.", "Path.PathShow Path.PathCacheModel Path.PathCacheShow.")
FORCES = [None, "yes", "fake"]
ROOTS = ["root", "root", "", "r[0]", "x'y"]


def build_multi_shared(locs, leaf):
    """build_multi, but children reached through different heads and holding the same
    sub-locations are ONE object occurring at several positions"""
    memo = {}

    def go(ls):
        if any(len(l) == 0 for l in ls):
            return leaf
        groups, order = {}, []
        for l in ls:
            k = l[0]
            gk = (k[0], type(k[1]).__name__, k[1])
            if gk not in groups:
                groups[gk] = (k, [])
                order.append(gk)
            groups[gk][1].append(l[1:])

        def child(subs):
            key = repr(subs)
            if any(len(x) > 0 for x in subs):
                if key not in memo:
                    memo[key] = go(subs)
                return memo[key]
            return go(subs)
        if ls[0][0][0] == "x":
            n = max(groups[g][0][1] for g in order) + 1
            items = [None] * n
            for g in order:
                k, subs = groups[g]
                items[k[1]] = child(subs)
            return items
        return {groups[g][0][1]: child(groups[g][1]) for g in order}
    return go(locs)


def gen_multi_shared(rng, pool):
    """two or three heads under one container whose children have the same changed sub-locations"""
    prefix = [gen_key(rng, pool) for _ in range(rng.randint(0, 1))]
    heads = []
    while len(heads) < rng.randint(2, 3):
        k = gen_key(rng, pool)
        k = ("k", k[1])
        if all(not (k[1] == h[1]) for h in heads):
            heads.append(k)
    tails = []
    while len(tails) < rng.randint(1, 2):
        k = gen_key(rng, pool)
        if k[0] == "x":
            k = ("k", k[1])
        if all(not (k[1] == t[0][1]) for t in tails):
            tails.append([k])
    return [prefix + [h] + t for h in heads for t in tails]


def level_links(level):
    """(param of t1_child_rel, param of t2_child_rel) of every level above `level`, root first"""
    out = []
    lv = level.all_up
    while lv is not None and lv is not level:
        r1, r2 = lv.t1_child_rel, lv.t2_child_rel
        out.append((None if r1 is None else ("k", r1.param), None if r2 is None else ("k", r2.param)))
        lv = lv.down
    return out


def coq_links(links):
    def o(x):
        return "None" if x is None else "(Some (PKey %s))" % values.atom_to_coq(x[1])
    return "[" + "; ".join("mk_link %s %s" % (o(a), o(b)) for a, b in links) + "]"


def coq_pop(op):
    if op[0] == "mut":
        return "OMutate %d%%nat %s" % (op[1], coq_path([("k", x) for x in op[2]]))
    _c, root, force, gpt, t2, fmt = op
    return "OCall (mk_pargs %s %s %s %s %s)" % (
        core.coq_pystr(root), {None: "FNone", "yes": "FYes", "fake": "FFake"}[force],
        core.coq_bool(gpt), core.coq_bool(t2), "FmtStr" if fmt == "str" else "FmtList")


def gen_path_ops(rng, n):
    ops, nlists = [], 0
    for _ in range(n):
        if nlists and rng.random() < 0.2:
            ops.append(("mut", rng.randrange(nlists), rng.choice([[], ["zz"], [0, "q", None]])))
            continue
        fmt = rng.choice(["str", "str", "list"])
        ops.append(("call", rng.choice(ROOTS), rng.choice(FORCES), rng.random() < 0.35, rng.random() < 0.4, fmt))
        if fmt == "list":
            nlists += 1
    return ops


def run_path_ops(level, ops):
    """Execute ops on the level; returns (observable for c09_path_trace, raw results, list objects)."""
    lists, obs, raw = [], [], []
    for op in ops:
        if op[0] == "mut":
            lists[op[1]][:] = op[2]
            obs.append("-")
            raw.append(None)
            continue
        _c, root, force, gpt, t2, fmt = op
        r = level.path(root=root, force=force, get_parent_too=gpt, use_t2=t2, output_format=fmt)
        raw.append((r, list(r)) if isinstance(r, list) else r)        # a list: the object and its content now
        if isinstance(r, list):
            idx = next((i for i, l in enumerate(lists) if l is r), None)
            if idx is None:
                idx = len(lists)
                lists.append(r)
            obs.append(["l", idx, [["k", canon_or_nonatom(x)] for x in r]])
        elif isinstance(r, tuple) and len(r) == 3:
            a, b, c = r
            obs.append(["t", None if a is None else ["Some", a], ["k", canon_or_nonatom(b)], None if c is None else ["Some", c]])
        else:
            obs.append(["s", None if r is None else ["Some", r]])
    return obs, raw, lists


def check_path_results(level, obj1, obj2, ops, raw, guard_ok):
    """The property on every result of the trace: the list form leads to the level's own
    object, the string form extracts it (inside the guard), parse_path(string form) is the
    list form, a returned list is a new object."""
    from deepdiff import extract, parse_path
    from deepdiff.helper import notpresent
    seen_lists = []
    depth = len(level_links(level))
    for op, r in zip(ops, raw):
        if op[0] == "mut":
            continue
        _c, root, force, gpt, t2, fmt = op
        obj, want = (obj2, level.t2) if t2 else (obj1, level.t1)
        if want is notpresent:           # the other side's relationship is used: follow it in the other object
            obj, want = (obj1, level.t1) if t2 else (obj2, level.t2)
        what = "level.path(root=%r, force=%r, get_parent_too=%r, use_t2=%r, output_format=%r)" % (root, force, gpt, t2, fmt)
        if fmt == "list":
            if not isinstance(r, tuple) or not isinstance(r[0], list):
                return "list-form", "%s returned %r, not a list" % (what, r)
            robj, r = r
            if any(robj is l for l in seen_lists):
                return "list-form", "%s returned a list object it had returned before" % what
            seen_lists.append(robj)
            if len(r) != depth:
                return "list-form", "%s = %r has %d elements, the level is %d levels below the root" % (what, r, len(r), depth)
            try:
                got = values.get_at(obj, r)
            except Exception as e:
                return "list-form", "%s = %r does not exist in the object (%s)" % (what, r, type(e).__name__)
            if not same_object(got, want):
                return "list-form", "%s = %r leads to %r, the level's object is %r" % (what, r, got, want)
            continue
        res = r[2] if gpt else r
        if not isinstance(res, str) or not res.startswith(root):
            return "string-form", "%s returned %r" % (what, r)
        if guard_ok:
            p = "root" + res[len(root):]
            try:
                got = extract(obj, p)
            except Exception as e:
                return "extract", "%s = %r: extract raised %s" % (what, r, type(e).__name__)
            if not same_object(got, want):
                return "extract", "%s = %r extracts %r, the level's object is %r" % (what, r, got, want)
            keys = parse_path(p)
            if len(keys) != depth:
                return "parse_path", "parse_path(%r) = %r, the level is %d levels below the root" % (p, keys, depth)
            if gpt and depth:
                try:
                    par = extract(obj, "root" + r[0][len(root):])
                    got = par[r[1]]
                except Exception as e:
                    return "parent", "%s = %r: parent[param] raised %s" % (what, r, type(e).__name__)
                if not same_object(got, want):
                    return "parent", "%s = %r: parent[param] is %r, the level's object is %r" % (what, r, got, want)
    return None, None


def observe_path_calls(kind, inp, seed):
    """kind 'multi': inp = locs (objects may share children); 'list': inp = (prefix, a, b, sib_seed).
    Returns (list of (links, ops, observable), clause, failure)."""
    from deepdiff import DeepDiff
    rng = random.Random(seed)

    def make():
        if kind == "multi":
            shared = rng_shared[0]
            b = build_multi_shared if shared else build_multi
            o1, o2 = b(inp, 1), b(inp, 2)
        else:
            prefix, a, b_, sib_seed = inp
            o1, o2 = build(prefix, list(a), sib_seed), build(prefix, list(b_), sib_seed)
        tree = DeepDiff(o1, o2, ignore_private_variables=False, view="tree")
        levels = []
        for _rt, lvs in tree.items():
            for lv in lvs:
                levels.append(lv)
        return o1, o2, levels
    rng_shared = [kind == "multi" and seed % 3 == 0]
    obj1, obj2, levels = make()
    if not levels:
        return [], None, None
    if kind == "multi":
        guard_ok = all(path_ok(l) for l in inp)
    else:
        guard_ok = path_ok(inp[0])
    # pick levels: reported ones and their ancestors
    picks = []
    for _ in range(3):
        i = rng.randrange(len(levels))
        up = rng.choice([0, 0, 1, 2])
        picks.append((i, up))
    out, clause, why = [], None, None
    obj1b, obj2b, levels_b = make()
    for i, up in picks:
        lv, lvb = levels[i], levels_b[i]
        for _ in range(up):
            if lv.up is not None:
                lv, lvb = lv.up, lvb.up
        ops = gen_path_ops(rng, rng.randint(5, 12))
        links = level_links(lv)
        obs, raw, _lists = run_path_ops(lv, ops)
        out.append((links, ops, obs))
        if why is None:
            clause, why = check_path_results(lv, obj1, obj2, ops, raw, guard_ok)
        if why is None:
            # history independence: the calls alone, in the reverse order, on a new tree
            calls = [op for op in ops if op[0] == "call"]
            _o, raw_b, _l = run_path_ops(lvb, list(reversed(calls)))
            fwd = [r for op, r in zip(ops, raw) if op[0] == "call"]
            snap = lambda x: x[1] if isinstance(x, tuple) and len(x) == 2 and isinstance(x[0], list) else x
            for op, r1, r2 in zip(calls, fwd, reversed(raw_b)):
                r1, r2 = snap(r1), snap(r2)
                if repr(r1) != repr(r2):
                    clause, why = "history", "level.path%r returned %r after the history of this trace and %r in the reverse order" % (op[1:], r1, r2)
                    break
    return out, clause, why


def _pc_task(args):
    kind, inp, seed = args
    logging.disable(logging.CRITICAL)
    try:
        out, clause, why = observe_path_calls(kind, inp, seed)
    except Exception as e:
        return (args, [], "api", "the path API raised %s: %s" % (type(e).__name__, e))
    cases = []
    for links, ops, obs in out:
        try:
            expr = "c09_path_trace %s [%s]" % (coq_links(links), "; ".join(coq_pop(o) for o in ops))
        except Exception:
            continue                  # a relationship param that is not an atom: outside the model
        cases.append((expr, obs))
    return (args, cases, clause, why)


def pc_case(kind, inp, seed, clause=None, why=None):
    if kind == "multi":
        d = {"path_calls": {"kind": kind, "locs": [[key_json(k) for k in l] for l in inp], "seed": seed},
             "keys": [key_json(k) for l in inp for k in l]}
    else:
        prefix, a, b, sib_seed = inp
        d = {"path_calls": {"kind": kind, "prefix": [key_json(k) for k in prefix], "a": a, "b": b, "sib_seed": sib_seed, "seed": seed},
             "keys": [key_json(k) for k in prefix]}
    d["python"] = "harness.props.c09.observe_path_calls(kind, input, seed): random level.path(...) calls on levels of the tree view"
    if why:
        d["failure"] = why
        d["clause"] = clause
    return d


def pc_inputs(rng, pool, n):
    inputs = []
    while len(inputs) < n:
        r = rng.random()
        seed = rng.randrange(1 << 30)
        if r < 0.55:
            locs = gen_multi_shared(rng, pool) if seed % 3 == 0 else gen_multi(rng, pool)
            raws = [repr([a for _t, a in l]) for l in locs]
            if len(set(raws)) != len(raws):
                continue
            inputs.append(("multi", locs, seed))
        else:
            prefix = [gen_key(rng, pool) for _ in range(rng.randint(0, 2))]
            if not path_ok(prefix):
                continue
            a, b = gen_list_pair(rng)
            inputs.append(("list", (prefix, a, b, rng.randrange(1 << 30) if rng.random() < 0.5 else None), seed))
    return inputs


def path_calls(ctx, pool, n):
    inputs = pc_inputs(ctx.rng, pool, n)
    with mp.get_context("fork").Pool(core.NCPU) as pool_:
        res = pool_.map(_pc_task, inputs, chunksize=8)
    cases = []
    for (kind, inp, seed), cs, clause, why in res:
        ctx.seen(("path_calls", kind, repr(inp), seed), nontrivial=bool(cs))
        ctx.count("path_calls:%s_inputs" % kind)
        if kind == "multi" and seed % 3 == 0:
            ctx.count("path_calls:inputs_with_a_shared_child")
        if why:
            r = ctx.fail(pc_case(kind, inp, seed, clause, why), why)
        for expr, obs in cs:
            ctx.count("path_calls:calls", sum(1 for o in obs if o != "-"))
            cases.append((expr, obs, pc_case(kind, inp, seed)))
    emit(ctx, "path_calls", HEADER2, cases, shard=150)


# ---- _path_to_elements: traces of calls through the lru_cache ------------------------------
# (finding F9 lived there: the cached object was a list the callers could change)

ROOT_ARGS = [None, None, ("root", "GETATTR"), ("root", "GET"), ("r", "GET")]
LRU_STRINGS = ["root", "root[1]", "root['a']", "root['a'][0]", "root.a", "root.a['b'].c[0]", "root[1.5][None]", "root[True]", "root['a\"b']",
               "root[\"a'b\"]", "root['__x']", "root[ 1]", "root[b'a']", "root['x.y'][-2]", "root['%sz']" % ESC]


def coq_rootarg(re):
    if re is None:
        return "None"
    return "(Some (%s, %s))" % (core.coq_pystr(re[0]), re[1])


def coq_elements(els):
    return "[" + "; ".join("(%s, %s)" % (values.atom_to_coq(x), act) for x, act in els) + "]"


def coq_lop(op):
    if op[0] == "call":
        return "LCall %s %s" % (core.coq_pystr(op[1]), coq_rootarg(op[2]))
    if op[0] == "callobj":
        return "LCallObj %d%%nat %s" % (op[1], coq_rootarg(op[2]))
    if op[0] == "alloc":
        return "LAlloc (%s %s)" % ("HList" if op[1] == "L" else "HTuple", coq_elements(op[2]))
    return "LMutate %d%%nat %s" % (op[1], coq_elements(op[2]))


def gen_lru_ops(rng, strings):
    """callobj / mut name an EARLIER OPERATION: its result object"""
    pool = rng.sample(strings, min(len(strings), rng.randint(1, 3)))
    ops = []
    junk = [[], [("zz", "GET")], [(0, "GET"), ("q", "GETATTR")]]
    for _ in range(rng.randint(6, 14)):
        r = rng.random()
        if r < 0.6 or not ops:
            ops.append(("call", rng.choice(pool), rng.choice(ROOT_ARGS)))
        elif r < 0.72:
            ops.append(("alloc", rng.choice("LT"), rng.choice(junk[1:])))
        elif r < 0.85:
            ops.append(("callobj", rng.randrange(len(ops)), rng.choice(ROOT_ARGS)))
        else:
            ops.append(("mut", rng.randrange(len(ops)), rng.choice(junk)))
    return ops


def canon_els(els):
    return [[canon_or_nonatom(x), "G" if act == "GET" else "A"] for x, act in els]


def _path_caches():
    import deepdiff.path as P
    return [f for f in vars(P).values() if callable(getattr(f, "cache_clear", None)) and callable(getattr(f, "cache_info", None))]


def run_lru_ops(ops):
    """Returns ([per-op results without identities, full observable for c09_lru_trace], failure or None).
    Reference for every call: the same call made on empty caches.  Object identities are numbered in the
    order the objects are first seen (the empty tuple is a singleton of CPython: numbered per call key)."""
    from deepdiff.path import _path_to_elements, parse_path
    caches = _path_caches()

    def clear():
        for f in caches:
            f.cache_clear()

    def typed(els):
        return [(type(x).__name__, x, act) for x, act in els]
    ref = {}
    try:
        for op in ops:
            if op[0] == "call" and (op[1], op[2]) not in ref:
                clear()
                ref[(op[1], op[2])] = typed(_path_to_elements(op[1], root_element=op[2]))
    except Exception as e:
        return None, "the path API raised %s: %s" % (type(e).__name__, e)
    clear()
    objs, tags, obs, why = [], [], [], None

    def ident(r, key):
        singleton = isinstance(r, tuple) and len(r) == 0
        for i, o in enumerate(objs):
            if singleton:
                if key is not None and tags[i] == key:
                    return i
            elif o is r:
                return i
        objs.append(r)
        tags.append(key if singleton else None)
        return len(objs) - 1

    def show(r):
        return ["T" if isinstance(r, tuple) else "L", canon_els(r)]
    results, rids = [], []       # the object each operation returned (None: no object) and its number
    for op in ops:
        if results:
            rids.append(obs[-1][0] if isinstance(obs[-1], list) else None)
        results.append(None)
        try:
            if op[0] == "call":
                r = _path_to_elements(op[1], root_element=op[2])
                what = "_path_to_elements(%r, root_element=%r)" % (op[1], op[2])
                if why is None and not (isinstance(r, (tuple, list)) and typed(r) == ref[(op[1], op[2])]):
                    why = "%s returned %r in this trace and %r on an empty cache" % (what, r, [(x, a) for _t, x, a in ref[(op[1], op[2])]])
                if why is None and isinstance(r, list) and any(o is r for o in objs):
                    why = "%s returned a list object that an earlier call had returned (or the caller had passed in)" % what
                obs.append([ident(r, ("call", op[1], op[2])), show(r)])
                results[-1] = r
            elif op[0] == "callobj":
                arg = results[op[1]]
                if arg is None:
                    obs.append("RAISE")
                    continue
                r = _path_to_elements(arg, root_element=op[2])
                if why is None and r is not arg and typed(r) != typed(arg):
                    why = "_path_to_elements(<%s object %r>) returned %r" % (type(arg).__name__, arg, r)
                obs.append([rids[op[1]] if r is arg else ident(r, None), show(r)])
                results[-1] = r
            elif op[0] == "alloc":
                r = list(op[2]) if op[1] == "L" else tuple(op[2])
                obs.append([ident(r, None), show(r)])
                results[-1] = r
            else:
                arg = results[op[1]]
                if arg is None:
                    obs.append("RAISE")
                    continue
                try:
                    arg[:] = list(op[2])
                    obs.append("-")
                except TypeError:
                    obs.append("RAISE")
        except Exception as e:
            return None, "the path API raised %s: %s" % (type(e).__name__, e)
    infos = [f.cache_info() for f in caches]
    # parse_path returns a new list at every call
    for p in sorted({op[1] for op in ops if op[0] == "call"}):
        a = parse_path(p)
        want = [(t, x) for t, x, _a in ref[(p, None)]] if (p, None) in ref else [(type(x).__name__, x) for x in a]
        a.append("junk")
        b = parse_path(p)
        if why is None and not (isinstance(b, list) and [(type(x).__name__, x) for x in b] == want and b is not a):
            why = "parse_path(%r) returned %r after the caller changed the list an earlier call returned; expected %r" % (p, b, [x for _t, x in want])
    full = [obs, sum(i.hits for i in infos), sum(i.misses for i in infos), sum(i.currsize for i in infos)]
    content = [o[1] if isinstance(o, list) else o for o in obs]
    return [content, full], why


def _lru_task(ops):
    logging.disable(logging.CRITICAL)
    try:
        obs, why = run_lru_ops(ops)
    except BaseException as e:           # StopIteration out of a worker would corrupt pool.map
        obs, why = None, "the path API raised %s: %s" % (type(e).__name__, e)
    return ops, obs, why


def lru_case(ops, why=None):
    d = {"lru_trace": [list(o) for o in ops], "python": "harness.props.c09.run_lru_ops(ops): _path_to_elements calls from an empty lru_cache"}
    if why:
        d["failure"] = why
        d["clause"] = "lru_cache"
    return d


def lru_unjson(ops):
    out = []
    for o in ops:
        if o[0] in ("call", "callobj"):
            out.append((o[0], o[1], None if o[2] is None else tuple(o[2])))
        else:
            out.append((o[0], o[1], [tuple(x) for x in o[2]]))
    return out


def lru_calls(ctx, n):
    from deepdiff.path import stringify_path
    rng = ctx.rng
    strings = list(LRU_STRINGS)
    for _ in range(40):
        ks = [k for k in gen_seq(rng, ["a", "b", "a'b", "", " ", "x.y", "[", "é"], 3) if not isinstance(k[1], bytes)]
        if path_ok(ks):
            strings.append(stringify_path([a for _t, a in ks], root_element=("root", "GET")))
    traces = [[("call", "root[1]", None), ("mut", 0, []), ("call", "root[1]", None)]]         # the trace of F9
    traces += [gen_lru_ops(rng, strings) for _ in range(n)]
    with mp.get_context("fork").Pool(core.NCPU) as pool_:
        res = pool_.map(_lru_task, traces, chunksize=16)
    cases, fulls = [], []
    for ops, obs, why in res:
        ctx.seen(("lru", repr(ops)), nontrivial=True)
        ctx.count("lru_calls:traces")
        ctx.count("lru_calls:ops", len(ops))
        if why:
            ctx.fail(lru_case(ops, why), why)
        if obs is not None:
            content, full = obs
            ctx.count("lru_calls:cache_hits", full[1])
            opsc = "[%s]" % "; ".join(coq_lop(o) for o in ops)
            cases.append(("c09_lru_content_or %s (%s)" % (opsc, core.sx(content)), content, lru_case(ops)))
            fulls.append("(%s, %s)" % (opsc, core.sx(full)))
    emit(ctx, "lru_calls", HEADER2, cases, shard=150)
    # object identities (which calls return the very same tuple) and the cache statistics (hits, misses,
    # currsize) are not part of what the property demands: agreement with the model is recorded, not required
    emit_count(ctx, "lru_full", HEADER2, "count_lru_full_agree", fulls, 40,
               "lru_calls:traces_whose_object_identities_and_cache_statistics_agree_with_the_model")


# ---- parse_path / stringify_path with every argument shape ---------------------------------
# (root_element None / ('root', GETATTR) / ('root', GET) / other names, include_actions, quote_str,
#  lists and tuples of keys, lists of (element, action) pairs: the has_actions sniffing)

HEADER3 = HEADER.replace("Path.PathShow.", "Path.PathShow Path.PathCacheModel Path.PathActsModel Path.PathActsShow.")
SNIFF_KEYS = ["GET", "GETATTR", "aGET", "xG", "GE", "G", "aGETATTR", "T", b"GET", b"aG"]
QUOTE_STRS = ["'{}'", "'{}'", None, '"{}"']


def coq_quote_fmt(q):
    return {"'{}'": "QS", None: "None", '"{}"': "QS_DOUBLE"}[q]


def coq_sp_items(items):
    out = []
    for it in items:
        if it[0] == "key":
            out.append("SPKey %s" % values.atom_to_coq(it[1]))
        else:
            out.append("SPPair %s %s" % (values.atom_to_coq(it[1]), it[2]))
    return "[" + "; ".join(out) + "]"


def observe_shapes(ks, seed):
    """Returns (correspondence cases [(coq expr, expected)], clause, failure)."""
    from deepdiff import DeepDiff, parse_path
    from deepdiff.path import stringify_path
    rng = random.Random(seed)
    raw = [a for _t, a in ks]
    cases, clause, why = [], None, None

    def fail(c, w):
        nonlocal clause, why
        if why is None:
            clause, why = c, w
    p = None
    if ks:
        d = DeepDiff(build(ks, 1, None), build(ks, 2, None), ignore_private_variables=False)
        if list(d.keys()) == ["values_changed"] and len(d["values_changed"]) == 1:
            p = list(d["values_changed"])[0]
        if not isinstance(p, str):
            return [], "report", "DeepDiff did not report one path string: %r" % (d,)
    else:
        p = "root"
    ok = path_ok(ks)
    # -- parse_path with every root_element / include_actions
    for re in [None, ("root", "GETATTR"), ("root", "GET"), ("r", "GET")]:
        for incl in (False, True):
            got = parse_path(p, root_element=re, include_actions=incl)
            if incl:
                exp = ["dicts", [[canon_or_nonatom(g["element"]), "G" if g["action"] == "GET" else "A"] for g in got]]
                good = len(got) == len(raw) and all(set(g) == {"element", "action"} and typed_key_eq(g["element"], k) and g["action"] == "GET"
                                                    for g, k in zip(got, raw))
            else:
                exp = ["keys", [canon_or_nonatom(g) for g in got]]
                good = len(got) == len(raw) and all(typed_key_eq(g, k) for g, k in zip(got, raw))
            if ok and not good:
                fail("parse_path", "parse_path(%r, root_element=%r, include_actions=%r) = %r, the key sequence is %r" % (p, re, incl, got, raw))
            cases.append(("c09_parse_full_or %s %s %s (%s)" % (core.coq_pystr(p), coq_rootarg(re), core.coq_bool(incl), core.sx(exp)), exp))
    # -- stringify_path: pairs (the root's action must not matter), keys as list and tuple
    for act in ("GET", "GETATTR"):
        got = stringify_path([(k, "GET") for k in raw], root_element=("root", act))
        if ok and got != p:
            fail("stringify_path", "stringify_path([(key, 'GET'), ...], root_element=('root', %r)) = %r, the reported path is %r" % (act, got, p))
    for shape in (list, tuple):
        got = stringify_path(shape(raw), root_element=("root", "GET"))
        if ok and got != p:
            fail("stringify_path", "stringify_path(%s of the keys, root_element=('root','GET')) = %r, the reported path is %r" % (shape.__name__, got, p))
    # -- random argument shapes against the model
    for _ in range(3):
        rn, ract = rng.choice(["root", "root", "", "r"]), rng.choice(["GET", "GETATTR"])
        qs = rng.choice(QUOTE_STRS)
        if rng.random() < 0.5:
            items = [("key", k) for k in raw]
            arg = [k for k in raw]
        else:
            items = [("pair", k, rng.choice(["GET", "GET", "GETATTR"])) for k in raw]
            arg = [(k, a) for _p, k, a in items]
        if rng.random() < 0.3:
            arg = tuple(arg)
        try:
            got = ["Some", stringify_path(arg, root_element=(rn, ract), quote_str=qs)]
        except Exception as e:
            got = None
        cases.append(("c09_stringify %s (%s, %s) %s" % (coq_sp_items(items), core.coq_pystr(rn), ract, coq_quote_fmt(qs)), got))
    return cases, clause, why


def _shape_task(args):
    ks, seed = args
    logging.disable(logging.CRITICAL)
    try:
        cases, clause, why = observe_shapes(ks, seed)
    except Exception as e:
        return (args, [], "api", "the path API raised %s: %s" % (type(e).__name__, e))
    return (args, cases, clause, why)


def shape_case(ks, seed, clause=None, why=None):
    d = {"api_shapes": {"keys": [key_json(k) for k in ks], "seed": seed}, "keys": [key_json(k) for k in ks],
         "python": "harness.props.c09.observe_shapes(keys, seed): parse_path / stringify_path with every argument shape; keys = %r" % ([a for _t, a in ks],)}
    if why:
        d["failure"] = why
        d["clause"] = clause
    return d


def api_shapes(ctx, pool, n):
    rng = ctx.rng
    inputs = [([], 1)]
    for s_ in SNIFF_KEYS:                 # first keys whose [1] could be taken for an action
        inputs.append(([("k", s_)], rng.randrange(1 << 30)))
        inputs.append(([("k", s_), ("k", "b"), ("x", 1)], rng.randrange(1 << 30)))
    while len(inputs) < n:
        ks = gen_seq(rng, pool, 3)
        if rng.random() < 0.3:
            ks = [("k", rng.choice(SNIFF_KEYS))] + ks[:2]
        inputs.append((ks, rng.randrange(1 << 30)))
    with mp.get_context("fork").Pool(core.NCPU) as pool_:
        res = pool_.map(_shape_task, inputs, chunksize=16)
    cases = []
    for (ks, seed), cs, clause, why in res:
        ctx.seen(("shapes", repr(ks), seed), nontrivial=bool(ks))
        ctx.count("api_shapes:%s" % ("inside_guard" if path_ok(ks) else "outside_guard"))
        if why and not (has_bytes(ks) and not all(key_ok(a) for _t, a in ks if isinstance(a, bytes))):
            ctx.fail(shape_case(ks, seed, clause, why), why)
        for expr, exp in cs:
            cases.append((expr, exp, shape_case(ks, seed)))
    emit(ctx, "api_shapes", HEADER3, cases, shard=300)


def par_count(ctx, name, header, fn, items, chunk):
    """sum of `show_count (fn [items...])` over chunks evaluated by parallel coqc runs"""
    from concurrent.futures import ThreadPoolExecutor
    chunks = [items[i:i + chunk] for i in range(0, len(items), chunk)]
    if not chunks:
        return 0

    def one(a):
        k, c = a
        return ctx.coq_eval("%s_%d" % (name, k), header, "show_count (%s [%s])" % (fn, "; ".join(c)))
    ctx.ensure_built(header)
    with ThreadPoolExecutor(max_workers=core.NCPU) as ex:
        outs = list(ex.map(one, enumerate(chunks)))
    return sum(int(t.split()[0]) for t in outs if t is not None)


# ---- every float, every int: keys beyond the atoms of Base/Value.v (Path/PathXModel.v) ------------
# and the parser / literal_eval on every text (Path/PathLit.v: the total model)

HEADER4 = ("From DD Require Import Base.PyStr Base.Value Path.PathModel Path.PathShow Path.PathLit Path.PathLitShow "
           "Path.PathXModel Path.PathXShow.\nLocal Open Scope N_scope.")
XFLOATS = [1e16, 1e15, 1.5e16, -1e16, 1e-4, 1e-5, 2.5e-7, 0.1, -0.1, 0.3, 0.30000000000000004, 1e22, 1e23, 1e21, 123456789012345678.0,
           9007199254740992.0, 9007199254740994.0, 4503599627370496.5, 2.25, -7.125, 1e100, 1.7976931348623157e308, 5e-324,
           2.2250738585072014e-308, -0.0, 0.0, 1e-7, 9.999999999999999e22, 3.141592653589793, 2.718281828459045e-10, 6.02214076e23]
XFLOATS_CHEAP = [x for x in XFLOATS if 1e-30 < abs(x) < 1e30 or x == 0]      # the model needs seconds for |exponents| near 300
NONFINITE = [float("inf"), float("-inf"), float("nan")]
XINTS = [10 ** 30, -10 ** 30, 2 ** 64, 10 ** 16, -(10 ** 400), 10 ** 308 + 7]


def float_parts(x):
    """(neg, magnitude) with magnitude "zero" | "inf" | (m, e): x = +-m * 2**e, m odd"""
    import math
    neg = math.copysign(1.0, x) < 0
    if x == 0:
        return neg, "zero"
    if math.isinf(x):
        return neg, "inf"
    n, d = abs(x).as_integer_ratio()
    e = -(d.bit_length() - 1)
    while n % 2 == 0:
        n //= 2
        e += 1
    return neg, (n, e)


def pv_canon(v):
    """mirror of PathLitShow.sx_pval"""
    if v is None:
        return None
    if v is True or v is False:
        return ["b", v]
    if isinstance(v, int):
        return ["i", v]
    if isinstance(v, float):
        if v != v:
            return "nan"
        neg, mag = float_parts(v)
        return ["f", neg, mag if isinstance(mag, str) else [mag[0], mag[1]]]
    if isinstance(v, str):
        return ["s", v]
    if isinstance(v, bytes):
        return ["y", v.decode("latin-1")]
    try:
        hash(v)
        return ["o", True]
    except TypeError:
        return ["o", False]


def coq_fmag(mag):
    if mag == "zero":
        return "FZero"
    if mag == "inf":
        return "FInf"
    return "(FFin %d%%positive %s)" % (mag[0], core.coq_Z(mag[1]))


def coq_xkey(k):
    tag, a = k
    if tag == "x":
        return "(XIdx %d%%nat)" % a
    if a is None:
        return "(XKey PvNone)"
    if a is True or a is False:
        return "(XKey (PvBool %s))" % core.coq_bool(a)
    if isinstance(a, int):
        return "(XKey (PvInt %s))" % core.coq_Z(a)
    if isinstance(a, float):
        if a != a:
            return "XNan"
        neg, mag = float_parts(a)
        return "(XKey (PvFloat %s %s))" % (core.coq_bool(neg), coq_fmag(mag))
    if isinstance(a, bytes):
        return "(XKey (PvBytes %s))" % core.coq_pystr(a)
    return "(XKey (PvStr %s))" % core.coq_pystr(a)


def xkey_same(a, b):
    """same type and value; floats by sign and value (-0.0 is not 0.0), nan is nan"""
    if type(a) is not type(b):
        return False
    if isinstance(a, float):
        return pv_canon(a) == pv_canon(b)
    return a == b


def is_nonfinite(a):
    return isinstance(a, float) and (a != a or a in (float("inf"), float("-inf")))


def is_huge_int(a):
    return isinstance(a, int) and not isinstance(a, bool) and abs(a) >= 10 ** 4300


def xkey_ok(a):
    """mirror of the decidable part of PathXModel.xkey_ok (floats: finite; ints: at most 4300 digits)"""
    if isinstance(a, float):
        return not is_nonfinite(a)
    if isinstance(a, int) and not isinstance(a, bool):
        return not is_huge_int(a)
    return key_ok(a)


def observe_x(ks):
    """The real API on a location through keys of every kind (single leaf, bare nest).
    Returns (observable for c09_xcase, [(clause, failure)])."""
    from deepdiff import DeepDiff, extract, parse_path
    from deepdiff.path import stringify_path, _path_to_elements
    obj1, obj2 = build(ks, 1, None), build(ks, 2, None)
    raw = [a for _t, a in ks]
    try:
        text = DeepDiff(obj1, obj2, ignore_private_variables=False)
        tree = DeepDiff(obj1, obj2, ignore_private_variables=False, view="tree")
    except Exception as e:
        return "RAISES", [("api", "DeepDiff raised %s: %s" % (type(e).__name__, str(e)[:120]))]
    if list(text.keys()) != ["values_changed"] or len(text["values_changed"]) != 1:
        return None, [("report", "DeepDiff did not report exactly one values_changed: %s" % (repr(text)[:300],))]
    p = list(text["values_changed"])[0]
    level = tree["values_changed"][0]
    lp = level.path(output_format="list")
    whys = []
    if not (isinstance(lp, list) and len(lp) == len(raw) and all(xkey_same(x, y) for x, y in zip(lp, raw))):
        whys.append(("list-form", "tree view list path %s, the key sequence is %s" % (repr(lp)[:300], safe_repr(raw)[:300])))
    if level.path() != p:
        whys.append(("report", "tree view path() %r differs from the text view key %r" % (level.path(), p)))
    if p is None:
        whys.append(("no-path-string", "the reported path is None (no path string) for the key sequence %s" % (safe_repr(raw),)))
        return "None", whys
    if not isinstance(p, str):
        return None, whys + [("report", "reported path is not a string: %r" % (p,))]
    try:
        parsed = parse_path(p)
        els = _path_to_elements(p, root_element=None)
    except Exception as e:
        return [p, "RAISES"], whys + [("parse_path", "parse_path(%r) raised %s" % (p, type(e).__name__))]
    if not (len(parsed) == len(raw) and all(xkey_same(x, y) for x, y in zip(parsed, raw))):
        whys.append(("parse_path", "parse_path(%r) = %r, the key sequence is %r" % (p, parsed, raw)))
    try:
        got = extract(obj1, p)
        if not (type(got) is int and got == 1):
            whys.append(("extract", "extract(obj, %r) returned %r, the object at the location is 1" % (p, got)))
    except Exception as e:
        whys.append(("extract", "extract(obj, %r) raised %s: %s" % (p, type(e).__name__, e)))
    sa = stringify_path(els)
    sb = stringify_path(parsed, root_element=("root", "GET"))
    if sa != p:
        whys.append(("stringify_path", "stringify_path(_path_to_elements(p, root_element=None)) = %r, p = %r" % (sa, p)))
    if sb != p:
        whys.append(("stringify_path", "stringify_path(parse_path(p), root_element=('root','GET')) = %r, p = %r" % (sb, p)))
    exp = [p, ["ok", [[pv_canon(x), "G" if act == "GET" else "A"] for x, act in els], ["Some", sa]]]
    return exp, whys


def xkey_json(k):
    tag, a = k
    if isinstance(a, float):
        return ["F", repr(a)]
    if isinstance(a, int) and not isinstance(a, bool) and abs(a) >= 10 ** 300:
        # (number of digits, negative, leading digits): the replay rebuilds an int of that size
        nd = len(str(abs(a))) if abs(a) < 10 ** 4300 else 4301
        return ["I", nd, a < 0]
    return key_json(k)


def xkey_unjson(j):
    if j[0] == "F":
        return ("k", float(j[1]))
    if j[0] == "I":
        v = 10 ** (j[1] - 1)
        return ("k", -v if j[2] else v)
    return key_unjson(j)


def safe_repr(raw):
    """repr of a key list; ints beyond the digit limit of int -> str are named, not printed"""
    return "[" + ", ".join(("%s10**%d" % ("-" if a < 0 else "", 4300)) + "(or more)" if is_huge_int(a) else repr(a) for a in raw) + "]"


def xcase_dict(ks, why=None, clause=None):
    d = {"xkeys": [xkey_json(k) for k in ks],
         "python": "DeepDiff(build(keys,1), build(keys,2), ignore_private_variables=False); keys = %s" % (safe_repr([a for _t, a in ks])[:300],)}
    if why:
        d["failure"] = why
        d["clause"] = clause
    return d


def _x_task(ks):
    logging.disable(logging.CRITICAL)
    try:
        exp, whys = observe_x(ks)
    except Exception as e:
        return (ks, None, [("api", "the path API raised %s: %s" % (type(e).__name__, str(e)[:120]))])
    return (ks, exp, whys)


def gen_xkey(rng, pool):
    import math
    r = rng.random()
    if r < 0.45:
        if rng.random() < 0.7:
            return ("k", rng.choice(XFLOATS_CHEAP))
        return ("k", math.ldexp(rng.random() + 0.5, rng.randint(-60, 70)) * rng.choice([1, -1]))
    if r < 0.55:
        return ("k", rng.choice(XINTS) if rng.random() < 0.6 else rng.randint(-10 ** 40, 10 ** 40))
    if r < 0.60:
        return ("k", rng.choice(NONFINITE))
    return gen_key(rng, pool)


def exotic_keys(ctx, pool, n):
    rng = ctx.rng
    seqs = [[("k", x)] for x in XFLOATS + NONFINITE + XINTS]
    seqs += [[("k", "a"), ("k", x), ("x", 1)] for x in XFLOATS[:12]]
    seqs += [[("k", float("inf")), ("k", "a")], [("k", "a"), ("k", float("nan"))]]
    while len(seqs) < n:
        seqs.append([gen_xkey(rng, pool) for _ in range(rng.randint(1, 3))])
    # the boundary of repr's digit limit: direct oracle only (the model needs ~20 s for such a number)
    seqs_oracle_only = [[("k", 10 ** 4300 - 1)], [("k", 10 ** 4300)], [("k", "a"), ("k", -(10 ** 4300))]]
    with mp.get_context("fork").Pool(core.NCPU) as pool_:
        res = pool_.map(_x_task, seqs + seqs_oracle_only, chunksize=16)
    cases = []
    for ks, exp, whys in res:
        raw = [a for _t, a in ks]
        ok = all(xkey_ok(a) for a in raw)
        ctx.seen(("xkeys", safe_repr(raw)[:2000]), nontrivial=True)
        ctx.count("exotic_keys:%s" % ("inside_guard" if ok else "outside_guard"))
        for a in raw:
            if isinstance(a, float) and not is_nonfinite(a) and not (abs(a) < 2 ** 52 and a * 2 == int(a * 2) and pv_canon(a) != pv_canon(-0.0)):
                ctx.count("exotic_keys:finite_float_keys_outside_the_atoms_of_Base/Value.v")
        other, rt = split_whys(whys)
        bytes_out = has_bytes(ks) and not all(key_ok(a) for _t, a in ks if isinstance(a, bytes))
        for w in (other, rt):
            if w and not (bytes_out and w[0] in ROUNDTRIP_CLAUSES):
                r = ctx.fail(xcase_dict(ks, w[1], w[0]), w[1])
                if r == "known" and ok:
                    ctx.failures.append({"what": "failure inside the proved guard: " + w[1], "case": xcase_dict(ks, w[1], w[0])})
        if exp is not None and not any(isinstance(a, int) and not isinstance(a, bool) and abs(a) >= 10 ** 1000 for a in raw):
            # with the decidable guard of the Coq theorems (float_text_ok ...): it must hold of every finite float
            cases.append(("c09_xcase_g [%s]" % "; ".join(coq_xkey(k) for k in ks), [ok, exp], xcase_dict(ks)))
            ctx.count("exotic_keys:key_sequences_meeting_the_coq_guard", 1 if ok else 0)
    emit(ctx, "exotic_keys", HEADER4, cases, shard=30)


# ---- literal_eval and the parser on every text -----------------------------------------------------

LIT_LITS = ["0", "1", "12", "007", "0_0", "1_0", "0x1f", "0b1_0", "0o7", "1.5", ".5", "5.", "1e5", "1E-5", "1.5e+300", "1e999", "4.9e-324",
            "1e16", "9007199254740993", "0.1", "1e22", "1e23", "0.30000000000000004", "1j", "1.5J", "0e0", "00.5", "1_0.0_1e1_0", "1" + "0" * 310,
            "-0.0", "- 1", "+2", "1e-05", "1.7976931348623157e+308", "5e-324"]
LIT_OTH = ["None", "True", "False", "...", "set()", "'a'", '"b"', "b'x'", "r'y'", "rb'z'", "'é'", "''", '""', "'a' 'b'", "'''t'''", "u'k'", "f'k'", "a", "set"]
LIT_CHARS = list("0123456789._eEjxob+- \n\t\f\r#,()[]{}:'\"") + ["é", "a", "N", "\x0b", "\x00", "=", "*", "set", "True"]
LIT_VOCAB = ["1", "0", "'a'", "b'c'", "None", "True", "set", "(", ")", "[", "]", "{", "}", ",", ":", "+", "-", "...", "1j", " ", "\n", "1.5", "()", "[]", "{}",
             "set()", "#\n", "1e400"]


def gen_lit(rng, d=0):
    r = rng.random()
    if r < 0.3:
        return rng.choice(LIT_LITS)
    if r < 0.45:
        return rng.choice(LIT_OTH)
    if r < 0.55:
        return rng.choice(["-", "+", "- ", "--"]) + gen_lit(rng, d + 1)
    if r < 0.65:
        return gen_lit(rng, d + 1) + rng.choice(["+", "-", " + ", " - "]) + gen_lit(rng, d + 1)
    if r < 0.70:
        return gen_lit(rng, d + 1) + rng.choice(["()", "(1)", "[1]", "[1:2]", "[::]", "[1,2:]", "(1,)"])
    if d > 2:
        return "1"
    items = [gen_lit(rng, d + 1) for _ in range(rng.randint(0, 3))]
    sep = rng.choice([",", ", ", " ,", ",\n", ", #c\n"])
    k, trail = rng.random(), rng.choice(["", "", ","])
    if k < 0.3:
        return "(" + sep.join(items) + trail + ")"
    if k < 0.5:
        return "[" + sep.join(items) + trail + "]"
    if k < 0.7:
        return "{" + sep.join(items) + trail + "}"
    if k < 0.9:
        return "{" + sep.join(gen_lit(rng, d + 1) + rng.choice([":", ": ", " :"]) + x for x in items) + trail + "}"
    return sep.join(items) + trail


def gen_lit_text(rng):
    r = rng.random()
    if r < 0.25:
        return "".join(rng.choice(LIT_VOCAB) for _ in range(rng.randint(1, rng.choice([4, 8]))))
    s = list(gen_lit(rng))
    if rng.random() < 0.6:
        for _ in range(rng.randint(0, 2)):
            q, i = rng.random(), rng.randrange(len(s) + 1)
            if q < 0.4 and i < len(s):
                del s[i]
            elif q < 0.8:
                s.insert(i, rng.choice(LIT_CHARS))
            elif i < len(s):
                s[i] = rng.choice(LIT_CHARS)
    s = "".join(s)
    if rng.random() < 0.15:
        s = rng.choice(["\n", " ", "#x\n", "\f", "\n "]) + s
    if rng.random() < 0.15:
        s = s + rng.choice(["\n", " ", " #x", "\n ", "\n\f", "\n#", "\n\n", "\n1"])
    return s


def real_literal_eval(s):
    import ast
    import warnings
    try:
        with warnings.catch_warnings():
            warnings.simplefilter("ignore")
            return ["ok", pv_canon(ast.literal_eval(s))]
    except (ValueError, SyntaxError):
        return "fail"
    except (TypeError, MemoryError, RecursionError, OverflowError):
        return "raise"


LIT_HAND = ["1e5", "1E5", "1e+5", "1e", "1.e5", ".5e1", "0x10", "0o17", "0b101", "007", "0_7", "1j", "09.5", "1e999", "-1e999", "...", "1.", "a", "1 #c", "#",
            "(1,\n2)", "1,2", "1,", "()", "[]", "{}", "{1}", "{1:2}", "set()", "{[1]}", "{[1]:2}", "{[1]: a}", "1+2j", "1+2", "-(1)", "--1", "((1))", "'a' 'b'",
            "b'a' 'b'", "ur'a'", "f'a'", "1\n ", "1\n #c", "\n 1", "\f1", "\f 1", "(\n 1)", "'''a\nb'''", "''''a'''", "1\r", "(1,\r2)", "1\x0b", "1[1:2]", "1[]",
            "(set)()", "set()()", "1" + "0" * 309 + "+1j", "1" * 4301, "0" * 4400, "{1:2, 3:1()}", "-0.0", "1e-400", "2.5e-324", "1.7976931348623159e308"]


def reachable_text(t):
    """the texts _add_to_elements can hand to literal_eval: without quotes, or A q B q / A q B with A free of
    quotes and B free of q (a closing quote flushes the element), and without backslash / U+1D1C0"""
    if "\\" in t or ESC in t:
        return False
    i = next((k for k, c in enumerate(t) if c in "'\""), None)
    if i is None:
        return True
    q, rest = t[i], t[i + 1:]
    return q not in rest or rest.index(q) == len(rest) - 1


def literal_texts(ctx, n):
    """ast.literal_eval itself against the total model (PathLit.full_eval), the combined function the
    parser uses (PathXModel.leval), and the agreement of the hand model of the sub-language with the total one"""
    rng = ctx.rng
    texts = list(dict.fromkeys(LIT_HAND + [gen_lit_text(rng) for _ in range(n)]))
    texts = [t for t in texts if "\\" not in t]
    cases, cases2 = [], []
    nok = 0
    for t in texts:
        exp = real_literal_eval(t)
        nok += isinstance(exp, list)
        ctx.seen(("lit", t), nontrivial=True)
        cases.append(("c09_lit_or %s (%s)" % (core.coq_pystr(t), core.sx(exp)), exp, {"literal_text": t}))
        if reachable_text(t):
            ctx.count("literal_texts:reachable_from_the_parser")
            cases.append(("c09_leval_or %s (%s)" % (core.coq_pystr(t), core.sx(exp)), exp, {"literal_text": t}))
            cases2.append(("c09_lit_agree %s" % core.coq_pystr(t), "agree", {"literal_text": t, "note": "PathModel.literal_eval against PathLit.full_eval"}))
    ctx.count("literal_texts:texts", len(texts))
    ctx.count("literal_texts:accepted_by_literal_eval", nok)
    emit(ctx, "literal_texts", HEADER4, cases, shard=200)
    emit(ctx, "literal_models_agree", HEADER4, cases2, shard=400)
    emit_count(ctx, "lit_unsup", HEADER4, "count_lit_unsup", [core.coq_pystr(t) for t in texts], 120,
               "literal_texts:model_unsupported(not compared)")


XPATH_CHARS = PATH_CHARS + ["e", "E", "j", "x", "(", ")", ",", "#", "{", "}", ":", "+", "2", "9", "\r", "\f", "1e5", "0x1", "1.5", "()", "set()", "..."]


def parser_strings_x(ctx, n):
    """_path_to_elements / stringify_path on arbitrary strings against the extended parser: every string is compared"""
    from deepdiff.path import stringify_path, _path_to_elements
    rng = ctx.rng
    strs = list(HAND) + ["root[1e5]", "root[1e+16]", "root[-0.0]", "root[1e999]", "root[0x10]", "root[1j]", "root[(1, 2)]", "root[1, 2]", "root[{1}]",
                         "root[{[1]}]", "root[...]", "root[1 #'\n]", "root[(1, #'\n2) #']", "root[set()]", "root.1e5", "root[1e5].a[0b1]", "root[[1, 2]]",
                         "root[1e-05][2.5e-07]['a']", "root[{[1]: 2}]x", "root[00]", "root['a' 'b']", "root[\"a\" 'b']",
                         # a "]" reaches literal_eval only inside what the automaton takes for a quoted part: after #'
                         "root[{[1, #'\n2]}", "root[{[1 #'\n]:2}", "root[{(1,[2 #'\n])}", "root[(1, #'\n2)", "root[[1, #'\n2]",
                         "root[1" + "0" * 310 + "+1j", "root[1" + "0" * 310 + "+1j]", "root[{[1, #\"\n2]}", "root[{1: [2 #'\n]}"]
    for _ in range(n):
        strs.append("root" + "".join(rng.choice(XPATH_CHARS) for _ in range(rng.randint(1, 9))))
    for _ in range(n // 3):
        strs.append("root[" + gen_lit_text(rng) + "]" + rng.choice(["", "", "['a']", ".b", "[0]"]))
    for _ in range(n // 6):
        t = gen_lit_text(rng)
        i = t.find("]")
        if i > 0 and "'" not in t[:i]:
            strs.append("root[" + t[:i] + "#'\n" + t[i:])          # the element ends with the string, inside "quotes"
    strs = list(dict.fromkeys(strs))
    cases = []
    for p in strs:
        try:
            els = _path_to_elements(p, root_element=None)
            cels = [[pv_canon(x), "G" if act == "GET" else "A"] for x, act in els]
            try:
                sa = ["Some", stringify_path(els)]
            except Exception:
                sa = None
            if any(isinstance(c[0], list) and c[0][0] == "o" for c in cels):
                sa = None          # an element that is no key of the domain (tuple, complex, ...): the model keeps no text for it
            exp = ["ok", cels, sa]
        except (TypeError, OverflowError):
            exp = "RAISES"
            ctx.count("parser_strings_x:impl_raises(TypeError / OverflowError out of literal_eval)")
        except Exception as e:
            ctx.count("parser_strings_x:impl_raised_" + type(e).__name__)
            continue
        ctx.seen(("xpstr", p), nontrivial=True)
        cases.append(("c09_xparse_or %s (%s)" % (core.coq_pystr(p), core.sx(exp)), exp, {"path_string": p}))
    emit(ctx, "parser_strings_x", HEADER4, cases, shard=200)
    emit_count(ctx, "xparser_unsup", HEADER4, "count_xunsup", [core.coq_pystr(p) for p in strs], 150,
               "parser_strings_x:model_unsupported(not compared)")


# ---- refuted witnesses still fail on the implementation -----------------------

def witnesses(ctx):
    for key, ks in (("K5-both-quote-characters", [("k", "a'b\"c")]), ("K6-escape-character", [("k", ESC)])):
        open_ = any(f["key"] == key and f.get("status") == "open" for f in ctx.findings)
        _exp, whys, _o = observe(ks, None)
        why = "; ".join(w for _c, w in whys) or None
        if open_ and not any(c in ROUNDTRIP_CLAUSES for c, _w in whys):
            ctx.break_("correspondence", {"name": "refuted_witness", "finding": key,
                                          "detail": "the witness of the Coq _refuted theorem no longer fails on the implementation: the model is wrong there"})
        ctx.note("witness:" + key, why or "does not fail")


# ---- source tie: the parser of deepdiff/path.py regenerated from the current source ---------------------
# (harness/translate/pathparse.py -> DDGen.PathGen; coq/srctie/PathGenEquiv.v proves it equal to Path/PathModel.v;
#  core.source_tie_step compiles both on every run)

SOURCE_TIES = [{"name": "pathparse", "translator": "pathparse", "gen_module": "PathGen", "equiv": ["PathGenEquiv"],
                "needs": ["Path.PathTieFacts", "Path.PathXProofs", "Properties.C09"], "sources": ["deepdiff/path.py"],
                "fragment": "GET, GETATTR, DEFAULT_FIRST_ELEMENT, _add_to_elements, _parse_path_to_elements (the character "
                            "automaton), stringify_element"}]

TIE_ALPHA = ["[", "]", ".", "'", '"', "a", "1", ESC, " "]          # the alphabet of the bounded-exhaustive search

TIE_SEARCH_HEADER = r'''From Coq Require Import List String ZArith NArith Bool.
Import ListNotations.
From DD Require Import Base.Sx Base.PyStr Base.Value Path.PathModel Path.PathShow Path.PathLit Path.PathLitShow
  Path.PathXModel Path.PathXShow Path.PathTie.
From DDGen Require Import PathGen.
Local Open Scope N_scope.
Definition LEx (e : pystr) : leres pval :=
  match leval e with LxOk v => LeOk v | LxFail => LeCaught | LxRaise => LeRaises | LxUnsup => LeUnsup end.
Definition sx_tout {A} (f : A -> sx) (r : tout A) : sx :=
  match r with TDone x => SL [SA "ok"; f x] | TRaises => SA "RAISES" | TUnsup => SA "UNSUP" end.
Definition h_sx (p : pystr) : sx := match elements p with Some els => SL [SA "ok"; sx_elements els] | None => SA "UNSUP" end.
Definition g_sx (p : pystr) : sx := sx_tout sx_elements (g__parse_path_to_elements atom AStr LEh p None).
Definition hx_sx (p : pystr) : sx :=
  match elementsx p with XDone els => SL [SA "ok"; SL (map sx_xel els)] | XRaises => SA "RAISES" | XUnsup => SA "UNSUP" end.
Definition gx_sx (p : pystr) : sx := sx_tout (fun els => SL (map sx_xel els)) (g__parse_path_to_elements pval PvStr LEx p None).
(* the generated parser and the hand-written one differ on the path string p (either instance) *)
Definition diff (p : pystr) : bool := negb (sx_eqb (g_sx p) (h_sx p)) || negb (sx_eqb (gx_sx p) (hx_sx p)).
(* ... with a root element; stringify_element on the part after "root", with quote_str None and "'{}'" *)
Definition root_el : element := (AStr (s2p "root"), GETATTR).
Definition diff_root (p : pystr) : bool :=
  negb (sx_eqb (sx_tout sx_elements (g__parse_path_to_elements atom AStr LEh p (Some root_el)))
               (match elements p with Some els => SL [SA "ok"; sx_elements (root_el :: els)] | None => SA "UNSUP" end)).
Definition diff_se (p : pystr) : bool :=
  let s := skipn 4 p in
  negb (sx_eqb (sx_tout sx_str (g_stringify_element s None)) (SL [SA "ok"; sx_str (stringify_element s None)]))
  || negb (sx_eqb (sx_tout sx_str (g_stringify_element s QS)) (SL [SA "ok"; sx_str (stringify_element s QS)])).
Definition diff_any (p : pystr) : bool := diff p || diff_root p || diff_se p.
Definition first_some {A} (l : list (option A)) : option A :=
  fold_right (fun o acc => match o with Some x => Some x | None => acc end) None l.
Definition show_res (o : option pystr) : string :=
  ("BEGIN" ++ nl ++ match o with None => "NONE" | Some p => "D" ++ String.concat "" (map (fun c => " " ++ show_N c) p) end ++ nl ++ "END")%string.
Definition show_idx (l : list nat) : string :=
  ("BEGIN" ++ nl ++ "I" ++ String.concat "" (map (fun i => " " ++ show_nat i) l) ++ nl ++ "END")%string.
Definition alpha : list N := @ALPHA@.
Definition root : pystr := s2p "root".
'''


def _tie_coq(ctx, name, text, timeout=1500):
    import os
    import re
    gen_dir = os.path.join(ctx.scratch, "srctie")
    fn = os.path.join(ctx.scratch, "tie_%s.v" % name)
    with open(fn, "w") as f:
        f.write(text)
    rc, out = core.sh(["coqc", "-Q", core.THEORIES, "DD", "-Q", gen_dir, "DDGen", fn], timeout=timeout, cwd=ctx.scratch)
    m = re.search(r'"BEGIN\n(.*)\nEND"', out, re.S)
    if rc != 0 or not m:
        return None, out[-600:]
    return m.group(1).strip(), None


def tie_candidate_sequences():
    """key sequences whose rendered path goes through the generated and the hand-written parser (bounded exhaustive:
    every str key of length <= 2 over the 23-character alphabet, every non-str atom, pairs over a hostile pool)"""
    seqs = [[("k", s)] for s in all_strings(2)]
    seqs += [[("k", a)] for a in NONSTR] + [[("x", i)] for i in (0, 1, 7)]
    pool = ["a", "", "'", '"', "[", "]", ".", " ", ESC, "a.b", "a]['b", "__x", "root", 1, -1, 2.5, None, True]
    seqs += [[("k", a), ("k", b)] for a in pool for b in pool]
    seqs += [[("x", 1), ("k", a), ("k", -1)] for a in pool] + [[("k", "a"), ("k", 1.5), ("k", None), ("k", a)] for a in pool]
    return seqs


def on_source_tie_break(ctx, name, rec):
    """the equivalence proof between the model regenerated from the current source and the hand-written model no longer
    checks: look for a concrete argument on which the two differ (inside Coq), and judge it like any generated case"""
    import os
    from concurrent.futures import ThreadPoolExecutor
    logging.disable(logging.CRITICAL)
    out = {"status": rec.get("status")}
    if ctx.replay:
        out["searched"] = "nothing (a replay judges the recorded input only)"
        return out
    gen_vo = os.path.join(ctx.scratch, "srctie", "PathGen.vo")
    if not os.path.exists(gen_vo):
        out["searched"] = ("nothing inside Coq: there is no compiled generated model to compare (%s); the streams that exercise the "
                           "parser run with thorough-size budgets" % rec.get("status"))
        return out
    ctx.ensure_built(HEADER_ALL + "\nFrom DD Require Import Path.PathTie.")
    header = TIE_SEARCH_HEADER.replace("@ALPHA@", "[" + "; ".join(str(ord(c)) for c in TIE_ALPHA) + "]")
    maxlen = 7 if ctx.thorough else 6
    # A. every string "root" + w, w over the alphabet, |w| <= maxlen: sharded by the first two characters of w
    prefixes = [(a, b) for a in TIE_ALPHA for b in TIE_ALPHA]
    nsh = max(1, min(len(prefixes), 2 * core.NCPU))
    shards = [prefixes[i::nsh] for i in range(nsh)]
    jobs = [("s_short", header + "Eval vm_compute in show_res (search diff_any alpha 1 root).\n")]
    for i, sh in enumerate(shards):
        terms = "; ".join("search diff_any alpha %d (root ++ [%d; %d])" % (maxlen - 2, ord(a), ord(b)) for a, b in sh)
        jobs.append(("s_%d" % i, header + "Eval vm_compute in show_res (first_some [%s]).\n" % terms))
    # B. rendered paths of key sequences
    seqs = tie_candidate_sequences()
    for i in range(0, len(seqs), 400):
        part = seqs[i:i + 400]
        jobs.append(("k_%d" % i, header + "Definition kss : list path := [\n%s].\nEval vm_compute in show_idx (indexes_where (fun ks => diff_any (render ks)) 0 kss).\n"
                     % ";\n".join(coq_path(ks) for ks in part)))
    with ThreadPoolExecutor(max_workers=core.NCPU) as ex:
        res = list(ex.map(lambda j: _tie_coq(ctx, j[0], j[1]), jobs))
    strs, kss, errors = [], [], []
    for (jn, _t), (txt, err) in zip(jobs, res):
        if txt is None:
            errors.append("%s: %s" % (jn, err))
        elif txt.startswith("D"):
            strs.append("".join(chr(int(x)) for x in txt.split()[1:]))
        elif txt.startswith("I"):
            base = int(jn.split("_")[1])
            kss += [seqs[base + int(x)] for x in txt.split()[1:]]
    strs.sort(key=lambda p: (len(p), p))
    kss.sort(key=lambda ks: len(repr(ks)))
    out["searched"] = ("every path string 'root' + w, w over %r, |w| <= %d (%d strings), and the rendered paths of %d key sequences: generated vs "
                       "hand-written _path_to_elements (both literal_eval models, with and without root element) and stringify_element"
                       % (TIE_ALPHA, maxlen, sum(len(TIE_ALPHA) ** k for k in range(maxlen + 1)), len(seqs)))
    out["differing_path_strings"] = strs[:10]
    out["differing_key_sequences"] = [[key_json(k) for k in ks] for ks in kss[:10]]
    if errors:
        out["search_errors"] = errors[:3]
    # judged like any generated case: the strings through the parser's correspondence comparison (a mismatch between model and
    # implementation is a correspondence break), the key sequences through the direct oracle + correspondence (a round-trip failure
    # of the implementation is ctx.fail)
    n0 = (len(ctx.failures), len(ctx.breaks), len(ctx.known_seen))
    if kss:
        run_sequences(ctx, "source_tie_key_sequences", [(ks, None) for ks in kss[:25]])
    if strs:
        cases, xcases = parser_string_cases(ctx, strs[:25], label="source_tie_strings")
        ctx.coq_cases("source_tie_strings", HEADER, cases)
        ctx.coq_cases("source_tie_strings_x", HEADER_ALL, xcases)
    out["judged"] = {"new_failing_inputs": len(ctx.failures) - n0[0], "new_correspondence_breaks": len(ctx.breaks) - n0[1]}
    # an input was found and reported: the rest of the run keeps its tier's budgets
    ctx._c09_tie_found = (len(ctx.failures), len(ctx.breaks)) != n0[:2]
    return out


def run(ctx):
    import os
    logging.disable(logging.CRITICAL)
    # development only (--no-proof): C09_ONLY=stream,stream runs a selection of the streams
    only = os.environ.get("C09_ONLY", "") if getattr(ctx, "no_proof", False) else ""
    only = set(only.split(",")) if only else None

    ctx._c09_batch = {"cases": [], "counts": []}
    # the source tie of the parser is not intact and the search of on_source_tie_break found no argument on which the regenerated
    # and the hand-written model differ: the streams that exercise the parser run with their thorough-size budgets
    big = ctx.thorough or (ctx.tie_broken("pathparse") and not getattr(ctx, "_c09_tie_found", False))

    def on(name):
        if os.environ.get("C09_TIMING"):
            print("timing: %6.1fs before %s" % (ctx.elapsed(), name), file=sys.stderr)
        return only is None or name in only
    if on("witnesses"):
        witnesses(ctx)
    pool2 = list(all_strings(2))
    len3 = []
    if on("single"):
        pool2, len3 = exhaustive_single(ctx, big)
    pool = pool2 + len3[:2000]
    if on("embedded"):
        embedded(ctx, pool, 6000 if big else 1200)
    if on("multi_leaf"):
        multi_leaf(ctx, pool, 1500 if ctx.thorough else 300)
    if on("list_edits"):
        list_edits(ctx, pool, 2500 if ctx.thorough else 400)
    if on("path_calls"):
        path_calls(ctx, pool, 2000 if ctx.thorough else 110)
    if on("lru_calls"):
        lru_calls(ctx, 2000 if big else 150)
    if on("api_shapes"):
        api_shapes(ctx, pool, 1200 if big else 130)
    if on("exotic_keys"):
        exotic_keys(ctx, pool, 1000 if ctx.thorough else 130)
    if on("literal_texts"):
        literal_texts(ctx, 6000 if ctx.thorough else 450)
    if on("parser_strings_x"):
        parser_strings_x(ctx, 5000 if big else 400)
    if on("parser_strings"):
        parser_strings(ctx, 3000 if big else 600)
    if on("extract_positions"):
        extract_positions(ctx, 400 if big else 80)
    on("flush")
    flush(ctx)
    on("end")
    if only is not None:
        return

    # extension: class instances (attributes) inside the same models - beyond the property's stated domain,
    # recorded in the evidence file, never a violation (core.Ctx.extension; coq/theories/Obj)
    with ctx.extension("Obj"):
        from harness import objcommon as O
        O.stream_c09(ctx)


def replay(ctx, data):
    logging.disable(logging.CRITICAL)
    case = data.get("case", {})
    if "keys" in case and "obj" not in case and not any(k in case for k in ("path_calls", "api_shapes", "xkeys", "lru_trace")):
        ks = [key_unjson(j) for j in case["keys"]]
        exp, whys, obj1 = observe(ks, case.get("sib_seed"))
        ctx.seen(("replay", repr(ks)), nontrivial=True)
        print("replay: keys=%r obj=%r observed=%r failures=%r" % ([a for _t, a in ks], obj1, exp, whys))
        for w in split_whys(whys):
            if w:
                ctx.fail(case_dict(ks, case.get("sib_seed"), w[1], w[0]), w[1])
        if exp is not None:
            ctx.coq_cases("replay", HEADER, [("c09_case_or %s %s (%s)" % (coq_path(ks), values.to_coq(obj1), core.sx(exp)), exp, case)])
    elif "path_calls" in case:
        pc = case["path_calls"]
        if pc["kind"] == "multi":
            inp = [[key_unjson(j) for j in l] for l in pc["locs"]]
        else:
            inp = ([key_unjson(j) for j in pc["prefix"]], pc["a"], pc["b"], pc.get("sib_seed"))
        out, clause, why = observe_path_calls(pc["kind"], inp, pc["seed"])
        ctx.seen(("replay", repr(pc)), nontrivial=True)
        print("replay: path_calls kind=%s input=%r seed=%d traces=%r failure=%r" % (pc["kind"], inp, pc["seed"], [(l, o) for l, o, _x in out], why))
        if why:
            ctx.fail(pc_case(pc["kind"], inp, pc["seed"], clause, why), why)
        _a, cs, _c, _w = _pc_task((pc["kind"], inp, pc["seed"]))
        ctx.coq_cases("replay", HEADER2, [(e, o, case) for e, o in cs])
    elif "lru_trace" in case:
        ops = lru_unjson(case["lru_trace"])
        obs, why = run_lru_ops(ops)
        ctx.seen(("replay", repr(ops)), nontrivial=True)
        print("replay: lru trace=%r observed=%r failure=%r" % (ops, obs, why))
        if why:
            ctx.fail(lru_case(ops, why), why)
        if obs is not None:
            ctx.coq_cases("replay", HEADER2, [("c09_lru_content_or [%s] (%s)" % ("; ".join(coq_lop(o) for o in ops), core.sx(obs[0])), obs[0], case)])
    elif "api_shapes" in case:
        a = case["api_shapes"]
        ks = [key_unjson(j) for j in a["keys"]]
        cs, clause, why = observe_shapes(ks, a["seed"])
        ctx.seen(("replay", repr(ks)), nontrivial=True)
        print("replay: api_shapes keys=%r failure=%r" % ([x for _t, x in ks], why))
        if why:
            ctx.fail(shape_case(ks, a["seed"], clause, why), why)
        ctx.coq_cases("replay", HEADER3, [(e, o, case) for e, o in cs])
    elif "xkeys" in case:
        ks = [xkey_unjson(j) for j in case["xkeys"]]
        exp, whys = observe_x(ks)
        ctx.seen(("replay", repr(ks)[:500]), nontrivial=True)
        print("replay: xkeys=%s observed=%s failures=%r" % (safe_repr([a for _t, a in ks])[:300], repr(exp)[:300], whys))
        for w in split_whys(whys):
            if w:
                ctx.fail(xcase_dict(ks, w[1], w[0]), w[1])
        if exp is not None and not any(isinstance(a, int) and not isinstance(a, bool) and abs(a) >= 10 ** 1000 for _t, a in ks):
            ok = all(xkey_ok(a) for _t, a in ks)
            ctx.coq_cases("replay", HEADER4, [("c09_xcase_g [%s]" % "; ".join(coq_xkey(k) for k in ks), [ok, exp], case)])
    elif "list_edit" in case:
        le = case["list_edit"]
        prefix = [key_unjson(j) for j in le["prefix"]]
        cs, why, nent = observe_list_edit(prefix, le["a"], le["b"], le.get("sib_seed"))
        ctx.seen(("replay", repr(le)), nontrivial=True)
        print("replay: prefix=%r a=%r b=%r entries=%d failure=%r" % ([x for _t, x in prefix], le["a"], le["b"], nent, why))
        if why:
            ctx.fail(list_case(prefix, le["a"], le["b"], le.get("sib_seed"), why), why)
        ctx.coq_cases("replay", HEADER, [("c09_extract_case %s %s" % (values.to_coq(o), coq_path(ks)), exp, case) for o, ks, exp in cs])
    elif "locations" in case:
        locs = [[key_unjson(j) for j in l] for l in case["locations"]]
        exp, why = observe_multi(locs, bool(case.get("shared_children")))
        ctx.seen(("replay", repr(locs)), nontrivial=True)
        print("replay: locations=%r observed=%r failure=%r" % ([[a for _t, a in l] for l in locs], exp, why))
        if why:
            ctx.fail(multi_case(locs, why, bool(case.get("shared_children"))), why)
        if exp is not None:
            ctx.coq_cases("replay", HEADER, [("c09_multi [%s]" % "; ".join(coq_path(l) for l in locs), exp, case)])
    elif "obj" in case and "keys" in case:
        import ast
        from deepdiff import extract
        from deepdiff.path import stringify_path
        obj = ast.literal_eval(case["obj"])
        ks = [key_unjson(j) for j in case["keys"]]
        pos = [a for _t, a in ks]
        p = stringify_path(pos, root_element=("root", "GET"))
        cur = values.get_at(obj, pos)
        ctx.seen(("replay", repr(ks)), nontrivial=True)
        try:
            got = extract(obj, p)
            good = got is cur or (type(got) is type(cur) and values.typed_eq(got, cur))
            ex = ["Some", canon_val(got)]
        except Exception as e:
            got, good, ex = "%s: %s" % (type(e).__name__, e), False, None
        print("replay: obj=%r path=%r extract=%r expected=%r" % (obj, p, got, cur))
        if not good:
            why = "extract(obj, %r) does not return the object at %r" % (p, pos)
            ctx.fail(dict(case, failure=why, clause="extract"), why)
        ctx.coq_cases("replay", HEADER, [("c09_extract_case %s %s" % (values.to_coq(obj), coq_path(ks)),
                                          [p, ex, ["Some", values.canon(cur)]], case)])
    else:
        run(ctx)

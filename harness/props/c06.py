"""C06 - DeepHash: equal content hashes equally.

proof:           coq/theories/Hash/{HashModel,Equiv,HashProofs*}.v, Properties/C06.v
correspondence:  the real DeepHash run with hasher = hex-of-utf8 (an injective,
                 separator-free hasher that is also defined in Coq: `hexhash`)
                 against `hash_memo hexhash`: the root hash STRING and every
                 entry of the `hashes` table, in the four (ignore_repetition,
                 ignore_iterable_order) combinations, on fresh tables, on
                 tables shared by successive calls (= pre-seeded), with the
                 other modelled options on a smaller sample; plus the equality
                 pattern of the default SHA-256 hashes over a pool of values.
direct oracle:   hash unchanged by deep copy / dict key order / set rebuild /
                 list+tuple shuffles (order-insensitive modes) / sharing the
                 table / 8 PYTHONHASHSEED values in subprocesses.

This module also hosts the helpers shared with c07.py.
"""
import copy
import json
import os
import random
import subprocess
import sys

from harness import core, values

THEOREM_FILE = "Properties/C06.v"
COQCHK = ["Properties.C06"]
RULE = ("values: tree-shaped nests of dict/list/tuple/set/frozenset over None/bool/int/half-integer float/str/ASCII bytes, depth <= 3-4, "
        "width <= 4, a third of them with ==-aliasing atoms (1, 1.0, True ...); a case = (value or chain of values, option record); "
        "non-trivial = the value contains at least one container; distinct = distinct (canonical value, options, check kind); plus values in which "
        "one object occurs at several positions (templates + values.share), one table outliving 50 runs over temporaries, in-place edits between runs")
TRUSTED = [
    "no hypothesis on the hasher is used by the C06 theorems (H is an arbitrary function); the refutation witnesses are evaluated with the concrete hex hasher",
    "bytes are modelled for ASCII content only (utf-8 decoding = identity); floats are half-integers with positional repr",
    "cyclic / shared mutable containers, custom objects, numpy, Decimal, datetime, exclude/include paths, custom operators are outside the model",
]
ASSUMPTIONS = ["acyclic inputs; a value in which one object occurs at several positions is compared with the model of its unfolded tree", "no nan/inf/-0.0"]

HEADER = ("From DD Require Import Base.PyStr Base.Value Hash.HashModel Hash.HashShow.\n"
          "Local Open Scope Z_scope.")

# (ignore_repetition, ignore_iterable_order, ignore_private_variables, ignore_string_case,
#  ignore_string_type_changes, ignore_numeric_type_changes, significant_digits)
SET_MODE = (True, True, True, False, False, False, None)
MULTI_MODE = (False, True, True, False, False, False, None)
ORDERED_MODE = (False, False, True, False, False, False, None)
DEDUP_ORDERED = (True, False, True, False, False, False, None)   # not one of the property's modes
MODES3 = [SET_MODE, MULTI_MODE, ORDERED_MODE]
MODES4 = MODES3 + [DEDUP_ORDERED]
MODE_NAME = {SET_MODE: "set", MULTI_MODE: "multiset", ORDERED_MODE: "ordered", DEDUP_ORDERED: "dedup-ordered"}


def kw(o):
    return dict(ignore_repetition=o[0], ignore_iterable_order=o[1], ignore_private_variables=o[2],
                ignore_string_case=o[3], ignore_string_type_changes=o[4], ignore_numeric_type_changes=o[5],
                significant_digits=o[6])


def coq_opts(o):
    b = core.coq_bool
    sd = "None" if o[6] is None else "(Some %d%%nat)" % o[6]
    return "(mk_hopts %s %s %s %s %s %s %s)" % (b(o[0]), b(o[1]), b(o[2]), b(o[3]), b(o[4]), b(o[5]), sd)


def hexhasher(s):
    if isinstance(s, bytes):      # never happens for the modelled inputs; keep the hasher total
        return s.hex()
    return s.encode("utf-8").hex()


def unhex(h):
    try:
        return bytes.fromhex(h).decode("utf-8")
    except Exception:
        return h


# ---------------------------------------------------------------------------
# running the implementation
# ---------------------------------------------------------------------------

def _collect_ids(v, out):
    from deepdiff.helper import get_id
    if isinstance(v, (list, tuple, dict, set, frozenset)):
        out[get_id(v)] = v
    if isinstance(v, (list, tuple)):
        for x in v:
            _collect_ids(x, out)
    elif isinstance(v, dict):
        for x in v.values():
            _collect_ids(x, out)


def table_of(hashes, roots):
    """The `hashes` table in insertion order, canonicalised:
    [[["K"|"I", canon(key object)], hash], ...]."""
    from deepdiff.deephash import BoolObj, UNPROCESSED_KEY
    from deepdiff.helper import ID_PREFIX
    ids = {}
    for r in roots:
        _collect_ids(r, ids)
    out = []
    for k, val in hashes.items():
        if k is UNPROCESSED_KEY:
            continue
        h = val[0]
        if isinstance(k, BoolObj):
            out.append([["K", values.canon(k is BoolObj.TRUE)], h])
        elif isinstance(k, str) and k.startswith(ID_PREFIX) and k in ids:
            out.append([["I", values.canon(ids[k])], h])
        else:
            out.append([["K", values.canon(k)], h])
    return out


def impl_hash(v, o, hasher=None, hashes=None):
    from deepdiff import DeepHash
    k = kw(o)
    if hasher is not None:
        k["hasher"] = hasher
    if hashes is not None:
        k["hashes"] = hashes
    dh = DeepHash(v, **k)
    return dh[v], dh


def impl_chain(vs, o, pass_object):
    """successive DeepHash calls sharing one table; returns (roots, table)."""
    from deepdiff import DeepHash
    tbl = None
    roots = []
    dh = None
    for v in vs:
        k = kw(o)
        k["hasher"] = hexhasher
        if dh is not None:
            k["hashes"] = dh if pass_object else dh.hashes
        dh = DeepHash(v, **k)
        roots.append(dh[v])
    tbl = table_of(dh.hashes, vs)
    return roots, tbl


# ---------------------------------------------------------------------------
# generators
# ---------------------------------------------------------------------------

STRS = values.STR_POOL + ["NONE", "int:1", "bool:true", "list:", "a,b", "x|2", "{", "}", ";", ":", "__p", "__", "_a",
                          "é", "€", "\U0001d1c0", "AbC", "str:a", "bytes:a"]


def gen(rng, depth=3, width=4, alias=False, kinds="LTDSFA"):
    return values.gen_value(rng, depth, width, alias=alias, strings=STRS, kinds=kinds)


def has_container(v):
    return isinstance(v, (list, tuple, dict, set, frozenset))


def contains_big_set(v):
    if isinstance(v, (set, frozenset)):
        return len(v) >= 2
    if isinstance(v, (list, tuple)):
        return any(contains_big_set(x) for x in v)
    if isinstance(v, dict):
        return any(contains_big_set(x) for x in v.values())
    return False


def in_model_range(v, small_ints=False):
    """floats |x| < 1e16, ASCII bytes; small_ints: |int| < 2**53 (number formatting options go through float)"""
    ok = [True]

    def walk(x):
        if isinstance(x, (list, tuple, set, frozenset)):
            for y in x:
                walk(y)
        elif isinstance(x, dict):
            for k, y in x.items():
                walk(k)
                walk(y)
        elif isinstance(x, float):
            if not (abs(x) < 1e16) or x * 2 != int(x * 2):
                ok[0] = False
        elif isinstance(x, bytes):
            if any(c >= 128 for c in x):
                ok[0] = False
        elif small_ints and isinstance(x, int) and abs(x) >= 2 ** 53:
            ok[0] = False
    walk(v)
    return ok[0]


# rebuilders used by the direct oracle ---------------------------------------

def rebuild(v, rng, dict_order=False, set_order=False, seq_order=False):
    """A structurally equal fresh copy with dict insertion order / set insertion
    order / list+tuple item order permuted at every level."""
    if isinstance(v, list) or isinstance(v, tuple):
        items = [rebuild(x, rng, dict_order, set_order, seq_order) for x in v]
        if seq_order:
            rng.shuffle(items)
        return items if isinstance(v, list) else tuple(items)
    if isinstance(v, dict):
        items = [(k, rebuild(x, rng, dict_order, set_order, seq_order)) for k, x in v.items()]
        if dict_order:
            rng.shuffle(items)
        return dict(items)
    if isinstance(v, (set, frozenset)):
        items = list(v)
        if set_order:
            items.reverse()
            s = set()
            for x in items:
                s.add(x)
            return s if isinstance(v, set) else frozenset(s)
        return set(items) if isinstance(v, set) else frozenset(items)
    return v


import datetime as _dt
import re as _re

SAFE_NS = {"frozenset": frozenset, "set": set, "True": True, "False": False, "None": None,
           # out-of-model leaves used by the oracle-only streams (objects with neither __dict__ nor __slots__)
           "object": object, "slice": slice, "re_compile": _re.compile, "timezone": _dt.timezone, "timedelta": _dt.timedelta,
           "Ellipsis": Ellipsis, "complex": complex}


def from_repr(s):
    g = {"__builtins__": {}}
    g.update(SAFE_NS)          # in the globals: lambdas (used to rebuild shared sub-objects) resolve names there
    return eval(s, g)


# ---------------------------------------------------------------------------
# direct oracle
# ---------------------------------------------------------------------------

_LEAF = (int, str, bytes, bool, type(None))   # CPython restores the identity of these by itself (small ints, None, interned str)


def _children(x):
    if isinstance(x, (list, tuple, set, frozenset)):
        return list(x)
    if isinstance(x, dict):
        out = []
        for k, y in x.items():
            out.append(k)
            out.append(y)
        return out
    return []


def expr_shared(v):
    """A Python expression that rebuilds v INCLUDING its sharing: every object (container or float) that occurs at
    more than one position by identity is bound once by a lambda.  For tree-shaped v this is repr(v)."""
    count, order = {}, []

    def walk(x):
        if isinstance(x, _LEAF):
            return
        count[id(x)] = count.get(id(x), 0) + 1
        if count[id(x)] > 1:
            return
        for y in _children(x):
            walk(y)
        order.append(x)
    walk(v)
    shared = [x for x in order if count[id(x)] > 1]
    names = {id(x): "s%d" % k for k, x in enumerate(shared)}

    def emit(x, top=False):
        if not top and id(x) in names:
            return names[id(x)]
        if isinstance(x, list):
            return "[" + ", ".join(emit(y) for y in x) + "]"
        if isinstance(x, tuple):
            return "(" + "".join(emit(y) + ", " for y in x) + ")"
        if isinstance(x, dict):
            return "{" + ", ".join("%s: %s" % (emit(k), emit(y)) for k, y in x.items()) + "}"
        if isinstance(x, frozenset):
            return "frozenset([" + ", ".join(emit(y) for y in x) + "])"
        if isinstance(x, set):
            return "set([" + ", ".join(emit(y) for y in x) + "])"
        return repr(x)
    body = emit(v, top=True)
    for x in reversed(shared):
        body = "(lambda %s: %s)(%s)" % (names[id(x)], body, emit(x, top=True))
    return body


def has_sharing(v):
    seen = set()

    def walk(x):
        if isinstance(x, _LEAF) or isinstance(x, float):
            return False
        if id(x) in seen:
            return True
        seen.add(id(x))
        return any(walk(y) for y in _children(x))
    return walk(v)


def rebuild_keep(v, rng, memo=None):
    """a copy with every dict's insertion order permuted that PRESERVES the sharing structure of v"""
    memo = {} if memo is None else memo
    if isinstance(v, _LEAF) or isinstance(v, float):
        return v
    if id(v) in memo:
        return memo[id(v)]
    if isinstance(v, list):
        r = [rebuild_keep(x, rng, memo) for x in v]
    elif isinstance(v, tuple):
        r = tuple(rebuild_keep(x, rng, memo) for x in v)
    elif isinstance(v, dict):
        items = [(k, rebuild_keep(x, rng, memo)) for k, x in v.items()]
        items.reverse()
        if rng.random() < 0.5:
            rng.shuffle(items)
        r = dict(items)
    else:
        r = type(v)(v)
    memo[id(v)] = r
    return r


def set_orders(v, out=None):
    """iteration orders of all sets inside v, as a sorted list (position-independent)"""
    top = out is None
    out = [] if top else out
    if isinstance(v, (set, frozenset)):
        out.append(repr(list(v)))
    elif isinstance(v, (list, tuple)):
        for x in v:
            set_orders(x, out)
    elif isinstance(v, dict):
        for x in v.values():
            set_orders(x, out)
    return sorted(out) if top else out


def _case(kind, o, v, w=None, extra=None):
    c = {"kind": kind, "opts": list(o), "value": expr_shared(v)}
    if w is not None:
        c["other"] = expr_shared(w)
        c["set_iteration_orders_differ"] = set_orders(v) != set_orders(w)
    if extra:
        c.update(extra)
    return c


def oracle_value(ctx, v, o, rng, hasher=None):
    """C06 on the implementation for one value and one option record."""
    order_insensitive = o[1]
    try:
        h0, dh0 = impl_hash(v, o, hasher)
    except Exception as e:
        ctx.fail(_case("raise", o, v, extra={"error": repr(e)}), "DeepHash raised %r" % (e,))
        return
    checks = [("copy", copy.deepcopy(v)),
              ("dict_order", rebuild(v, rng, dict_order=True)),
              ("set_order", rebuild(v, rng, set_order=True))]
    if order_insensitive:
        checks.append(("seq_order", rebuild(v, rng, seq_order=True, dict_order=True)))
    for kind, w in checks:
        h1, _ = impl_hash(w, o, hasher)
        ctx.seen((kind, o, expr_shared(v), expr_shared(w)), nontrivial=has_container(v))
        ctx.count("oracle:" + kind)
        if h1 != h0:
            ctx.fail(_case(kind, o, v, w), "hash changed by %s (%s mode): %r vs %r" % (kind, MODE_NAME.get(o, "opts"), v, w))
    # fresh vs again on the same (now populated) table
    h2, _ = impl_hash(v, o, hasher, hashes=dh0)
    if h2 != h0:
        ctx.fail(_case("rehash_same_table", o, v), "hash changed when re-hashing with its own table")


def oracle_shared(ctx, v, w, o, hasher=None):
    """sharing / pre-seeding: hash of v computed after w on w's table == on a fresh table"""
    h0, _ = impl_hash(v, o, hasher)
    _, dhw = impl_hash(w, o, hasher)
    h1, _ = impl_hash(v, o, hasher, hashes=dhw)
    _, dhw2 = impl_hash(w, o, hasher)
    h2, _ = impl_hash(v, o, hasher, hashes=dhw2.hashes)
    ctx.seen(("shared", o, expr_shared(v), expr_shared(w)), nontrivial=has_container(v) or has_container(w))
    ctx.count("oracle:shared_table")
    if h1 != h0 or h2 != h0:
        ctx.fail(_case("shared_table", o, v, w), "hash of %r differs between a fresh table and the table left by hashing %r" % (v, w))


# ---- option sweeps: keys that collapse under a normalising option ----------------

def _opt(**k):
    o = list(SET_MODE)
    names = ["ignore_repetition", "ignore_iterable_order", "ignore_private_variables", "ignore_string_case",
             "ignore_string_type_changes", "ignore_numeric_type_changes", "significant_digits"]
    for n, v in k.items():
        o[names.index(n)] = v
    return tuple(o)


KEY_OPTS = [_opt(ignore_string_type_changes=True), _opt(ignore_string_case=True),
            _opt(ignore_string_case=True, ignore_string_type_changes=True), _opt(significant_digits=1),
            _opt(significant_digits=0), _opt(significant_digits=2), _opt(significant_digits=1, ignore_repetition=False),
            _opt(ignore_string_type_changes=True, ignore_repetition=False, ignore_iterable_order=False),
            _opt(significant_digits=1, ignore_repetition=False, ignore_iterable_order=False)]
KEY_FAMILY = ["a", b"a", "A", b"A", "Key", "key", b"key", "KEY", 1.01, 1.02, 1.04, 1.25, 2.345, 2.5, 2.54, 7.5, 3]
OPT_FIXED = [
    {'a': 1, b'a': 2}, {'x': [{'a': 1, b'a': 2}]}, {'Key': 'v1', 'key': 'v2', 'z': 0}, {1.01: 'a', 1.02: 'b'},
    [{1.25: 'x'}, 1.25], ({'k': {2.345: None}}, [2.345], 'z'), {1.25: 'x'}, [1.25, 2.5], {1.25: 1.25, 'k': [1.25]},
    {'A': {'a': 1, 'A': 2}, 'a': {b'a': 3}}, {2.5: [2.5, 2.54], 2.54: 2.5}, [{1.01: 1.02}, {1.02: 1.01}, 1.01],
]


def gen_key_value(rng, depth=2):
    if depth <= 0 or rng.random() < 0.3:
        return rng.choice(KEY_FAMILY + [None, "v1", "v2", 0])
    if rng.random() < 0.55:
        d = {}
        for _ in range(rng.randint(1, 4)):
            d[rng.choice(KEY_FAMILY)] = gen_key_value(rng, depth - 1)
        return d
    return [gen_key_value(rng, depth - 1) for _ in range(rng.randint(0, 3))]


def oracle_options(ctx, rng, n):
    """C06 under the key-normalising options: dicts whose keys collapse to one key hash ('a'/b'a', 'Key'/'key',
    1.01/1.02 with significant_digits=1), the same float as key and as value - built in different orders, permuted,
    and hashed on shared tables in both call orders"""
    vals = list(OPT_FIXED) + [gen_key_value(rng, 3) for _ in range(n)]
    vals = [v for v in vals if has_container(v)]
    for v in vals:
        for o in KEY_OPTS:
            MODE_NAME.setdefault(o, "options")
            ctx.count("oracle:option_sweep")
            oracle_value(ctx, v, o, rng)
    for i in range(len(vals)):
        v, w = copy.deepcopy(vals[i]), copy.deepcopy(rng.choice(vals))
        o = rng.choice(KEY_OPTS)
        oracle_shared(ctx, v, w, o)
        oracle_shared(ctx, w, v, o)


# ---- out-of-model leaves: objects with neither __dict__ nor __slots__ -------------

OPAQUE_EXPRS = [
    "(lambda m: {'name': 'x', 'default': m, 'rows': [(1, m), (2, None)]})(object())",
    "object()", "[object(), 1]", "{'s': object(), 't': object()}",
    "[re_compile('a+b'), 'x']", "{'pat': re_compile('[0-9]+'), 'n': 1}",
    "[slice(1, 5, 2), slice(None)]", "{'sl': slice(0, 3), 'v': [1, 2]}",
    "[timezone(timedelta(hours=2)), 'z']", "{'tz': timezone(timedelta(0)), 'k': (1, 2)}",
    "[Ellipsis, complex(1, 2), timedelta(seconds=5)]",
]


def oracle_opaque(ctx):
    """deep copy clause on values holding objects that have neither __dict__ nor __slots__ (object() sentinels,
    re.Pattern, slice, datetime.timezone): oracle only, such leaves are outside the model"""
    for e in OPAQUE_EXPRS:
        for o in MODES3:
            check_opaque(ctx, e, o)


def check_opaque(ctx, e, o):
    v = from_repr(e)
    c = copy.deepcopy(v)
    w = from_repr(e)                       # built again from scratch: other addresses
    try:
        h0, h1, h2 = impl_hash(v, o)[0], impl_hash(c, o)[0], impl_hash(w, o)[0]
    except Exception as ex:
        ctx.fail({"kind": "raise", "opts": list(o), "value": e, "error": repr(ex)}, "DeepHash raised %r on %s" % (ex, e))
        return
    ctx.seen(("opaque", o, e), nontrivial=True)
    ctx.count("oracle:copy_opaque")
    if h1 != h0 or h2 != h0:
        ctx.fail({"kind": "copy_opaque", "opts": list(o), "value": e},
                 "hash changed by deep copy / rebuilding of a value holding an object without __dict__ and __slots__: %s" % e)


# ---- repeated sub-objects: one object at several positions ------------------

SHARE_TEMPLATES = [
    "(lambda s: {'a': s, 'b': s, 'n': 0})(%s)",
    "(lambda s: {'first': s, 'later': {'deep': [s, 'z']}})(%s)",
    "(lambda s: [{'k1': s, 'k2': [s]}, 'tail'])(%s)",
    "(lambda s: [s, {'k': s}])(%s)",
    "(lambda s: [s, s, (s,)])(%s)",
    "(lambda s: {'a': {'b': s}, 'c': {'d': s}})(%s)",
    "(lambda s: {'a': s, 'b': [[s]]})(%s)",
    "(lambda s: {'a': 1, 'b': s, 'c': {'d': s, 'e': [s, 2]}})(%s)",
    "(lambda s: {'x': (s, 1), 'y': s, 'z': [s]})(%s)",
]
SHARED_OBJS = ["[1, 2]", "{'p': 'q'}", "(3, 'x')", "set([4, 5])", "frozenset([6])", "[]", "[[1], {'k': [2]}]", "2.5",
               "(1, [2])", "{'p': [1, {'q': 2}]}", "{}"]


def sharing_values(rng, n_random):
    out = [from_repr(t % x) for t in SHARE_TEMPLATES for x in SHARED_OBJS]
    tries = 0
    while n_random > 0 and tries < 20 * n_random:
        tries += 1
        v = values.gen_value(rng, 3, 4, alias=False, strings=["a", "b", "k1", "x y"], kinds="LDLDT")
        w, ok = values.share(rng, v)
        if ok and has_sharing(w):
            out.append(w)
            n_random -= 1
    return out


def oracle_sharing(ctx, vals, rng):
    """a value in which one object occurs at several positions hashes like the unshared tree with the same content,
    whatever the dict insertion orders; the model (which sees the unfolded tree) gives the same string"""
    cases = []
    for v in vals:
        ctx.count("sharing:values")
        tree = rebuild(v, rng)                     # fresh containers everywhere: no sharing
        for o in MODES3:
            h0 = impl_hash(v, o)[0]
            h1 = impl_hash(tree, o)[0]
            w = rebuild_keep(v, rng)
            h2 = impl_hash(w, o)[0]
            ctx.seen(("sharing", o, expr_shared(v)), nontrivial=True)
            if h1 != h0:
                ctx.fail(_case("unshared_copy", o, v, tree),
                         "a value with a repeated sub-object hashes differently from the equal value without sharing: %s" % expr_shared(v))
            if h2 != h0:
                ctx.fail(_case("shared_dict_order", o, v, w),
                         "dict insertion order changes the hash of a value with a repeated sub-object: %s" % expr_shared(v))
            cases.append(("sx_str (deephash hexhash %s %s)" % (coq_opts(o), values.to_coq(v)), impl_hash(v, o, hexhasher)[0],
                          {"value": expr_shared(v), "opts": list(o), "check": "shared value == model of the unfolded tree"}))
    ctx.coq_cases("hash_sharing", HEADER, cases, shard=80, label="exact_root_repeated_subobjects")


# ---- one table outliving many runs ---------------------------------------------

TMP_STRS = ["a", "b", "c", "k1", "k2", "p", "q", "x y"]


def gen_tmp(r, depth, sets):
    """alias-free by construction (ints and strs only), so no K2 noise; fresh containers"""
    if depth <= 0 or r.random() < 0.2:
        return r.randint(0, 30) if r.random() < 0.6 else r.choice(TMP_STRS)
    k = r.choice("LLDDTS" if sets else "LLDDT")
    n = r.randint(0, 3)
    if k == "L":
        return [gen_tmp(r, depth - 1, sets) for _ in range(n)]
    if k == "T":
        return tuple(gen_tmp(r, depth - 1, sets) for _ in range(n))
    if k == "D":
        return {kk: gen_tmp(r, depth - 1, sets) for kk in r.sample(TMP_STRS + [1, 2, 3], n)}
    return set(r.sample(TMP_STRS + [1, 2, 3, 4], n))


def long_lived_stream(seed, o, n, stop_at=None):
    """one table T outlives n runs over freshly built temporary values; yields (index, value expr, shared hash, fresh hash)"""
    from deepdiff import DeepHash
    r = random.Random(seed)
    T = {}
    out = []
    for i in range(n):
        v = gen_tmp(r, 3, o[1])
        if not has_container(v):
            v = [v, [v]]
        k = kw(o)
        h1 = DeepHash(v, hashes=T, **k)[v]
        h0 = DeepHash(v, **k)[v]
        out.append((i, expr_shared(v) if h1 != h0 else None, h1, h0))
        del v
        if stop_at is not None and i >= stop_at:
            break
    return out


def oracle_long_lived(ctx, n_tables, n_runs):
    for t in range(n_tables):
        seed = ctx.rng.randrange(1 << 30)
        o = MODES3[t % 3]
        for (i, expr, h1, h0) in long_lived_stream(seed, o, n_runs):
            ctx.seen(("long_lived", seed, i), nontrivial=True)
            ctx.count("oracle:long_lived_table_runs")
            if h1 != h0:
                ctx.fail({"kind": "long_lived_table", "opts": list(o), "stream_seed": seed, "index": i, "runs": n_runs, "value": expr},
                         "run %d on a table that outlived earlier (dead) values: hash differs from the fresh-table hash for %s" % (i, expr))
                break


def _mutable_positions(v):
    return [p for p in values.positions(v) if isinstance(values.get_at(v, p), (list, dict, set))]


def apply_edit(v, edit):
    path, op, arg = edit
    c = values.get_at(v, tuple(path))
    if op == "append":
        c.append(arg)
    elif op == "pop":
        c.pop()
    elif op == "setitem":
        c[arg[0]] = arg[1]
    elif op == "delitem":
        del c[arg]
    elif op == "add":
        c.add(arg)
    elif op == "clear":
        c.clear()


def gen_inplace_edit(r, v):
    pos = _mutable_positions(v)
    if not pos:
        return None
    p = r.choice(pos)
    c = values.get_at(v, p)
    if isinstance(c, list):
        op = r.choice(["append", "append", "pop", "clear"]) if c else "append"
        return (list(p), op, r.choice([99, "new", [7]]) if op == "append" else None)
    if isinstance(c, dict):
        if c and r.random() < 0.3:
            return (list(p), "delitem", r.choice(list(c)))
        return (list(p), "setitem", ["extra%d" % r.randint(0, 3), r.choice([None, 5, "v", [1]])])
    return (list(p), "add", r.choice([77, "new"]))


def inplace_check(ctx, v, edit, o):
    """hash into T, edit a contained list/dict/set IN PLACE, hash again with hashes=T: must equal the fresh-table hash"""
    from deepdiff import DeepHash
    k = kw(o)
    before = expr_shared(v)
    T = {}
    first = DeepHash(v, hashes=T, **k)[v]
    apply_edit(v, edit)
    again = DeepHash(v, hashes=T, **k)[v]
    fresh = DeepHash(v, **k)[v]
    ctx.seen(("inplace", o, before, repr(edit)), nontrivial=True)
    ctx.count("oracle:inplace_edit_rehash")
    if again != fresh:
        ctx.fail({"kind": "inplace_edit", "opts": list(o), "value": before, "edit": list(edit), "after": expr_shared(v)},
                 "after an in-place edit %r the shared table returns a stale hash for %s" % (edit, expr_shared(v)))


def oracle_inplace(ctx, n):
    r = random.Random(ctx.rng.randrange(1 << 30))
    fixed = [({'name': 'n', 'rows': [[1, 2], ['a', 'b']], 'tags': ('t', 'u')}, (['rows', 1], "append", 'c')),
             ({'name': 'n', 'rows': [[1, 2], ['a', 'b']]}, ([], "setitem", ['extra', None])),
             ([1, ({'k': [2]}, 3)], ([1, 0, 'k'], "append", 9)),
             ([{1, 2}, 'x'], ([0], "add", 3))]
    for v, e in fixed:
        for o in MODES3[:2]:
            inplace_check(ctx, copy.deepcopy(v), e, o)
    for i in range(n):
        o = MODES3[i % 3]
        v = gen_tmp(r, 3, o[1])
        if not has_container(v):
            continue
        e = gen_inplace_edit(r, v)
        if e is not None:
            inplace_check(ctx, v, e, o)


# ---- PYTHONHASHSEED ---------------------------------------------------------

def seed_worker():
    """subprocess side: stdin = JSON {reprs: [...], opts: [...]}; stdout = JSON hashes"""
    sys.path.insert(0, core.REPO)
    data = json.load(sys.stdin)
    from deepdiff import DeepHash
    # shift the allocation pattern so that memory addresses differ between the worker processes
    keep = [object() for _ in range((int(os.environ.get("PYTHONHASHSEED", "0") or 0) % 13) * 501)]
    out = []
    for r in data["reprs"]:
        v = from_repr(r)
        row = []
        for o in data["opts"]:
            o = tuple(o)
            try:
                row.append(DeepHash(v, **kw(o))[v])
            except Exception as e:
                row.append("raise:" + repr(e))
        order = repr(v) if "object" not in r else ""
        out.append([row, order])
    json.dump(out, sys.stdout)


def oracle_seeds(ctx, vals, seeds, exprs=()):
    """vals: values (sent as repr); exprs: expressions evaluated in the worker (values that have no evaluable repr)"""
    reprs = [repr(v) for v in vals] + list(exprs)
    vals = list(vals) + [None] * len(exprs)
    payload = json.dumps({"reprs": reprs, "opts": [list(o) for o in MODES3]})
    procs = []
    for s in seeds:
        env = dict(os.environ)
        env["PYTHONHASHSEED"] = str(s)
        env["PYTHONPATH"] = core.REPO + os.pathsep + core.VERIF
        p = subprocess.Popen([sys.executable, "-c",
                              "import sys; sys.path.insert(0, %r); from harness.props.c06 import seed_worker; seed_worker()" % core.VERIF],
                             stdin=subprocess.PIPE, stdout=subprocess.PIPE, stderr=subprocess.PIPE, env=env)
        procs.append((s, p))
        p.stdin.write(payload.encode())
        p.stdin.close()
    results = {}
    for s, p in procs:
        out = p.stdout.read()
        p.wait(timeout=300)
        try:
            results[s] = json.loads(out.decode())
        except Exception:
            ctx.break_("harness", {"error": "seed worker %s failed: %s" % (s, p.stderr.read().decode()[-800:])})
            return
    base = results[seeds[0]]
    reordered = 0
    for i, r in enumerate(reprs):
        if any(results[s][i][1] != base[i][1] for s in seeds):
            reordered += 1
        for j, o in enumerate(MODES3):
            hs = {results[s][i][0][j] for s in seeds}
            ctx.seen(("seed", o, r), nontrivial=True)
            if len(hs) > 1:
                cs = (_case("hash_seed", o, vals[i]) if vals[i] is not None else {"kind": "hash_seed", "opts": list(o), "value": r})
                cs.update({"seeds": list(seeds), "set_iteration_orders_differ": vals[i] is not None and any(results[s][i][1] != base[i][1] for s in seeds)})
                ctx.fail(cs,
                         "hash depends on PYTHONHASHSEED (%s mode): %s" % (MODE_NAME[o], r))
    ctx.count("oracle:hash_seed_values", len(reprs))
    ctx.note("hash_seed", {"seeds": list(seeds), "values": len(reprs), "values_whose_iteration_order_differs_between_seeds": reordered})


# ---------------------------------------------------------------------------
# known findings
# ---------------------------------------------------------------------------

class _BoolKey:
    """stands for deephash.BoolObj: equal only to the same bool, never to a number"""

    def __init__(self, b):
        self.b = b

    def __eq__(self, other):
        return isinstance(other, _BoolKey) and other.b == self.b

    def __hash__(self):
        return hash(("_BoolKey", self.b))


def memo_alias(*vals):
    """True when two objects that DeepHash would use as keys of its table are == but not identical in type/content:
    numbers of different types, hashable tuples / frozensets containing such (bools at top level are BoolObj: no alias)"""
    seen = {}

    def key(x):
        k = _BoolKey(x) if isinstance(x, bool) else x
        try:
            hash(k)
        except TypeError:
            return
        seen.setdefault(k, set()).add(repr(values.canon_sorted(x)))

    def walk(x):
        key(x)
        if isinstance(x, (list, tuple, set, frozenset)):
            for y in x:
                walk(y)
        elif isinstance(x, dict):
            for k, y in x.items():
                walk(k)
                walk(y)
    for v in vals:
        walk(v)
    return any(len(c) > 1 for c in seen.values())


def _vals_of_case(case):
    vs = [from_repr(case["value"])]
    if case.get("other"):
        vs.append(from_repr(case["other"]))
    return vs


def _k2(case):
    """memo aliasing: the failing check involves the table (always) and two atoms that are == but of different type co-occur"""
    if case.get("kind") not in ("dict_order", "set_order", "seq_order", "shared_table", "hash_seed", "copy", "unshared_copy", "shared_dict_order"):
        return False
    return memo_alias(*_vals_of_case(case))


def _k3(case):
    """ordered mode leaks set iteration order: ignore_iterable_order=False and a set/frozenset with >= 2 members"""
    if case.get("kind") not in ("set_order", "hash_seed", "copy", "dict_order", "shared_table", "unshared_copy"):
        return False
    if case["opts"][1] or not case.get("set_iteration_orders_differ"):
        return False
    return any(contains_big_set(v) for v in _vals_of_case(case))


MATCHERS = {"K2": _k2, "K3": _k3}


def replay_witnesses(ctx):
    """the Coq _refuted witnesses, replayed on the implementation: if the code no
    longer shows the defect the model (which has it) no longer describes it."""
    from deepdiff import DeepHash
    a = {'a': 0.0, 0: 0.5}
    b = {0: 0.5, 'a': 0.0}
    if DeepHash(a)[a] == DeepHash(b)[b]:
        ctx.break_("correspondence", {"name": "C06_memo_refuted", "detail": "K2 witness {'a':0.0,0:0.5} vs reversed order now hashes equally: the model (memo keyed by ==) is stale"})
    s1 = set([0, 8])
    s2 = set()
    s2.add(8)
    s2.add(0)
    if list(s1) != list(s2):
        k = kw(ORDERED_MODE)
        if DeepHash(s1, **k)[s1] == DeepHash(s2, **k)[s2]:
            ctx.break_("correspondence", {"name": "C06_ordered_set_refuted", "detail": "K3 witness {0,8} in two iteration orders now hashes equally in ordered mode: model stale"})
    else:
        ctx.note("k3_witness", "this CPython iterates {0,8} identically for both insertion orders; witness not replayable in-process")
    ctx.note("refuted_witnesses_replayed", ["C06_memo_refuted(K2)", "C06_ordered_set_refuted(K3)"])


# ---------------------------------------------------------------------------
# correspondence
# ---------------------------------------------------------------------------

def has_empty_key(v):
    if isinstance(v, dict):
        return any(k in ("", b"") or has_empty_key(x) for k, x in v.items())
    if isinstance(v, (list, tuple)):
        return any(has_empty_key(x) for x in v)
    return False


def corr_single(ctx, vals, modes, name, label):
    cases = []
    for v in vals:
        for o in modes:
            if o[4] and has_empty_key(v):
                # ignore_string_type_changes: the hex hasher maps the key '' to '' and _prep_dict drops items whose key
                # hash is falsy (`if not key_hash: continue`); SHA-256 never returns ''.  The model assumes a hasher
                # with non-empty outputs; this combination is outside its range.
                ctx.count("skipped:empty_key_with_ignore_string_type_changes")
                continue
            root, dh = impl_hash(v, o, hexhasher)
            if has_sharing(v):
                # one object at several positions: the id-keyed table entries are per object, the model's per position;
                # the root hash must still be that of the unfolded tree
                cases.append(("sx_str (deephash hexhash %s %s)" % (coq_opts(o), values.to_coq(v)), root,
                              {"value": expr_shared(v), "opts": list(o), "impl_root": unhex(root)[:300], "check": "root only (shared sub-object)"}))
                continue
            exp = [root, table_of(dh.hashes, [v])]
            cases.append(("run_one %s %s" % (coq_opts(o), values.to_coq(v)), exp,
                          {"value": expr_shared(v), "opts": list(o), "impl_root": unhex(root)[:300]}))
    return ctx.coq_cases(name, HEADER, cases, shard=60, label=label)


def corr_chain(ctx, chains, modes, name, label):
    cases = []
    for i, vs in enumerate(chains):
        for o in modes:
            roots, tbl = impl_chain(vs, o, pass_object=(i % 2 == 0))
            cases.append(("run_chain %s [%s]" % (coq_opts(o), "; ".join(values.to_coq(v) for v in vs)), [roots, tbl],
                          {"values": [repr(v) for v in vs], "opts": list(o)}))
    return ctx.coq_cases(name, HEADER, cases, shard=40, label=label)


def all_atoms(v, out=None):
    out = [] if out is None else out
    if isinstance(v, (list, tuple, set, frozenset)):
        for x in v:
            all_atoms(x, out)
    elif isinstance(v, dict):
        for k, x in v.items():
            out.append(k)
            all_atoms(x, out)
    else:
        out.append(v)
    return out


def tag_safe_py(v):
    return all(not (isinstance(a, str) and (a == "NONE" or ":" in a)) for a in all_atoms(v))


def small_sets_py(v):
    return not contains_big_set(v)


def corr_guards(ctx, vals, name):
    """the guards of the theorems as computed in Coq == the harness's reading of them; also the
    distribution of the generated values with respect to each guard; and, for values inside the
    alias-free guard, hash_pure (the function the theorems are about) == the implementation's root hash"""
    cases = []
    pure = []
    for v in vals:
        g = [tag_safe_py(v), not values.contains_alias(v), small_sets_py(v), True, in_model_range(v)]
        for nm, b in zip(("tag_safe", "alias_free", "small_sets"), g):
            ctx.count("guard:%s:%s" % (nm, "in" if b else "out"))
        cases.append(("run_guards %s" % values.to_coq(v), g, {"value": repr(v), "check": "guards"}))
        if g[1]:
            for o in MODES3:
                if o[1] or g[2]:
                    pure.append(("run_pure %s %s" % (coq_opts(o), values.to_coq(v)), impl_hash(v, o, hexhasher)[0],
                                 {"value": repr(v), "opts": list(o), "check": "hash_pure == implementation (alias-free)"}))
    ctx.coq_cases(name + "_guards", HEADER, cases, shard=150, label="guards")
    ctx.coq_cases(name + "_pure", HEADER, pure, shard=80, label="hash_pure_equals_impl_inside_guard")


# ---- the shared table inside DeepDiff: _create_hashtable / _diff_set ------------

MEMBER_ATOMS = [1, 1.0, True, 0, 0.0, False, 2, 2.0, 3, "a", "b", "", "int:1", "NONE", None, 1.5, -1, "1", b"a"]
HEADER_MEMBERS = HEADER + "\nFrom DD Require Import Hash.HashMembers Hash.HashMembersShow."


def gen_member_set(rng, frozen=False):
    s = set()
    for _ in range(rng.randint(0, 4)):
        s.add(rng.choice(MEMBER_ATOMS))      # Python keeps the first of ==-equal members
    return frozenset(s) if frozen else s


def impl_diff_sets(pairs):
    """what DeepDiff reports for the set pairs (one run, one shared hashes table): per pair [removed, added], each in the
    iteration order of the set it comes from"""
    from deepdiff import DeepDiff
    if len(pairs) == 1:
        t1, t2 = pairs[0]
    else:
        t1, t2 = [a for a, _ in pairs], [b for _, b in pairs]
    dd = DeepDiff(t1, t2, view="tree", hasher=hexhasher)
    unexpected = [k for k in dd if k not in ("set_item_removed", "set_item_added")]
    rem = [set() for _ in pairs]
    add = [set() for _ in pairs]
    for key, acc, side in (("set_item_removed", rem, "t1"), ("set_item_added", add, "t2")):
        for lvl in dd.get(key, []):
            pth = lvl.up.path()
            i = 0 if pth == "root" else int(pth[len("root["):-1])
            acc[i].add(repr(values.canon(getattr(lvl, side))))
    out = []
    for i, (a, b) in enumerate(pairs):
        out.append([[values.canon(x) for x in a if repr(values.canon(x)) in rem[i]],
                    [values.canon(x) for x in b if repr(values.canon(x)) in add[i]]])
    return out, unexpected


def corr_members(ctx, n):
    """DeepDiff's own use of the shared table (_create_hashtable per set, members hashed one by one on self.hashes):
    which members _diff_set reports == diff_sets_memo (hash_members_memo threaded through the pairs of one run)"""
    rng = ctx.rng
    fixed = [[({1, 'a'}, {1.0, 'a'})], [({1.0, 'a'}, {1, 'b'})], [({1, 'a'}, {1, 'a'}), ({1.0}, {1})], [({1.0, 2}, {1.0}), ({1, 'a'}, {1.0, 'a'})],
             [({'int:1', 2}, {1, 2})], [(frozenset({1, 'a'}), frozenset({1.0, 'b'}))], [({True}, {1})], [({0}, {False}), ({0.0}, {0})],
             [({None}, {'NONE'})], [(set(), {1})], [({1.0}, {1}), ({1}, {1.0}), ({True, 2.0}, {1, 2})]]
    chains = list(fixed)
    for _ in range(n):
        k = rng.choice([1, 1, 2, 3])
        if k == 1 and rng.random() < 0.3:
            chains.append([(gen_member_set(rng, True), gen_member_set(rng, True))])
        else:
            chains.append([(gen_member_set(rng), gen_member_set(rng)) for _ in range(k)])
    cases = []
    for pairs in chains:
        if len(pairs) > 1 and any(a == b for a, b in pairs) and False:
            continue
        exp, unexpected = impl_diff_sets(pairs)
        if unexpected:
            ctx.count("members:skipped_other_report_kinds")
            continue
        ctx.count("members:alias" if values.contains_alias([list(a) + list(b) for a, b in pairs]) else "members:alias_free")
        expr = "run_diff_sets %s [%s]" % (coq_opts(SET_MODE), "; ".join("(%s, %s)" % (values.to_coq(a), values.to_coq(b)) for a, b in pairs))
        cases.append((expr, exp, {"pairs": [[repr(a), repr(b)] for a, b in pairs], "check": "_diff_set reports == diff_sets_memo"}))
    ctx.coq_cases("hash_members", HEADER_MEMBERS, cases, shard=100, label="diff_set_members_shared_table")


def classes_of(hs):
    first = {}
    out = []
    for i, h in enumerate(hs):
        first.setdefault(h, i)
        out.append(first[h])
    return out


def corr_pattern(ctx, pool, modes, name):
    """equality pattern of the default SHA-256 hashes over the pool == the model's"""
    cases = []
    for o in modes:
        hs = [impl_hash(v, o)[0] for v in pool]
        cases.append(("run_classes %s [%s]" % (coq_opts(o), ";\n ".join(values.to_coq(v) for v in pool)), classes_of(hs),
                      {"pool": len(pool), "opts": list(o), "check": "sha256 equality pattern"}))
    bad = ctx.coq_cases(name, HEADER, cases, shard=1, label="sha256_equality_pattern_pools")
    ctx.count("corr:pattern_pairs", len(modes) * len(pool) * (len(pool) - 1) // 2)
    return bad


OPTION_SAMPLES = [
    (True, True, False, False, False, False, None),
    (True, True, True, True, False, False, None),
    (False, True, True, False, True, False, None),
    (True, True, True, True, True, False, None),
    (True, True, True, False, False, True, None),
    (False, False, True, False, False, False, 0),
    (True, True, True, False, False, False, 3),
    (False, True, False, True, False, True, 1),
]


ALIAS_PAIRS = [(1, 1.0), (1.0, 1), (0, 0.0), (0.0, 0), (0, False), (True, 1), (1.0, True), (2, 2.0), ((1,), (1.0,)), ((True,), (1,)),
               ((0.0, "a"), (0, "a")), (frozenset({2}), frozenset({2.0})), ((1, (2,)), (1.0, (2.0,)))]


def force_alias(rng, v):
    """make two ==-but-not-identical atoms (or hashable tuples / frozensets of such) co-occur in v, at varying positions"""
    a, b = rng.choice(ALIAS_PAIRS)
    r = rng.random()
    if r < 0.25:
        return [a, v, b]
    if r < 0.45:
        return [v, [a], (b,)]
    if r < 0.6 and not isinstance(a, (tuple, frozenset)):
        return {"k": v, a: [b]}
    if r < 0.75:
        return {"p": a, "q": v, "r": b}
    if r < 0.85:
        return (b, [v, a])
    if isinstance(v, list):
        w = list(v)
        w.insert(rng.randint(0, len(w)), a)
        w.insert(rng.randint(0, len(w)), b)
        return w
    return [b, a, v]


def make_values(rng, n, depth, alias_frac=0.34):
    out = []
    for i in range(n):
        alias = rng.random() < alias_frac
        v = gen(rng, depth=depth, width=4, alias=alias)
        if not has_container(v) and rng.random() < 0.7:
            v = gen(rng, depth=depth, width=4, alias=alias, kinds="LTDSF")
        if alias and not values.contains_alias(v) and rng.random() < 0.8:
            v = force_alias(rng, v)
        out.append(v)
    return out


FIXED = [
    {'a': 0.0, 0: 0.5}, {0: 0.5, 'a': 0.0}, [(1,), (1.0,)], [(1.0,), (1,)], [(True,), (1,)], [frozenset({1}), frozenset({1.0})],
    [1, True, 1.0], [True, 1], {1: [1.0, True]}, [1, 2, 1], [1, 1, 2], {"__p": 1, "b": 2}, {"__p": 1}, {}, [], (), set(), frozenset(),
    [[]], [()], ([],), {"a": {}}, [None, "NONE"], ["int:1", 1], [b"a", "a"], ["", b""], [0.0, 0, False], {None: None},
    [[1, 2], [2, 1]], [(1, 2), (2, 1)], [{1, 2}, frozenset({1, 2})], [{"a": 1, "b": 2}, {"b": 2, "a": 1}],
    [-1, -0.5, -1.5, 10, 12345678901234567890, 2.0], ["é", "\U0001d1c0"], ((1, [2]), (1, [2])),
]


def run(ctx):
    rng = ctx.rng
    sys.setrecursionlimit(10000)
    n1 = 260 if ctx.thorough else 50
    vals = FIXED + make_values(rng, n1, 3) + make_values(rng, n1 // 4, 4)
    vals = [v for v in vals if in_model_range(v)]
    for v in vals:
        ctx.count("values:alias" if values.contains_alias(v) else "values:alias_free")
        ctx.count("values:container" if has_container(v) else "values:scalar")
    for v in vals[:3] + vals[len(FIXED):len(FIXED) + 3]:
        ctx.sample({"value": repr(v), "default_hash": impl_hash(v, SET_MODE)[0]})
    replay_witnesses(ctx)
    # --- correspondence: exact strings, fresh tables
    corr_single(ctx, vals, MODES4, "hash_single", "exact_strings_fresh_table")
    corr_guards(ctx, vals, "hash")
    # --- shared / pre-seeded tables
    chains = []
    for i in range(len(vals) // 2):
        k = rng.choice([2, 2, 3])
        chains.append([copy.deepcopy(rng.choice(vals)) for _ in range(k)])
    chains += [[{'a': 0.0}, {0: 0.5, 'a': 0.0}], [[1.0], [1, True]], [(1,), (1.0,), [(True,)]], [1, 1.0, True, [1.0]]]
    corr_chain(ctx, chains, MODES3, "hash_chain", "exact_strings_shared_table")
    # --- other options (smaller sample)
    small = vals[:len(FIXED)] + rng.sample(vals[len(FIXED):], min(len(vals) - len(FIXED), 60 if ctx.thorough else 10))
    small = [v for v in small if in_model_range(v, small_ints=True)]
    corr_single(ctx, small, OPTION_SAMPLES, "hash_opts", "exact_strings_other_options")
    # --- SHA-256 equality pattern over a pool
    pool = list(FIXED)
    base = make_values(rng, 60, 3)
    for v in base:
        pool.append(v)
        pool.append(rebuild(v, rng, dict_order=True, set_order=True, seq_order=True))
        for _ in range(2):
            w, kind = values.edit(rng, v, alias=True, strings=STRS)
            if kind is not None:
                pool.append(w)
    pool = [v for v in pool if in_model_range(v)][:300 if ctx.thorough else 260]
    corr_pattern(ctx, pool, MODES3, "hash_pattern")
    # --- direct oracle on the implementation (default SHA-256 hasher)
    ovals = vals + (make_values(rng, 900, 4) if ctx.thorough else make_values(rng, 90, 3))
    for v in ovals:
        for o in MODES3:
            oracle_value(ctx, v, o, rng)
    for _ in range(len(ovals)):
        v = rng.choice(ovals)
        w = rng.choice(ovals)
        oracle_shared(ctx, copy.deepcopy(v), copy.deepcopy(w), rng.choice(MODES3))
    # pairs that are the same content built differently, one after the other on one table
    for v in ovals[: len(ovals) // 2]:
        w = rebuild(v, rng, dict_order=True, set_order=True)
        oracle_shared(ctx, w, v, rng.choice(MODES3))
    corr_members(ctx, 600 if ctx.thorough else 120)
    oracle_options(ctx, rng, 120 if ctx.thorough else 25)
    oracle_opaque(ctx)
    # --- repeated sub-objects (one object at several positions), long-lived tables, in-place edits
    sv = sharing_values(rng, 120 if ctx.thorough else 20)
    if not ctx.thorough:       # quick: every template once (cycling through the shared objects) + a seeded sample + the random ones
        nt = len(SHARE_TEMPLATES) * len(SHARED_OBJS)
        keep = set(i * len(SHARED_OBJS) + (i % len(SHARED_OBJS)) for i in range(len(SHARE_TEMPLATES))) | set(rng.sample(range(nt), 30))
        sv = [v for i, v in enumerate(sv) if i >= nt or i in keep]
    oracle_sharing(ctx, sv, rng)
    oracle_long_lived(ctx, 30 if ctx.thorough else 6, 50)
    oracle_inplace(ctx, 600 if ctx.thorough else 120)
    # --- PYTHONHASHSEED
    strs = ["a", "b", "c", "ab", "k1", "k2", "x y", "", "é", "NONE", "zz", "q"]
    svals = []
    for _ in range(120 if ctx.thorough else 40):
        v = values.gen_value(rng, 3, 5, alias=False, strings=strs, kinds="LTDSFSD")
        if has_container(v):
            svals.append(v)
    svals += [{"a", "b", "c", "ab", "k1"}, {"a": {"x y", "b"}, "b": [frozenset({"a", "k2", "q"})]}, [{"a": 1, "b": 2, "c": 3}, {"zz", "q"}]]
    oracle_seeds(ctx, svals, [1, 2, 3, 7, 11, 42, 1234, 99999], exprs=OPAQUE_EXPRS)


def replay(ctx, data):
    case = data.get("case", {})
    if "value" not in case:
        return run(ctx)
    o = tuple(case["opts"])
    v = from_repr(case["value"])
    kind = case.get("kind")
    rng = random.Random(0)
    MODE_NAME.setdefault(o, "options")
    if kind == "copy_opaque":
        check_opaque(ctx, case["value"], o)
        print("replay: copy_opaque %s" % case["value"])
        return
    if kind == "long_lived_table":
        o = tuple(case["opts"])
        res = long_lived_stream(case["stream_seed"], o, case.get("runs", 50), stop_at=case["index"])
        i, expr, h1, h0 = res[-1]
        ctx.evaluations += len(res)
        print("replay: long-lived table, stream_seed=%r run %d: shared-table hash %s fresh-table hash %s value=%s" % (case["stream_seed"], i, h1, h0, expr or case.get("value")))
        bad = [x for x in res if x[2] != x[3]]
        if bad:
            ctx.fail(case, "run %d on a table that outlived earlier (dead) values: hash differs from the fresh-table hash" % bad[0][0])
        return
    if kind == "inplace_edit":
        inplace_check(ctx, v, tuple(case["edit"]), o)
        print("replay: inplace_edit value=%s edit=%r" % (case["value"], case["edit"]))
        return
    if kind == "shared_table":
        w = from_repr(case["other"])
        oracle_shared(ctx, v, w, o)
        print("replay: shared_table value=%r other=%r opts=%r" % (v, w, o))
    elif kind == "hash_seed":
        oracle_seeds(ctx, [], case.get("seeds") or [1, 2, 3, 7, 11, 42, 1234, 99999], exprs=[case["value"]])
        print("replay: hash_seed value=%s" % case["value"])
    elif case.get("other"):
        w = from_repr(case["other"])
        h0 = impl_hash(v, o)[0]
        h1 = impl_hash(w, o)[0]
        ctx.evaluations += 1
        print("replay: %s value=%r -> %s ; other=%r -> %s" % (kind, v, h0, w, h1))
        if h0 != h1:
            ctx.fail(case, "hash changed by %s: %r vs %r" % (kind, v, w))
    else:
        oracle_value(ctx, v, o, rng)
        print("replay: value=%r opts=%r" % (v, o))

"""C06 - DeepHash: equal content hashes equally.

proof:           coq/theories/Hash/{HashModel,Equiv,HashProofs*}.v, Properties/C06.v
                 extended model Hash/HashXModel.v + HashXProofs*.v (more leaf types, counts, apply_hash=False,
                 _skip_this, notation 'e', big ints, truncate_datetime, type groups): corr_x
correspondence:  the real DeepHash run with hasher = hex-of-utf8 (an injective,
                 separator-free hasher that is also defined in Coq: `hexhash`)
                 against `hash_memo hexhash`: the root hash STRING and every
                 entry of the `hashes` table, in the four (ignore_repetition,
                 ignore_iterable_order) combinations, on fresh tables, on
                 tables shared by successive calls (= pre-seeded), with the
                 other modelled options on a smaller sample; plus the equality
                 pattern of the default SHA-256 hashes over a pool of values.
direct oracle:   hash unchanged by deep copy / dict key order / set rebuild /
                 list+tuple shuffles (order-insensitive modes) / sharing the
                 table / 8 PYTHONHASHSEED values in subprocesses.

This module also hosts the helpers shared with c07.py.
"""
import copy
import json
import os
import random
import subprocess
import sys

from harness import core, values

THEOREM_FILE = "Properties/C06.v"
COQCHK = ["Properties.C06"]
RULE = ("values: tree-shaped nests of dict/list/tuple/set/frozenset over None/bool/int/half-integer float/str/ASCII bytes, depth <= 3-4, "
        "width <= 4, a third of them with ==-aliasing atoms (1, 1.0, True ...); a case = (value or chain of values, option record); "
        "non-trivial = the value contains at least one container; distinct = distinct (canonical value, options, check kind); plus values in which "
        "one object occurs at several positions (templates + values.share; also 12 % of all generated values), one table outliving 50 runs over temporaries, "
        "in-place edits between runs; extended stream: expressions over the extended universe (new leaf types, namedtuples, Enum members, objects) x option records "
        "with several non-default options at once x _skip_this configurations with 1-3 criteria built from the value's own paths")
TRUSTED = [
    "no hypothesis on the hasher is used by the C06 theorems (H is an arbitrary function); the refutation witnesses are evaluated with the concrete hex hasher",
    "bytes are modelled for ASCII content only (utf-8 decoding = identity); floats are half-integers with positional repr",
    "the extended model Hash/HashXModel.v (date / datetime / time / timedelta / Decimal / PosixPath leaves, namedtuples / Enum members / plain objects, "
    "item counts, apply_hash=False, _skip_this for exclude_paths / include_paths / exclude_types / exclude_obj_callback, number_format_notation='e', "
    "ints beyond 2^53 under number formatting, truncate_datetime, ignore_type_in_groups) is table-free: inputs with == aliases among table keys are kept out of its correspondence",
    "cyclic containers, numpy / pandas / polars, custom operators, use_enum_value, encodings, timedelta under number formatting (the code raises), Decimal with "
    "notation 'e', time with microseconds, subclass membership in ignore_type_in_groups, str keys with quotes / brackets under path options are outside every model",
]
ASSUMPTIONS = ["acyclic inputs; a value in which one object occurs at several positions is compared with the model of its unfolded tree", "no nan/inf/-0.0"]

HEADER = ("From DD Require Import Base.PyStr Base.Value Hash.HashModel Hash.HashShow.\n"
          "Local Open Scope Z_scope.")
HEADER_SHARED = ("From DD Require Import Base.PyStr Base.Value Hash.HashModel Hash.HashShow Hash.HashShowShared.\n"
                 "Local Open Scope Z_scope.")

# (ignore_repetition, ignore_iterable_order, ignore_private_variables, ignore_string_case,
#  ignore_string_type_changes, ignore_numeric_type_changes, significant_digits)
SET_MODE = (True, True, True, False, False, False, None)
MULTI_MODE = (False, True, True, False, False, False, None)
ORDERED_MODE = (False, False, True, False, False, False, None)
DEDUP_ORDERED = (True, False, True, False, False, False, None)   # not one of the property's modes
MODES3 = [SET_MODE, MULTI_MODE, ORDERED_MODE]
MODES4 = MODES3 + [DEDUP_ORDERED]
MODE_NAME = {SET_MODE: "set", MULTI_MODE: "multiset", ORDERED_MODE: "ordered", DEDUP_ORDERED: "dedup-ordered"}


def kw(o):
    return dict(ignore_repetition=o[0], ignore_iterable_order=o[1], ignore_private_variables=o[2],
                ignore_string_case=o[3], ignore_string_type_changes=o[4], ignore_numeric_type_changes=o[5],
                significant_digits=o[6])


def coq_opts(o):
    b = core.coq_bool
    sd = "None" if o[6] is None else "(Some %d%%nat)" % o[6]
    return "(mk_hopts %s %s %s %s %s %s %s)" % (b(o[0]), b(o[1]), b(o[2]), b(o[3]), b(o[4]), b(o[5]), sd)


def hexhasher(s):
    if isinstance(s, bytes):      # never happens for the modelled inputs; keep the hasher total
        return s.hex()
    return s.encode("utf-8").hex()


def unhex(h):
    try:
        return bytes.fromhex(h).decode("utf-8")
    except Exception:
        return h


# ---------------------------------------------------------------------------
# running the implementation
# ---------------------------------------------------------------------------

def _collect_ids(v, out):
    from deepdiff.helper import get_id
    if isinstance(v, (list, tuple, dict, set, frozenset)):
        out[get_id(v)] = v
    if isinstance(v, (list, tuple)):
        for x in v:
            _collect_ids(x, out)
    elif isinstance(v, dict):
        for x in v.values():
            _collect_ids(x, out)


def table_of(hashes, roots):
    """The `hashes` table in insertion order, canonicalised:
    [[["K"|"I", canon(key object)], hash], ...]."""
    from deepdiff.deephash import BoolObj, UNPROCESSED_KEY
    from deepdiff.helper import ID_PREFIX
    ids = {}
    for r in roots:
        _collect_ids(r, ids)
    out = []
    for k, val in hashes.items():
        if k is UNPROCESSED_KEY:
            continue
        h = val[0]
        if isinstance(k, BoolObj):
            out.append([["K", values.canon(k is BoolObj.TRUE)], h])
        elif isinstance(k, str) and k.startswith(ID_PREFIX) and k in ids:
            out.append([["I", values.canon(ids[k])], h])
        else:
            out.append([["K", values.canon(k)], h])
    return out


def impl_hash(v, o, hasher=None, hashes=None):
    from deepdiff import DeepHash
    k = kw(o)
    if hasher is not None:
        k["hasher"] = hasher
    if hashes is not None:
        k["hashes"] = hashes
    dh = DeepHash(v, **k)
    return dh[v], dh


def impl_chain_dh(vs, o, pass_object):
    """successive DeepHash calls sharing one table; returns (roots, the last DeepHash object)."""
    from deepdiff import DeepHash
    roots = []
    dh = None
    for v in vs:
        k = kw(o)
        k["hasher"] = hexhasher
        if dh is not None:
            k["hashes"] = dh if pass_object else dh.hashes
        dh = DeepHash(v, **k)
        roots.append(dh[v])
    return roots, dh


def impl_chain(vs, o, pass_object):
    """successive DeepHash calls sharing one table; returns (roots, table)."""
    roots, dh = impl_chain_dh(vs, o, pass_object)
    return roots, table_of(dh.hashes, vs)


def _hashable_py(x):
    try:
        hash(x)
        return True
    except TypeError:
        return False


def visit_counts(vs, o):
    """id -> how often a run of DeepHash(v, **kw(o)) over the values vs COMPUTES each unhashable container: `_hash` looks the
    table up by the object itself (TypeError for an unhashable one, so it is never served from the table) and writes it under
    its id; an object at k positions (by identity) is therefore computed k times and its id-keyed entry written k times, as
    are the unhashable containers below it.  Items under private keys are not visited when ignore_private_variables is set;
    a hashable tuple / frozenset is keyed by == and holds no unhashable container."""
    cnt = {}

    def walk(x):
        if not isinstance(x, (list, tuple, dict, set, frozenset)) or _hashable_py(x):
            return
        cnt[id(x)] = cnt.get(id(x), 0) + 1
        if isinstance(x, dict):
            for k, y in x.items():
                if o[2] and isinstance(k, str) and k.startswith("__"):
                    continue
                walk(y)
        elif isinstance(x, (list, tuple)):
            for y in x:
                walk(y)
    for v in vs:
        walk(v)
    return cnt


def table_split(hashes, roots, o):
    """The table of a run over values in which one object occurs at several positions, in the form of
    Hash/HashShowShared.run_chain_split: (==-keyed entries in insertion order, id-keyed entries - each repeated once per visit
    of its object, the model's unfolded tree has one per position - sorted)."""
    from deepdiff.deephash import BoolObj, UNPROCESSED_KEY
    from deepdiff.helper import ID_PREFIX
    ids = {}
    for r in roots:
        _collect_ids(r, ids)
    cnt = visit_counts(roots, o)
    keyed, by_id = [], []
    for k, val in hashes.items():
        if k is UNPROCESSED_KEY:
            continue
        h = val[0]
        if isinstance(k, BoolObj):
            keyed.append([["K", values.canon(k is BoolObj.TRUE)], h])
        elif isinstance(k, str) and k.startswith(ID_PREFIX) and k in ids:
            by_id += [[["I", values.canon(ids[k])], h]] * cnt.get(id(ids[k]), 1)
        else:
            keyed.append([["K", values.canon(k)], h])
    return keyed, core.sx_sorted(by_id)


# ---------------------------------------------------------------------------
# generators
# ---------------------------------------------------------------------------

STRS = values.STR_POOL + ["NONE", "int:1", "bool:true", "list:", "a,b", "x|2", "{", "}", ";", ":", "__p", "__", "_a",
                          "é", "€", "\U0001d1c0", "AbC", "str:a", "bytes:a"]


def gen(rng, depth=3, width=4, alias=False, kinds="LTDSFA"):
    return values.gen_value(rng, depth, width, alias=alias, strings=STRS, kinds=kinds)


def has_container(v):
    return isinstance(v, (list, tuple, dict, set, frozenset))


def contains_big_set(v):
    if isinstance(v, (set, frozenset)):
        return len(v) >= 2
    if isinstance(v, (list, tuple)):
        return any(contains_big_set(x) for x in v)
    if isinstance(v, dict):
        return any(contains_big_set(x) for x in v.values())
    return False


def in_model_range(v, small_ints=False):
    """floats |x| < 1e16, ASCII bytes; small_ints: |int| < 2**53 (number formatting options go through float)"""
    ok = [True]

    def walk(x):
        if isinstance(x, (list, tuple, set, frozenset)):
            for y in x:
                walk(y)
        elif isinstance(x, dict):
            for k, y in x.items():
                walk(k)
                walk(y)
        elif isinstance(x, float):
            if not (abs(x) < 1e16) or x * 2 != int(x * 2):
                ok[0] = False
        elif isinstance(x, bytes):
            if any(c >= 128 for c in x):
                ok[0] = False
        elif small_ints and isinstance(x, int) and abs(x) >= 2 ** 53:
            ok[0] = False
    walk(v)
    return ok[0]


# rebuilders used by the direct oracle ---------------------------------------

def rebuild(v, rng, dict_order=False, set_order=False, seq_order=False):
    """A structurally equal fresh copy with dict insertion order / set insertion
    order / list+tuple item order permuted at every level."""
    if isinstance(v, list) or isinstance(v, tuple):
        items = [rebuild(x, rng, dict_order, set_order, seq_order) for x in v]
        if seq_order:
            rng.shuffle(items)
        return items if isinstance(v, list) else tuple(items)
    if isinstance(v, dict):
        items = [(k, rebuild(x, rng, dict_order, set_order, seq_order)) for k, x in v.items()]
        if dict_order:
            rng.shuffle(items)
        return dict(items)
    if isinstance(v, (set, frozenset)):
        items = list(v)
        if set_order:
            items.reverse()
            s = set()
            for x in items:
                s.add(x)
            return s if isinstance(v, set) else frozenset(s)
        return set(items) if isinstance(v, set) else frozenset(items)
    return v


import datetime as _dt
import re as _re

SAFE_NS = {"frozenset": frozenset, "set": set, "True": True, "False": False, "None": None,
           # out-of-model leaves used by the oracle-only streams (objects with neither __dict__ nor __slots__)
           "object": object, "slice": slice, "re_compile": _re.compile, "timezone": _dt.timezone, "timedelta": _dt.timedelta,
           "Ellipsis": Ellipsis, "complex": complex}


def from_repr(s):
    g = {"__builtins__": {}}
    g.update(globals().get("XNS") or SAFE_NS)   # in the globals: lambdas (used to rebuild shared sub-objects) resolve names there
    return eval(s, g)


# ---------------------------------------------------------------------------
# direct oracle
# ---------------------------------------------------------------------------

_LEAF = (int, str, bytes, bool, type(None))   # CPython restores the identity of these by itself (small ints, None, interned str)


def _children(x):
    if isinstance(x, (list, tuple, set, frozenset)):
        return list(x)
    if isinstance(x, dict):
        out = []
        for k, y in x.items():
            out.append(k)
            out.append(y)
        return out
    return []


def expr_shared(v):
    """A Python expression that rebuilds v INCLUDING its sharing: every object (container or float) that occurs at
    more than one position by identity is bound once by a lambda.  For tree-shaped v this is repr(v)."""
    count, order = {}, []

    def walk(x):
        if isinstance(x, _LEAF):
            return
        count[id(x)] = count.get(id(x), 0) + 1
        if count[id(x)] > 1:
            return
        for y in _children(x):
            walk(y)
        order.append(x)
    walk(v)
    shared = [x for x in order if count[id(x)] > 1]
    names = {id(x): "s%d" % k for k, x in enumerate(shared)}

    def emit(x, top=False):
        if not top and id(x) in names:
            return names[id(x)]
        if isinstance(x, list):
            return "[" + ", ".join(emit(y) for y in x) + "]"
        if isinstance(x, tuple):
            return "(" + "".join(emit(y) + ", " for y in x) + ")"
        if isinstance(x, dict):
            return "{" + ", ".join("%s: %s" % (emit(k), emit(y)) for k, y in x.items()) + "}"
        if isinstance(x, frozenset):
            return "frozenset([" + ", ".join(emit(y) for y in x) + "])"
        if isinstance(x, set):
            return "set([" + ", ".join(emit(y) for y in x) + "])"
        return repr(x)
    body = emit(v, top=True)
    for x in reversed(shared):
        body = "(lambda %s: %s)(%s)" % (names[id(x)], body, emit(x, top=True))
    return body


def has_sharing(v):
    seen = set()

    def walk(x):
        if isinstance(x, _LEAF) or isinstance(x, float):
            return False
        if id(x) in seen:
            return True
        seen.add(id(x))
        return any(walk(y) for y in _children(x))
    return walk(v)


def rebuild_keep(v, rng, memo=None):
    """a copy with every dict's insertion order permuted that PRESERVES the sharing structure of v"""
    memo = {} if memo is None else memo
    if isinstance(v, _LEAF) or isinstance(v, float):
        return v
    if id(v) in memo:
        return memo[id(v)]
    if isinstance(v, list):
        r = [rebuild_keep(x, rng, memo) for x in v]
    elif isinstance(v, tuple):
        r = tuple(rebuild_keep(x, rng, memo) for x in v)
    elif isinstance(v, dict):
        items = [(k, rebuild_keep(x, rng, memo)) for k, x in v.items()]
        items.reverse()
        if rng.random() < 0.5:
            rng.shuffle(items)
        r = dict(items)
    else:
        r = type(v)(v)
    memo[id(v)] = r
    return r


def set_orders(v, out=None):
    """iteration orders of all sets inside v, as a sorted list (position-independent)"""
    top = out is None
    out = [] if top else out
    if isinstance(v, (set, frozenset)):
        out.append(repr(list(v)))
    elif isinstance(v, (list, tuple)):
        for x in v:
            set_orders(x, out)
    elif isinstance(v, dict):
        for x in v.values():
            set_orders(x, out)
    return sorted(out) if top else out


def _mechanisms(kind, o, v, w):
    """what the mechanisms of the two known findings PREDICT for this failing pair, computed on the live objects (a
    rebuilt set need not iterate like the original): K2 = every object read as the first == object visited before it in
    DeepHash's traversal order (on the table left by w when the table is shared); K3 = sets read in iteration order"""
    from harness.props import c07
    out = {}
    try:
        if kind == "shared_table":
            first = {}
            c07._collapse(w, first)
            a, b = c07._collapse(v), c07._collapse(v, first)
        else:
            a, b = c07._collapse(v), c07._collapse(w)
        out["k2_predicts_difference"] = c07.canon_mode(a, o) != c07.canon_mode(b, o)
        out["k3_predicts_difference"] = (not o[1]) and c07.canon_mode(v, o, set_iter=True) != c07.canon_mode(w, o, set_iter=True)
    except Exception:
        pass          # values outside the canonical form (opaque leaves): no prediction recorded
    return out


def _case(kind, o, v, w=None, extra=None):
    c = {"kind": kind, "opts": list(o), "value": expr_shared(v)}
    if w is not None:
        c["other"] = expr_shared(w)
        c["set_iteration_orders_differ"] = set_orders(v) != set_orders(w)
        c.update(_mechanisms(kind, tuple(o), v, w))
    if extra:
        c.update(extra)
    return c


def oracle_value(ctx, v, o, rng, hasher=None):
    """C06 on the implementation for one value and one option record."""
    order_insensitive = o[1]
    try:
        h0, dh0 = impl_hash(v, o, hasher)
    except Exception as e:
        ctx.fail(_case("raise", o, v, extra={"error": repr(e)}), "DeepHash raised %r" % (e,))
        return
    checks = [("copy", copy.deepcopy(v)),
              ("dict_order", rebuild(v, rng, dict_order=True)),
              ("set_order", rebuild(v, rng, set_order=True))]
    if order_insensitive:
        checks.append(("seq_order", rebuild(v, rng, seq_order=True, dict_order=True)))
    for kind, w in checks:
        h1, _ = impl_hash(w, o, hasher)
        ctx.seen((kind, o, expr_shared(v), expr_shared(w)), nontrivial=has_container(v))
        ctx.count("oracle:" + kind)
        if h1 != h0:
            ctx.fail(_case(kind, o, v, w), "hash changed by %s (%s mode): %r vs %r" % (kind, MODE_NAME.get(o, "opts"), v, w))
    # fresh vs again on the same (now populated) table
    h2, _ = impl_hash(v, o, hasher, hashes=dh0)
    if h2 != h0:
        ctx.fail(_case("rehash_same_table", o, v), "hash changed when re-hashing with its own table")


def oracle_shared(ctx, v, w, o, hasher=None):
    """sharing / pre-seeding: hash of v computed after w on w's table == on a fresh table"""
    h0, _ = impl_hash(v, o, hasher)
    _, dhw = impl_hash(w, o, hasher)
    h1, _ = impl_hash(v, o, hasher, hashes=dhw)
    _, dhw2 = impl_hash(w, o, hasher)
    h2, _ = impl_hash(v, o, hasher, hashes=dhw2.hashes)
    ctx.seen(("shared", o, expr_shared(v), expr_shared(w)), nontrivial=has_container(v) or has_container(w))
    ctx.count("oracle:shared_table")
    if h1 != h0 or h2 != h0:
        ctx.fail(_case("shared_table", o, v, w), "hash of %r differs between a fresh table and the table left by hashing %r" % (v, w))


# ---- option sweeps: keys that collapse under a normalising option ----------------

def _opt(**k):
    o = list(SET_MODE)
    names = ["ignore_repetition", "ignore_iterable_order", "ignore_private_variables", "ignore_string_case",
             "ignore_string_type_changes", "ignore_numeric_type_changes", "significant_digits"]
    for n, v in k.items():
        o[names.index(n)] = v
    return tuple(o)


KEY_OPTS = [_opt(ignore_string_type_changes=True), _opt(ignore_string_case=True),
            _opt(ignore_string_case=True, ignore_string_type_changes=True), _opt(significant_digits=1),
            _opt(significant_digits=0), _opt(significant_digits=2), _opt(significant_digits=1, ignore_repetition=False),
            _opt(ignore_string_type_changes=True, ignore_repetition=False, ignore_iterable_order=False),
            _opt(significant_digits=1, ignore_repetition=False, ignore_iterable_order=False)]
KEY_FAMILY = ["a", b"a", "A", b"A", "Key", "key", b"key", "KEY", 1.01, 1.02, 1.04, 1.25, 2.345, 2.5, 2.54, 7.5, 3]
OPT_FIXED = [
    {'a': 1, b'a': 2}, {'x': [{'a': 1, b'a': 2}]}, {'Key': 'v1', 'key': 'v2', 'z': 0}, {1.01: 'a', 1.02: 'b'},
    [{1.25: 'x'}, 1.25], ({'k': {2.345: None}}, [2.345], 'z'), {1.25: 'x'}, [1.25, 2.5], {1.25: 1.25, 'k': [1.25]},
    {'A': {'a': 1, 'A': 2}, 'a': {b'a': 3}}, {2.5: [2.5, 2.54], 2.54: 2.5}, [{1.01: 1.02}, {1.02: 1.01}, 1.01],
]


def gen_key_value(rng, depth=2):
    if depth <= 0 or rng.random() < 0.3:
        return rng.choice(KEY_FAMILY + [None, "v1", "v2", 0])
    if rng.random() < 0.55:
        d = {}
        for _ in range(rng.randint(1, 4)):
            d[rng.choice(KEY_FAMILY)] = gen_key_value(rng, depth - 1)
        return d
    return [gen_key_value(rng, depth - 1) for _ in range(rng.randint(0, 3))]


def oracle_options(ctx, rng, n):
    """C06 under the key-normalising options: dicts whose keys collapse to one key hash ('a'/b'a', 'Key'/'key',
    1.01/1.02 with significant_digits=1), the same float as key and as value - built in different orders, permuted,
    and hashed on shared tables in both call orders"""
    vals = list(OPT_FIXED) + [gen_key_value(rng, 3) for _ in range(n)]
    vals = [v for v in vals if has_container(v)]
    for v in vals:
        for o in KEY_OPTS:
            MODE_NAME.setdefault(o, "options")
            ctx.count("oracle:option_sweep")
            oracle_value(ctx, v, o, rng)
    for i in range(len(vals)):
        v, w = copy.deepcopy(vals[i]), copy.deepcopy(rng.choice(vals))
        o = rng.choice(KEY_OPTS)
        oracle_shared(ctx, v, w, o)
        oracle_shared(ctx, w, v, o)


# ---- out-of-model leaves: objects with neither __dict__ nor __slots__ -------------

OPAQUE_EXPRS = [
    "(lambda m: {'name': 'x', 'default': m, 'rows': [(1, m), (2, None)]})(object())",
    "object()", "[object(), 1]", "{'s': object(), 't': object()}",
    "[re_compile('a+b'), 'x']", "{'pat': re_compile('[0-9]+'), 'n': 1}",
    "[slice(1, 5, 2), slice(None)]", "{'sl': slice(0, 3), 'v': [1, 2]}",
    "[timezone(timedelta(hours=2)), 'z']", "{'tz': timezone(timedelta(0)), 'k': (1, 2)}",
    "[Ellipsis, complex(1, 2), timedelta(seconds=5)]",
]


def oracle_opaque(ctx):
    """deep copy clause on values holding objects that have neither __dict__ nor __slots__ (object() sentinels,
    re.Pattern, slice, datetime.timezone): oracle only, such leaves are outside the model"""
    for e in OPAQUE_EXPRS:
        for o in MODES3:
            check_opaque(ctx, e, o)


def check_opaque(ctx, e, o):
    v = from_repr(e)
    c = copy.deepcopy(v)
    w = from_repr(e)                       # built again from scratch: other addresses
    try:
        h0, h1, h2 = impl_hash(v, o)[0], impl_hash(c, o)[0], impl_hash(w, o)[0]
    except Exception as ex:
        ctx.fail({"kind": "raise", "opts": list(o), "value": e, "error": repr(ex)}, "DeepHash raised %r on %s" % (ex, e))
        return
    ctx.seen(("opaque", o, e), nontrivial=True)
    ctx.count("oracle:copy_opaque")
    if h1 != h0 or h2 != h0:
        ctx.fail({"kind": "copy_opaque", "opts": list(o), "value": e},
                 "hash changed by deep copy / rebuilding of a value holding an object without __dict__ and __slots__: %s" % e)


# ---- repeated sub-objects: one object at several positions ------------------

SHARE_TEMPLATES = [
    "(lambda s: {'a': s, 'b': s, 'n': 0})(%s)",
    "(lambda s: {'first': s, 'later': {'deep': [s, 'z']}})(%s)",
    "(lambda s: [{'k1': s, 'k2': [s]}, 'tail'])(%s)",
    "(lambda s: [s, {'k': s}])(%s)",
    "(lambda s: [s, s, (s,)])(%s)",
    "(lambda s: {'a': {'b': s}, 'c': {'d': s}})(%s)",
    "(lambda s: {'a': s, 'b': [[s]]})(%s)",
    "(lambda s: {'a': 1, 'b': s, 'c': {'d': s, 'e': [s, 2]}})(%s)",
    "(lambda s: {'x': (s, 1), 'y': s, 'z': [s]})(%s)",
]
SHARED_OBJS = ["[1, 2]", "{'p': 'q'}", "(3, 'x')", "set([4, 5])", "frozenset([6])", "[]", "[[1], {'k': [2]}]", "2.5",
               "(1, [2])", "{'p': [1, {'q': 2}]}", "{}"]


def sharing_values(rng, n_random):
    out = [from_repr(t % x) for t in SHARE_TEMPLATES for x in SHARED_OBJS]
    tries = 0
    while n_random > 0 and tries < 20 * n_random:
        tries += 1
        v = values.gen_value(rng, 3, 4, alias=False, strings=["a", "b", "k1", "x y"], kinds="LDLDT")
        w, ok = values.share(rng, v)
        if ok and has_sharing(w):
            out.append(w)
            n_random -= 1
    return out


def oracle_sharing(ctx, vals, rng):
    """a value in which one object occurs at several positions hashes like the unshared tree with the same content,
    whatever the dict insertion orders; the model (which sees the unfolded tree) gives the same string"""
    cases = []
    for v in vals:
        ctx.count("sharing:values")
        tree = rebuild(v, rng)                     # fresh containers everywhere: no sharing
        for o in MODES3:
            h0 = impl_hash(v, o)[0]
            h1 = impl_hash(tree, o)[0]
            w = rebuild_keep(v, rng)
            h2 = impl_hash(w, o)[0]
            ctx.seen(("sharing", o, expr_shared(v)), nontrivial=True)
            if h1 != h0:
                ctx.fail(_case("unshared_copy", o, v, tree),
                         "a value with a repeated sub-object hashes differently from the equal value without sharing: %s" % expr_shared(v))
            if h2 != h0:
                ctx.fail(_case("shared_dict_order", o, v, w),
                         "dict insertion order changes the hash of a value with a repeated sub-object: %s" % expr_shared(v))
            cases.append(("sx_str (deephash hexhash %s %s)" % (coq_opts(o), values.to_coq(v)), impl_hash(v, o, hexhasher)[0],
                          {"value": expr_shared(v), "opts": list(o), "check": "shared value == model of the unfolded tree"}))
    ctx.coq_cases("hash_sharing", HEADER, cases, shard=80, label="exact_root_repeated_subobjects")


# ---- one table outliving many runs ---------------------------------------------

TMP_STRS = ["a", "b", "c", "k1", "k2", "p", "q", "x y"]


def gen_tmp(r, depth, sets):
    """alias-free by construction (ints and strs only), so no K2 noise; fresh containers"""
    if depth <= 0 or r.random() < 0.2:
        return r.randint(0, 30) if r.random() < 0.6 else r.choice(TMP_STRS)
    k = r.choice("LLDDTS" if sets else "LLDDT")
    n = r.randint(0, 3)
    if k == "L":
        return [gen_tmp(r, depth - 1, sets) for _ in range(n)]
    if k == "T":
        return tuple(gen_tmp(r, depth - 1, sets) for _ in range(n))
    if k == "D":
        return {kk: gen_tmp(r, depth - 1, sets) for kk in r.sample(TMP_STRS + [1, 2, 3], n)}
    return set(r.sample(TMP_STRS + [1, 2, 3, 4], n))


def long_lived_stream(seed, o, n, stop_at=None):
    """one table T outlives n runs over freshly built temporary values; yields (index, value expr, shared hash, fresh hash)"""
    from deepdiff import DeepHash
    r = random.Random(seed)
    T = {}
    out = []
    for i in range(n):
        v = gen_tmp(r, 3, o[1])
        if not has_container(v):
            v = [v, [v]]
        k = kw(o)
        h1 = DeepHash(v, hashes=T, **k)[v]
        h0 = DeepHash(v, **k)[v]
        out.append((i, expr_shared(v) if h1 != h0 else None, h1, h0))
        del v
        if stop_at is not None and i >= stop_at:
            break
    return out


def oracle_long_lived(ctx, n_tables, n_runs):
    for t in range(n_tables):
        seed = ctx.rng.randrange(1 << 30)
        o = MODES3[t % 3]
        for (i, expr, h1, h0) in long_lived_stream(seed, o, n_runs):
            ctx.seen(("long_lived", seed, i), nontrivial=True)
            ctx.count("oracle:long_lived_table_runs")
            if h1 != h0:
                ctx.fail({"kind": "long_lived_table", "opts": list(o), "stream_seed": seed, "index": i, "runs": n_runs, "value": expr},
                         "run %d on a table that outlived earlier (dead) values: hash differs from the fresh-table hash for %s" % (i, expr))
                break


def _mutable_positions(v):
    return [p for p in values.positions(v) if isinstance(values.get_at(v, p), (list, dict, set))]


def apply_edit(v, edit):
    path, op, arg = edit
    c = values.get_at(v, tuple(path))
    if op == "append":
        c.append(arg)
    elif op == "pop":
        c.pop()
    elif op == "setitem":
        c[arg[0]] = arg[1]
    elif op == "delitem":
        del c[arg]
    elif op == "add":
        c.add(arg)
    elif op == "clear":
        c.clear()


def gen_inplace_edit(r, v):
    pos = _mutable_positions(v)
    if not pos:
        return None
    p = r.choice(pos)
    c = values.get_at(v, p)
    if isinstance(c, list):
        op = r.choice(["append", "append", "pop", "clear"]) if c else "append"
        return (list(p), op, r.choice([99, "new", [7]]) if op == "append" else None)
    if isinstance(c, dict):
        if c and r.random() < 0.3:
            return (list(p), "delitem", r.choice(list(c)))
        return (list(p), "setitem", ["extra%d" % r.randint(0, 3), r.choice([None, 5, "v", [1]])])
    return (list(p), "add", r.choice([77, "new"]))


def inplace_check(ctx, v, edit, o):
    """hash into T, edit a contained list/dict/set IN PLACE, hash again with hashes=T: must equal the fresh-table hash"""
    from deepdiff import DeepHash
    k = kw(o)
    before = expr_shared(v)
    T = {}
    first = DeepHash(v, hashes=T, **k)[v]
    apply_edit(v, edit)
    again = DeepHash(v, hashes=T, **k)[v]
    fresh = DeepHash(v, **k)[v]
    ctx.seen(("inplace", o, before, repr(edit)), nontrivial=True)
    ctx.count("oracle:inplace_edit_rehash")
    if again != fresh:
        ctx.fail({"kind": "inplace_edit", "opts": list(o), "value": before, "edit": list(edit), "after": expr_shared(v)},
                 "after an in-place edit %r the shared table returns a stale hash for %s" % (edit, expr_shared(v)))


def oracle_inplace(ctx, n):
    r = random.Random(ctx.rng.randrange(1 << 30))
    fixed = [({'name': 'n', 'rows': [[1, 2], ['a', 'b']], 'tags': ('t', 'u')}, (['rows', 1], "append", 'c')),
             ({'name': 'n', 'rows': [[1, 2], ['a', 'b']]}, ([], "setitem", ['extra', None])),
             ([1, ({'k': [2]}, 3)], ([1, 0, 'k'], "append", 9)),
             ([{1, 2}, 'x'], ([0], "add", 3))]
    for v, e in fixed:
        for o in MODES3[:2]:
            inplace_check(ctx, copy.deepcopy(v), e, o)
    for i in range(n):
        o = MODES3[i % 3]
        v = gen_tmp(r, 3, o[1])
        if not has_container(v):
            continue
        e = gen_inplace_edit(r, v)
        if e is not None:
            inplace_check(ctx, v, e, o)


# ---- PYTHONHASHSEED ---------------------------------------------------------

def seed_worker():
    """subprocess side: stdin = JSON {reprs: [...], opts: [...]}; stdout = JSON hashes"""
    sys.path.insert(0, core.REPO)
    data = json.load(sys.stdin)
    from deepdiff import DeepHash
    # shift the allocation pattern so that memory addresses differ between the worker processes
    keep = [object() for _ in range((int(os.environ.get("PYTHONHASHSEED", "0") or 0) % 13) * 501)]
    out = []
    for r in data["reprs"]:
        v = from_repr(r)
        row = []
        for o in data["opts"]:
            o = tuple(o)
            try:
                row.append(DeepHash(v, **kw(o))[v])
            except Exception as e:
                row.append("raise:" + repr(e))
        order = repr(v) if "object" not in r else ""
        out.append([row, order])
    json.dump(out, sys.stdout)


def oracle_seeds(ctx, vals, seeds, exprs=()):
    """vals: values (sent as repr); exprs: expressions evaluated in the worker (values that have no evaluable repr)"""
    reprs = [repr(v) for v in vals] + list(exprs)
    vals = list(vals) + [None] * len(exprs)
    payload = json.dumps({"reprs": reprs, "opts": [list(o) for o in MODES3]})
    procs = []
    for s in seeds:
        env = dict(os.environ)
        env["PYTHONHASHSEED"] = str(s)
        env["PYTHONPATH"] = core.REPO + os.pathsep + core.VERIF
        p = subprocess.Popen([sys.executable, "-c",
                              "import sys; sys.path.insert(0, %r); from harness.props.c06 import seed_worker; seed_worker()" % core.VERIF],
                             stdin=subprocess.PIPE, stdout=subprocess.PIPE, stderr=subprocess.PIPE, env=env)
        procs.append((s, p))
        p.stdin.write(payload.encode())
        p.stdin.close()
    results = {}
    for s, p in procs:
        out = p.stdout.read()
        p.wait(timeout=300)
        try:
            results[s] = json.loads(out.decode())
        except Exception:
            ctx.break_("harness", {"error": "seed worker %s failed: %s" % (s, p.stderr.read().decode()[-800:])})
            return
    base = results[seeds[0]]
    reordered = 0
    for i, r in enumerate(reprs):
        if any(results[s][i][1] != base[i][1] for s in seeds):
            reordered += 1
        for j, o in enumerate(MODES3):
            hs = {results[s][i][0][j] for s in seeds}
            ctx.seen(("seed", o, r), nontrivial=True)
            if len(hs) > 1:
                cs = (_case("hash_seed", o, vals[i]) if vals[i] is not None else {"kind": "hash_seed", "opts": list(o), "value": r})
                cs.update({"seeds": list(seeds), "set_iteration_orders_differ": vals[i] is not None and any(results[s][i][1] != base[i][1] for s in seeds)})
                ctx.fail(cs,
                         "hash depends on PYTHONHASHSEED (%s mode): %s" % (MODE_NAME[o], r))
    ctx.count("oracle:hash_seed_values", len(reprs))
    ctx.note("hash_seed", {"seeds": list(seeds), "values": len(reprs), "values_whose_iteration_order_differs_between_seeds": reordered})


# ---------------------------------------------------------------------------
# known findings
# ---------------------------------------------------------------------------

class _BoolKey:
    """stands for deephash.BoolObj: equal only to the same bool, never to a number"""

    def __init__(self, b):
        self.b = b

    def __eq__(self, other):
        return isinstance(other, _BoolKey) and other.b == self.b

    def __hash__(self):
        return hash(("_BoolKey", self.b))


def memo_alias(*vals):
    """True when two objects that DeepHash would use as keys of its table are == but not identical in type/content:
    numbers of different types, hashable tuples / frozensets containing such (bools at top level are BoolObj: no alias)"""
    seen = {}

    def key(x):
        k = _BoolKey(x) if isinstance(x, bool) else x
        try:
            hash(k)
        except TypeError:
            return
        seen.setdefault(k, set()).add(repr(values.canon_sorted(x)))

    def walk(x):
        key(x)
        if isinstance(x, (list, tuple, set, frozenset)):
            for y in x:
                walk(y)
        elif isinstance(x, dict):
            for k, y in x.items():
                walk(k)
                walk(y)
    for v in vals:
        walk(v)
    return any(len(c) > 1 for c in seen.values())


def _vals_of_case(case):
    vs = [from_repr(case["value"])]
    if case.get("other"):
        vs.append(from_repr(case["other"]))
    return vs


def _k2(case):
    """memo aliasing.  (a) the failing clause is one of the 'same content, other construction / other table' clauses;
    (b) two table keys that are == but of different type co-occur; (c) the mechanism, replayed on a reference when the
    case was recorded (_mechanisms), PREDICTS the difference - or, in ordered mode, the set iteration orders differ as
    well (which of two == objects is visited first then depends on them).  A hash difference the mechanism does not
    predict is not this finding."""
    kind = case.get("kind")
    if kind not in ("dict_order", "set_order", "seq_order", "shared_table", "hash_seed", "copy", "unshared_copy", "shared_dict_order"):
        return False
    vals = _vals_of_case(case)
    if not memo_alias(*vals):
        return False
    if kind == "hash_seed":
        return True      # the iteration orders of the other processes cannot be replayed here; (a) and (b) only
    if case.get("k2_predicts_difference", True):
        return True
    return bool(case.get("set_iteration_orders_differ")) and any(contains_big_set(v) for v in vals)


def _k3(case):
    """ordered mode leaks set iteration order.  (a) clause: same content rebuilt / copied / other process / other table;
    (b) ignore_iterable_order=False, a set / frozenset with >= 2 members whose iteration order differs between the two
    values; (c) the mechanism predicts the difference: the two values differ once sets are read in iteration order
    (recorded with the case; not replayable for the other-process and shared-table clauses)"""
    kind = case.get("kind")
    if kind not in ("set_order", "hash_seed", "copy", "dict_order", "shared_table", "unshared_copy"):
        return False
    if case["opts"][1] or not case.get("set_iteration_orders_differ"):
        return False
    vals = _vals_of_case(case)
    if not any(contains_big_set(v) for v in vals):
        return False
    if kind in ("hash_seed", "shared_table"):
        return True
    return bool(case.get("k3_predicts_difference", True))


MATCHERS = {"K2": _k2, "K3": _k3}


def replay_witnesses(ctx):
    """the Coq _refuted witnesses, replayed on the implementation: if the code no
    longer shows the defect the model (which has it) no longer describes it."""
    from deepdiff import DeepHash
    a = {'a': 0.0, 0: 0.5}
    b = {0: 0.5, 'a': 0.0}
    if DeepHash(a)[a] == DeepHash(b)[b]:
        ctx.break_("correspondence", {"name": "C06_memo_refuted", "detail": "K2 witness {'a':0.0,0:0.5} vs reversed order now hashes equally: the model (memo keyed by ==) is stale"})
    s1 = set([0, 8])
    s2 = set()
    s2.add(8)
    s2.add(0)
    if list(s1) != list(s2):
        k = kw(ORDERED_MODE)
        if DeepHash(s1, **k)[s1] == DeepHash(s2, **k)[s2]:
            ctx.break_("correspondence", {"name": "C06_ordered_set_refuted", "detail": "K3 witness {0,8} in two iteration orders now hashes equally in ordered mode: model stale"})
    else:
        ctx.note("k3_witness", "this CPython iterates {0,8} identically for both insertion orders; witness not replayable in-process")
    ctx.note("refuted_witnesses_replayed", ["C06_memo_refuted(K2)", "C06_ordered_set_refuted(K3)"])


# ---------------------------------------------------------------------------
# correspondence
# ---------------------------------------------------------------------------

def has_empty_key(v):
    if isinstance(v, dict):
        return any(k in ("", b"") or has_empty_key(x) for k, x in v.items())
    if isinstance(v, (list, tuple)):
        return any(has_empty_key(x) for x in v)
    return False


def corr_single(ctx, vals, modes, name, label):
    cases, shared = [], []
    for v in vals:
        for o in modes:
            if o[4] and has_empty_key(v):
                # ignore_string_type_changes: the hex hasher maps the key '' to '' and _prep_dict drops items whose key
                # hash is falsy (`if not key_hash: continue`); SHA-256 never returns ''.  The model assumes a hasher
                # with non-empty outputs; this combination is outside its range.
                ctx.count("skipped:empty_key_with_ignore_string_type_changes")
                continue
            root, dh = impl_hash(v, o, hexhasher)
            if has_sharing(v):
                # one object at several positions: the id-keyed table entries are per object, the model's (unfolded tree) per
                # position: root, ==-keyed entries in order, id-keyed entries repeated per visit (table_split)
                keyed, by_id = table_split(dh.hashes, [v], o)
                shared.append(("run_chain_split %s [%s]" % (coq_opts(o), values.to_coq(v)), [[root], keyed, by_id],
                               {"value": expr_shared(v), "opts": list(o), "impl_root": unhex(root)[:300],
                                "check": "root + ==-keyed entries in order + id-keyed entries per visit (shared sub-object)"}))
                continue
            exp = [root, table_of(dh.hashes, [v])]
            cases.append(("run_one %s %s" % (coq_opts(o), values.to_coq(v)), exp,
                          {"value": expr_shared(v), "opts": list(o), "impl_root": unhex(root)[:300]}))
    bad = ctx.coq_cases(name, HEADER, cases, shard=60, label=label)
    return bad + ctx.coq_cases(name + "_shared", HEADER_SHARED, shared, shard=60, label=label + "_shared_objects")


def corr_chain(ctx, chains, modes, name, label):
    """successive calls on one table.  All values of a chain stay alive for the whole chain (the caller holds them: the
    pre-seeded-table clause is about live objects; a freed container's id could be re-used).  A chain holding a value in which
    one object occurs at several positions is compared in the form of table_split (see corr_single)."""
    cases, shared = [], []
    for i, vs in enumerate(chains):
        for o in modes:
            if any(has_sharing(v) for v in vs) or len(set(id(v) for v in vs)) < len(vs):
                roots, dh = impl_chain_dh(vs, o, pass_object=(i % 2 == 0))
                keyed, by_id = table_split(dh.hashes, vs, o)
                shared.append(("run_chain_split %s [%s]" % (coq_opts(o), "; ".join(values.to_coq(v) for v in vs)), [roots, keyed, by_id],
                               {"values": [expr_shared(v) for v in vs], "opts": list(o), "check": "chain with a shared sub-object"}))
                continue
            roots, tbl = impl_chain(vs, o, pass_object=(i % 2 == 0))
            cases.append(("run_chain %s [%s]" % (coq_opts(o), "; ".join(values.to_coq(v) for v in vs)), [roots, tbl],
                          {"values": [expr_shared(v) for v in vs], "opts": list(o)}))
    bad = ctx.coq_cases(name, HEADER, cases, shard=40, label=label)
    return bad + ctx.coq_cases(name + "_shared", HEADER_SHARED, shared, shard=40, label=label + "_shared_objects")


def all_atoms(v, out=None):
    out = [] if out is None else out
    if isinstance(v, (list, tuple, set, frozenset)):
        for x in v:
            all_atoms(x, out)
    elif isinstance(v, dict):
        for k, x in v.items():
            out.append(k)
            all_atoms(x, out)
    else:
        out.append(v)
    return out


def tag_safe_py(v):
    return all(not (isinstance(a, str) and (a == "NONE" or ":" in a)) for a in all_atoms(v))


def small_sets_py(v):
    return not contains_big_set(v)


def all_atoms_deep(v):
    """all scalars of a value, composite dict keys included"""
    if isinstance(v, (list, tuple, set, frozenset)):
        for x in v:
            yield from all_atoms_deep(x)
    elif isinstance(v, dict):
        for k, x in v.items():
            yield from all_atoms_deep(k)
            yield from all_atoms_deep(x)
    else:
        yield v


def corr_guards(ctx, vals, name, pure_stride=1):
    """the guards of the theorems as computed in Coq == the harness's reading of them; also the
    distribution of the generated values with respect to each guard; and, for values inside the
    alias-free guard, hash_pure (the function the theorems are about) == the implementation's root hash"""
    cases = []
    pure = []
    for vi, v in enumerate(vals):
        g = [tag_safe_py(v), not values.contains_alias(v), small_sets_py(v), True, in_model_range(v)]
        for nm, b in zip(("tag_safe", "alias_free", "small_sets"), g):
            ctx.count("guard:%s:%s" % (nm, "in" if b else "out"))
        cases.append(("run_guards %s" % values.to_coq(v), g, {"value": repr(v), "check": "guards"}))
        if g[1] and vi % pure_stride == 0:     # (corr_single compares the same strings through hash_memo for every value)
            for o in MODES3:
                if o[1] or g[2]:
                    pure.append(("run_pure %s %s" % (coq_opts(o), values.to_coq(v)), impl_hash(v, o, hexhasher)[0],
                                 {"value": repr(v), "opts": list(o), "check": "hash_pure == implementation (alias-free)"}))
    ctx.coq_cases(name + "_guards", HEADER, cases, shard=150, label="guards")
    ctx.coq_cases(name + "_pure", HEADER, pure, shard=80, label="hash_pure_equals_impl_inside_guard")


# ---- the shared table inside DeepDiff: _create_hashtable / _diff_set ------------

MEMBER_ATOMS = [1, 1.0, True, 0, 0.0, False, 2, 2.0, 3, "a", "b", "", "int:1", "NONE", None, 1.5, -1, "1", b"a"]
HEADER_MEMBERS = HEADER + "\nFrom DD Require Import Hash.HashMembers Hash.HashMembersShow."


def gen_member_set(rng, frozen=False):
    s = set()
    for _ in range(rng.randint(0, 4)):
        s.add(rng.choice(MEMBER_ATOMS))      # Python keeps the first of ==-equal members
    return frozenset(s) if frozen else s


def impl_diff_sets(pairs):
    """what DeepDiff reports for the set pairs (one run, one shared hashes table): per pair [removed, added], each in the
    iteration order of the set it comes from"""
    from deepdiff import DeepDiff
    if len(pairs) == 1:
        t1, t2 = pairs[0]
    else:
        t1, t2 = [a for a, _ in pairs], [b for _, b in pairs]
    dd = DeepDiff(t1, t2, view="tree", hasher=hexhasher)
    unexpected = [k for k in dd if k not in ("set_item_removed", "set_item_added")]
    rem = [set() for _ in pairs]
    add = [set() for _ in pairs]
    for key, acc, side in (("set_item_removed", rem, "t1"), ("set_item_added", add, "t2")):
        for lvl in dd.get(key, []):
            pth = lvl.up.path()
            i = 0 if pth == "root" else int(pth[len("root["):-1])
            acc[i].add(repr(values.canon(getattr(lvl, side))))
    out = []
    for i, (a, b) in enumerate(pairs):
        out.append([[values.canon(x) for x in a if repr(values.canon(x)) in rem[i]],
                    [values.canon(x) for x in b if repr(values.canon(x)) in add[i]]])
    return out, unexpected


def corr_members(ctx, n):
    """DeepDiff's own use of the shared table (_create_hashtable per set, members hashed one by one on self.hashes):
    which members _diff_set reports == diff_sets_memo (hash_members_memo threaded through the pairs of one run)"""
    rng = ctx.rng
    fixed = [[({1, 'a'}, {1.0, 'a'})], [({1.0, 'a'}, {1, 'b'})], [({1, 'a'}, {1, 'a'}), ({1.0}, {1})], [({1.0, 2}, {1.0}), ({1, 'a'}, {1.0, 'a'})],
             [({'int:1', 2}, {1, 2})], [(frozenset({1, 'a'}), frozenset({1.0, 'b'}))], [({True}, {1})], [({0}, {False}), ({0.0}, {0})],
             [({None}, {'NONE'})], [(set(), {1})], [({1.0}, {1}), ({1}, {1.0}), ({True, 2.0}, {1, 2})]]
    chains = list(fixed)
    for _ in range(n):
        k = rng.choice([1, 1, 2, 3])
        if k == 1 and rng.random() < 0.3:
            chains.append([(gen_member_set(rng, True), gen_member_set(rng, True))])
        else:
            chains.append([(gen_member_set(rng), gen_member_set(rng)) for _ in range(k)])
    cases = []
    for pairs in chains:
        if len(pairs) > 1 and any(a == b for a, b in pairs) and False:
            continue
        exp, unexpected = impl_diff_sets(pairs)
        if unexpected:
            ctx.count("members:skipped_other_report_kinds")
            continue
        ctx.count("members:alias" if values.contains_alias([list(a) + list(b) for a, b in pairs]) else "members:alias_free")
        expr = "run_diff_sets %s [%s]" % (coq_opts(SET_MODE), "; ".join("(%s, %s)" % (values.to_coq(a), values.to_coq(b)) for a, b in pairs))
        cases.append((expr, exp, {"pairs": [[repr(a), repr(b)] for a, b in pairs], "check": "_diff_set reports == diff_sets_memo"}))
    ctx.coq_cases("hash_members", HEADER_MEMBERS, cases, shard=100, label="diff_set_members_shared_table")


def classes_of(hs):
    first = {}
    out = []
    for i, h in enumerate(hs):
        first.setdefault(h, i)
        out.append(first[h])
    return out


def corr_pattern(ctx, pool, modes, name):
    """equality pattern of the default SHA-256 hashes over the pool == the model's"""
    cases = []
    for o in modes:
        hs = [impl_hash(v, o)[0] for v in pool]
        cases.append(("run_classes %s [%s]" % (coq_opts(o), ";\n ".join(values.to_coq(v) for v in pool)), classes_of(hs),
                      {"pool": len(pool), "opts": list(o), "check": "sha256 equality pattern"}))
    bad = ctx.coq_cases(name, HEADER, cases, shard=1, label="sha256_equality_pattern_pools")
    ctx.count("corr:pattern_pairs", len(modes) * len(pool) * (len(pool) - 1) // 2)
    return bad


OPTION_SAMPLES = [
    (True, True, False, False, False, False, None),
    (True, True, True, True, False, False, None),
    (False, True, True, False, True, False, None),
    (True, True, True, True, True, False, None),
    (True, True, True, False, False, True, None),
    (False, False, True, False, False, False, 0),
    (True, True, True, False, False, False, 3),
    (False, True, False, True, False, True, 1),
]


ALIAS_PAIRS = [(1, 1.0), (1.0, 1), (0, 0.0), (0.0, 0), (0, False), (True, 1), (1.0, True), (2, 2.0), ((1,), (1.0,)), ((True,), (1,)),
               ((0.0, "a"), (0, "a")), (frozenset({2}), frozenset({2.0})), ((1, (2,)), (1.0, (2.0,)))]


def force_alias(rng, v):
    """make two ==-but-not-identical atoms (or hashable tuples / frozensets of such) co-occur in v, at varying positions"""
    a, b = rng.choice(ALIAS_PAIRS)
    r = rng.random()
    if r < 0.25:
        return [a, v, b]
    if r < 0.45:
        return [v, [a], (b,)]
    if r < 0.6 and not isinstance(a, (tuple, frozenset)):
        return {"k": v, a: [b]}
    if r < 0.75:
        return {"p": a, "q": v, "r": b}
    if r < 0.85:
        return (b, [v, a])
    if isinstance(v, list):
        w = list(v)
        w.insert(rng.randint(0, len(w)), a)
        w.insert(rng.randint(0, len(w)), b)
        return w
    return [b, a, v]


def make_values(rng, n, depth, alias_frac=0.34, share_frac=0.12):
    out = []
    for i in range(n):
        alias = rng.random() < alias_frac
        v = gen(rng, depth=depth, width=4, alias=alias)
        if not has_container(v) and rng.random() < 0.7:
            v = gen(rng, depth=depth, width=4, alias=alias, kinds="LTDSF")
        if alias and not values.contains_alias(v) and rng.random() < 0.8:
            v = force_alias(rng, v)
        if rng.random() < share_frac and has_container(v):
            # one container object at two or more positions, the rest fresh (the models see the unfolded tree)
            w, ok = values.share(rng, v)
            if ok:
                v = w
        out.append(v)
    return out


FIXED = [
    {'a': 0.0, 0: 0.5}, {0: 0.5, 'a': 0.0}, [(1,), (1.0,)], [(1.0,), (1,)], [(True,), (1,)], [frozenset({1}), frozenset({1.0})],
    [1, True, 1.0], [True, 1], {1: [1.0, True]}, [1, 2, 1], [1, 1, 2], {"__p": 1, "b": 2}, {"__p": 1}, {}, [], (), set(), frozenset(),
    [[]], [()], ([],), {"a": {}}, [None, "NONE"], ["int:1", 1], [b"a", "a"], ["", b""], [0.0, 0, False], {None: None},
    [[1, 2], [2, 1]], [(1, 2), (2, 1)], [{1, 2}, frozenset({1, 2})], [{"a": 1, "b": 2}, {"b": 2, "a": 1}],
    [-1, -0.5, -1.5, 10, 12345678901234567890, 2.0], ["é", "\U0001d1c0"], ((1, [2]), (1, [2])),
]


# ---------------------------------------------------------------------------
# the extended model (Hash/HashXModel.v): more leaf types, counts, apply_hash=False, _skip_this,
# number_format_notation='e', big ints under number formatting, truncate_datetime, ignore_type_in_groups
# ---------------------------------------------------------------------------
import collections as _col
import datetime as _dt
import decimal as _dec
import enum as _enum
import pathlib as _pl

HEADER_X = ("From DD Require Import Base.PyStr Base.Value Hash.HashModel Hash.HashXModel Hash.HashXShow.\n"
            "Local Open Scope Z_scope.")

Pt = _col.namedtuple("Pt", "x y")
Rec = _col.namedtuple("Rec", "name rows tag")


class Col(_enum.Enum):
    RED = 1
    BLUE = "b"
    GREEN = 2.5


class Box:
    """a plain object: its attribute dict is what DeepHash sees"""

    def __init__(self, **kw):
        self.__dict__.update(kw)

    def __repr__(self):
        return "%s(%s)" % (type(self).__name__, ", ".join("%s=%r" % kv for kv in self.__dict__.items()))


class Crate:
    """a second plain class (NOT a subclass of Box: with the default ignore_type_subclasses=False a subclass of a member of
    an ignore_type_in_groups group is renamed like the member; the model knows class names only)"""

    def __init__(self, **kw):
        self.__dict__.update(kw)

    def __repr__(self):
        return "Crate(%s)" % ", ".join("%s=%r" % kv for kv in self.__dict__.items())


XNS = dict(SAFE_NS)
XNS.update({"date": _dt.date, "datetime": _dt.datetime, "time": _dt.time, "timedelta": _dt.timedelta, "timezone": _dt.timezone,
            "Decimal": _dec.Decimal, "PosixPath": _pl.PosixPath, "Pt": Pt, "Rec": Rec, "Col": Col, "Box": Box, "Crate": Crate})
EPOCH = _dt.datetime(1970, 1, 1)


def from_xrepr(s):
    g = {"__builtins__": {}}
    g.update(XNS)
    return eval(s, g)


# (base options as in kw(), apply_hash, number_format_notation, truncate_datetime, ignore_type_in_groups (tuples of class names))
def xkw(xo, cfg=None):
    k = kw(xo[0])
    k["apply_hash"] = xo[1]
    k["number_format_notation"] = "e" if xo[2] else "f"
    k["truncate_datetime"] = xo[3]
    if xo[4]:
        k["ignore_type_in_groups"] = [tuple(XNS[n] for n in g) for g in xo[4]]
    if cfg:
        ep, ip, et, ei = cfg
        if ep:
            k["exclude_paths"] = [path_text(p) for p in ep]
        if ip:
            k["include_paths"] = [path_text(p) for p in ip]
        if et:
            k["exclude_types"] = [XTYPES[t] for t in et]
        if ei:
            ints = list(ei)
            k["exclude_obj_callback"] = lambda obj, path: type(obj) is int and obj in ints
    return k


XTYPES = {"XTNone": type(None), "XTBool": bool, "XTInt": int, "XTFloat": float, "XTStr": str, "XTBytes": bytes, "XTDate": _dt.date,
          "XTDateTime": _dt.datetime, "XTTime": _dt.time, "XTTimedelta": _dt.timedelta, "XTDecimal": _dec.Decimal,
          "XTPath": _pl.PosixPath, "XTList": list, "XTTuple": tuple, "XTDict": dict, "XTSet": set, "XTFrozen": frozenset}


def _late_types():
    from deepdiff.deephash import BoolObj
    # _hash shows _skip_this a BoolObj member in place of a bool: excluding that class hits bools only at the second
    # test, and the item enters its parent as the token "None"
    XTYPES.setdefault('(XTObj (s2p "BoolObj"))', BoolObj)


def path_text(p):
    """a structured path [('k', key) | ('i', index) | ('a', attribute)] as DeepHash spells it"""
    out = "root"
    for kind, x in p:
        if kind == "k":
            out += "['%s']" % x if isinstance(x, (str, bytes)) else "[%s]" % (x,)
        elif kind == "i":
            out += "[%d]" % x
        else:
            out += ".%s" % x
    return out


def xatom_coq(a):
    if a is None or isinstance(a, (bool, int, float, str, bytes)):
        return "(XA %s)" % values.atom_to_coq(a)
    if isinstance(a, _dt.datetime):
        d = a.replace(tzinfo=None) - EPOCH
        us = (d.days * 86400 + d.seconds) * 1000000 + d.microseconds
        off = a.utcoffset()
        if off is None:
            return "(XL (LDateTime %s None))" % core.coq_Z(us)
        mins = off.days * 1440 + off.seconds // 60
        if off.seconds % 60 or off.microseconds:
            raise TypeError("utc offset with seconds")
        return "(XL (LDateTime %s (Some %s)))" % (core.coq_Z(us), core.coq_Z(mins))
    if isinstance(a, _dt.date):
        return "(XL (LDate %d %d %d))" % (a.year, a.month, a.day)
    if isinstance(a, _dt.time):
        if a.microsecond:
            raise TypeError("time with microseconds")
        return "(XL (LTime %d))" % (a.hour * 3600 + a.minute * 60 + a.second)
    if isinstance(a, _dt.timedelta):
        return "(XL (LTimedelta %s))" % core.coq_Z((a.days * 86400 + a.seconds) * 1000000 + a.microseconds)
    if isinstance(a, _dec.Decimal):
        sign, digits, exp = a.as_tuple()
        if not isinstance(exp, int):
            raise TypeError("non-finite Decimal")
        coef = int("".join(map(str, digits)) or "0")
        return "(XL (LDecimal %s %d%%N %s))" % (core.coq_bool(bool(sign)), coef, core.coq_Z(exp))
    if isinstance(a, _pl.PosixPath):
        return "(XL (LPath %s))" % core.coq_pystr(str(a))
    raise TypeError(a)


def is_xatom(a):
    return a is None or isinstance(a, (bool, int, float, str, bytes, _dt.date, _dt.time, _dt.timedelta, _dec.Decimal, _pl.PosixPath))


def obj_fields(v):
    """(kind, class name, attribute items) of a namedtuple / Enum member / plain object as _prep_obj reads them"""
    if isinstance(v, tuple) and hasattr(v, "_asdict"):
        return "ONamed", type(v).__name__, list(v._asdict().items())
    if isinstance(v, (_enum.Enum, Box, Crate)):
        return "OObj", type(v).__name__, list(v.__dict__.items())
    return None


def to_coq_x(v):
    of = obj_fields(v)
    if of is not None:
        kind, cls, items = of
        fs = []
        for name, x in items:
            # the value of a private attribute is never looked at (ignore_private_variables=True is required for these values)
            xc = "(XAtom (XA ANone))" if name.startswith("__") else to_coq_x(x)
            fs.append("(%s, %s)" % (core.coq_pystr(name), xc))
        return "(XObj %s %s [%s])" % (kind, core.coq_pystr(cls), "; ".join(fs))
    if isinstance(v, list):
        return "(XList [%s])" % "; ".join(to_coq_x(x) for x in v)
    if isinstance(v, tuple):
        return "(XTuple [%s])" % "; ".join(to_coq_x(x) for x in v)
    if isinstance(v, dict):
        return "(XDict [%s])" % "; ".join("(%s, %s)" % (xatom_coq(k), to_coq_x(x)) for k, x in v.items())
    if isinstance(v, frozenset):
        return "(XFrozen [%s])" % "; ".join(xatom_coq(x) for x in v)
    if isinstance(v, set):
        return "(XSet [%s])" % "; ".join(xatom_coq(x) for x in v)
    return "(XAtom %s)" % xatom_coq(v)


def coq_xpath(p):
    out = []
    for kind, x in p:
        if kind == "k":
            out.append("KKey %s" % xatom_coq(x))
        elif kind == "i":
            out.append("KIdx %d%%nat" % x)
        else:
            out.append("KAttr %s" % core.coq_pystr(x))
    return "[%s]" % "; ".join(out)


def coq_xopts(xo):
    tr = {None: "None", "second": "(Some USecond)", "minute": "(Some UMinute)", "hour": "(Some UHour)", "day": "(Some UDay)"}[xo[3]]
    groups = "[%s]" % "; ".join("[%s]" % "; ".join(core.coq_pystr(n) for n in g) for g in (xo[4] or ()))
    return "(mk_xopts %s %s %s %s %s)" % (coq_opts(xo[0]), core.coq_bool(xo[1]), core.coq_bool(xo[2]), tr, groups)


def coq_cfg(cfg):
    if not cfg:
        return "cfg0"
    ep, ip, et, ei = cfg
    return "(mk_skip [%s] [%s] [%s] [%s])" % ("; ".join(coq_xpath(p) for p in ep), "; ".join(coq_xpath(p) for p in ip),
                                             "; ".join(et), "; ".join(core.coq_Z(z) for z in ei))


def x_in_range(v, xo):
    """the modelled domain: half-integer floats, ASCII bytes; no timedelta when number formatting is on (TypeError in
    the code: round() of a timedelta), no Decimal with notation 'e'; ints below 2^1000 under number formatting"""
    digits = xo[0][6] is not None or xo[0][5]
    ok = [True]

    def walk(x):
        of = obj_fields(x)
        if of is not None:
            for _n, y in of[2]:
                if not _n.startswith("__"):
                    walk(y)
        elif isinstance(x, (list, tuple, set, frozenset)):
            for y in x:
                walk(y)
        elif isinstance(x, dict):
            for k, y in x.items():
                walk(k)
                walk(y)
        elif isinstance(x, float):
            if not (abs(x) < 1e15) or x * 2 != int(x * 2):
                ok[0] = False
        elif isinstance(x, bytes):
            if any(c >= 128 for c in x):
                ok[0] = False
        elif isinstance(x, _dt.timedelta) and not isinstance(x, _dt.datetime):
            if digits:
                ok[0] = False
        elif isinstance(x, _dec.Decimal):
            if digits and xo[2]:
                ok[0] = False
        elif isinstance(x, int) and not isinstance(x, bool):
            if digits and abs(x) >= 2 ** 1000:
                ok[0] = False
    walk(v)
    return ok[0]


def impl_x(v, xo, cfg=None, hasher=hexhasher):
    """[root (hash, count) or None, sorted set of the table's (hash, count) values]"""
    from deepdiff import DeepHash
    from deepdiff.deephash import UNPROCESSED_KEY
    k = xkw(xo, cfg)
    if hasher is not None:
        k["hasher"] = hasher
    dh = DeepHash(v, **k)
    try:
        root = [dh[v], dh.get(v, extract_index=1)]
    except KeyError:
        root = None
    ents = set()
    for key, val in dh.hashes.items():
        if key is UNPROCESSED_KEY:
            continue
        ents.add((val[0], val[1]))
    return root, core.sx_sorted([[h, c] for (h, c) in ents])


def x_memo_alias(v):
    """two table keys that are == but not the same value (Decimal('1') / 1 / 1.0 / True-as-member, two aware datetimes
    for the same instant, Decimal('1.10') / Decimal('1.1') ...): the table-free extended model does not apply (K2)"""
    seen = {}

    def key(x):
        k = _BoolKey(x) if isinstance(x, bool) else x
        try:
            hash(k)
        except TypeError:
            return
        seen.setdefault(k, set()).add(repr(x))

    def walk(x):
        key(x)
        of = obj_fields(x)
        if of is not None:
            for n, y in of[2]:
                key(n)
                if not n.startswith("__"):
                    walk(y)
        elif isinstance(x, (list, tuple, set, frozenset)):
            for y in x:
                walk(y)
        elif isinstance(x, dict):
            for k, y in x.items():
                walk(k)
                walk(y)
    walk(v)
    return any(len(c) > 1 for c in seen.values())


def x_repeated_composite(v):
    """a hashable composite (tuple / frozenset / namedtuple / Enum member) that occurs twice: with a path-dependent
    skip the second occurrence is served from the table with the exclusions of the first"""
    seen = set()
    dup = [False]

    def walk(x):
        of = obj_fields(x)
        if isinstance(x, (tuple, frozenset, _enum.Enum)):
            try:
                if x in seen:
                    dup[0] = True
                seen.add(x)
            except TypeError:
                pass
        if of is not None:
            for n, y in of[2]:
                if not n.startswith("__"):
                    walk(y)
        elif isinstance(x, (list, tuple)):
            for y in x:
                walk(y)
        elif isinstance(x, dict):
            for y in x.values():
                walk(y)
    walk(v)
    return dup[0]


def x_paths(v, p=()):
    """all structured paths below the root, as the code forms them"""
    out = []
    of = obj_fields(v)
    if of is not None:
        for n, y in of[2]:
            if not n.startswith("__"):
                out.append(p + (("a", n),))
                out += x_paths(y, p + (("a", n),))
    elif isinstance(v, (list, tuple, set, frozenset)):
        for i, y in enumerate(v):
            out.append(p + (("i", i),))
            out += x_paths(y, p + (("i", i),))
    elif isinstance(v, dict):
        for k, y in v.items():
            out.append(p + (("k", k),))
            out += x_paths(y, p + (("k", k),))
    return out


def path_text_ok(p):
    """keys whose spelling inside a path is unambiguous (no quotes / brackets inside str keys, no bytes keys)"""
    for kind, x in p:
        if kind == "k" and (isinstance(x, bytes) or (isinstance(x, str) and any(c in x for c in "'[]\\"))):
            return False
    return True


X_LEAVES = [
    "date(2020, 1, 2)", "date(1999, 12, 31)", "date(1, 1, 1)", "date(9999, 12, 31)", "date(2024, 2, 29)",
    "datetime(2020, 1, 2, 3, 4, 5)", "datetime(2020, 1, 2, 0, 0, 0)", "datetime(2020, 1, 2, 3, 4, 5, 123, tzinfo=timezone(timedelta(hours=2)))",
    "datetime(1999, 12, 31, 23, 59, 59, 999999, tzinfo=timezone(timedelta(hours=-5, minutes=-30)))", "datetime(1969, 12, 31, 23, 0, 0)",
    "datetime(2024, 2, 29, 12, 0, 0, tzinfo=timezone(timedelta(hours=14)))", "datetime(1900, 3, 1, 0, 0, 0)", "datetime(1, 1, 1, 0, 0, 0)",
    "datetime(9999, 12, 31, 23, 59, 59)", "datetime(2000, 2, 29, 23, 59, 59, 999999)", "datetime(2023, 7, 4, 0, 30, 0, tzinfo=timezone(timedelta(minutes=45)))",
    "time(3, 4, 5)", "time(0, 0, 0)", "time(23, 59, 59, tzinfo=timezone(timedelta(hours=2)))", "time(12, 30)",
    "timedelta(seconds=5)", "timedelta(days=1)", "timedelta(days=-1, seconds=5)", "timedelta(days=2, microseconds=7)", "timedelta(0)",
    "timedelta(hours=100, minutes=3)", "timedelta(microseconds=-1)", "timedelta(seconds=3599)", "timedelta(days=1000000)",
    "Decimal('1.5')", "Decimal('1E+3')", "Decimal('0.00')", "Decimal('-0')", "Decimal('123.456')", "Decimal('0.000001')", "Decimal('0.0000001')",
    "Decimal('1E-7')", "Decimal('-12.5')", "Decimal('100')", "Decimal('1.0E+2')", "Decimal('2.5')", "Decimal('0.125')", "Decimal('999.995')",
    "Decimal('-0.004')", "Decimal('0.05')", "Decimal('0.15')", "Decimal('0.25')", "Decimal('9.995')", "Decimal('1.10')", "Decimal('123456789.123456789')",
    "PosixPath('/a/b')", "PosixPath('rel/x.txt')", "PosixPath('.')", "PosixPath('/A/b')",
    "Col.RED", "Col.BLUE", "Col.GREEN",
    "10**20", "2**53 + 1", "-(2**53) - 1", "2**60 + 2**7", "2**60 + 2**7 + 1", "3 * 2**53", "123456", "12345", "99999", "995", "1005", "25", "15", "-15",
    "99999.5", "1234567.5", "12.5", "2.5", "-2.5", "0.5", "-0.5", "999.5",
]
X_BASE = ["None", "True", "False", "0", "1", "2", "3", "-1", "10", "1.5", "'a'", "'b'", "''", "'ab'", "'x y'", "'AbC'", "b'a'", "b''", "'__p'", "'NONE'", "'int:1'"]
X_KEYS = ["'a'", "'b'", "'c'", "'k1'", "''", "'__p'", "1", "2", "10", "None", "True", "1.5", "b'a'", "date(2020, 1, 2)", "Decimal('1.5')", "'Key'", "'key'",
          "PosixPath('/a/b')", "timedelta(seconds=5)"]


def gen_xexpr(rng, depth):
    """a Python expression (evaluated by from_xrepr) for a nested value over the extended universe"""
    if depth <= 0 or rng.random() < 0.25:
        return rng.choice(X_LEAVES) if rng.random() < 0.6 else rng.choice(X_BASE)
    k = rng.choice("LLTDDSFNNOO")
    n = rng.randint(0, 3)
    sub = lambda: gen_xexpr(rng, depth - 1)
    if k == "L":
        return "[" + ", ".join(sub() for _ in range(n)) + "]"
    if k == "T":
        return "(" + "".join(sub() + ", " for _ in range(n)) + ")"
    if k == "D":
        return "{" + ", ".join("%s: %s" % (kk, sub()) for kk in rng.sample(X_KEYS, n)) + "}"
    if k in "SF":
        ms = rng.sample(X_LEAVES[:58] + X_BASE, n)
        return ("set([%s])" if k == "S" else "frozenset([%s])") % ", ".join(ms)
    if k == "N":
        return "Pt(%s, %s)" % (sub(), sub()) if rng.random() < 0.6 else "Rec(%s, %s, %s)" % (sub(), sub(), sub())
    names = rng.sample(["a", "b", "rows", "__p", "_q", "tag"], rng.randint(0, 3))
    return "%s(%s)" % (rng.choice(["Box", "Box", "Crate"]), ", ".join("%s=%s" % (nm, sub()) for nm in names))


X_FIXED = [
    "Pt(1, 2)", "Pt([1, 2], {'a': Pt(0, 0)})", "Rec('n', [(1, 2)], None)", "[Col.RED, Col.GREEN]", "Box(a=1, b=[2, 3])", "Box(__p=1, q=2)",
    "Crate(a=1, b=[2, 3])", "Box()", "[date(2020, 1, 2), datetime(2020, 1, 2, 0, 0, 0)]", "{date(2020, 1, 2): 1, 'k': Decimal('1.5')}",
    "set([date(2020, 1, 2), 1, 'a'])", "(PosixPath('/a'), timedelta(seconds=1))", "{'a': [1, 2, 2], 'b': {'c': 1.5, '__p': 3}}",
    "[1, [2, 3], {'a': 4}]", "{'': 1, 'b': 2}", "{'': 1, b'': 2}", "[10**20, 2**53 + 1, -(2**53) - 1, 2**60 + 2**7, 2**60 + 2**7 + 1, 3 * 2**53]",
    "[123456, 0, 5, -5, 15, 25, 12345, 99999, 100000, 1.5, 2.5, 0.5, -0.5, 12.5, 99999.5, 1234567.5]",
    "[5, 15, 25, 35, 45, 55, 95, 105, 995, 9995, 99995, 999995, 1005, 1015, 1025, 125, 135, 145, 3.5, 4.5, 9.5, 10.5, 99.5, 999.5, 1000000.5, 123456789012345, 999999999999999, 2**52 + 1, 10**15 + 5]",
    "[-15, -25, -2.5, -3.5, -99.5, 7, 70, 700, 7000, 94, 96, 949, 950, 951, 9949, 9950, 9951]",
    "[Decimal('0.5'), Decimal('1.5'), Decimal('2.5'), Decimal('0.05'), Decimal('0.15'), Decimal('0.25'), Decimal('0.005'), Decimal('0.015'), Decimal('0.025'), Decimal('9.995'), Decimal('99.5'), Decimal('-0.5'), Decimal('-1.5'), Decimal('1E+2'), Decimal('12E+1'), Decimal('0E+2'), Decimal('1.10'), Decimal('123456789.123456789'), Decimal('-0.0005'), Decimal('0.9995'), Decimal('1E-10')]",
    "[timedelta(days=1, seconds=1), timedelta(days=-2), timedelta(seconds=59), timedelta(seconds=60), timedelta(seconds=3600), timedelta(seconds=86399), timedelta(microseconds=1), timedelta(seconds=1, microseconds=500000)]",
    "[datetime(2100, 2, 28, 12, 30, 0, tzinfo=timezone(timedelta(hours=-12))), datetime(1970, 1, 1, 0, 0, 0), datetime(1600, 12, 31, 1, 1, 1, 1), datetime(1, 1, 1, 0, 0, 0, tzinfo=timezone(timedelta(hours=-1))), datetime(400, 3, 1, 0, 0, 0), datetime(2001, 1, 1, 0, 0, 0), datetime(1999, 12, 31, 23, 59, 59)]",
    "[1, 'a', 2.0, None, True, [1, 'a']]", "{'a': 1, 'b': {'c': 2, 'd': 3}, 'e': [1, 2]}", "{'a': 'x', 1: 'y', 2: 3}", "[[0, 1], [1, 0], {1: [7, 8, 9]}]",
    "{'Key': 1, 'key': 2}", "{'a': 1, b'a': 2}", "[PosixPath('/A/b'), PosixPath('/a/b')]", "{'a': Pt(1, 'x'), 'b': [Pt(1, 'x')]}",
]
X_BASES = [SET_MODE, MULTI_MODE, ORDERED_MODE, DEDUP_ORDERED, (True, True, True, True, False, False, None), (False, True, True, False, True, False, None),
           (True, True, True, False, False, True, None), (True, True, True, False, False, False, 0), (True, True, True, False, False, False, 2),
           (True, True, False, False, False, False, 3), (True, True, True, False, False, False, 1), (False, False, True, True, True, True, 4),
           (True, True, True, True, True, False, None), (False, True, False, True, False, True, 1)]
X_GROUPS = [(), (), (("Box", "Crate"),), (("Pt", "Rec"), ("Box", "Crate")), (("Col", "Box"),)]


def gen_xopts(rng):
    """option records with several non-default options at once"""
    b = rng.choice(X_BASES)
    digits = b[6] is not None or b[5]
    return (b, rng.random() < 0.6, digits and rng.random() < 0.4, rng.choice([None, None, "second", "minute", "hour", "day"]), rng.choice(X_GROUPS))


def gen_xcfg(rng, v):
    """a _skip_this configuration built from the value's own paths: several criteria at once in a third of the cases"""
    ps = [p for p in x_paths(v) if path_text_ok(p)]
    ep, ip, et, ei = [], [], [], []
    picks = rng.sample(["ep", "ip", "et", "ei"], rng.choice([1, 1, 2, 3]))
    if "ep" in picks and ps:
        ep = [list(p) for p in rng.sample(ps, min(len(ps), rng.randint(1, 2)))]
        if rng.random() < 0.1:
            ep.append([])
    if "ip" in picks and ps:
        ip = [list(p) for p in rng.sample(ps, min(len(ps), rng.randint(1, 2)))]
    if "et" in picks:
        et = rng.sample(sorted(XTYPES), rng.randint(1, 2))
    if "ei" in picks:
        ei = rng.sample([0, 1, 2, 3, 10, 25, 12345], 2)
    return (ep, ip, et, ei)


def textual_prefix_clash(cfg, v):
    """include_paths are matched with str.startswith on the spelled path; for keys without quotes / brackets that is the
    structural prefix relation (the closing bracket sees to it); any input where the two relations differ is kept out"""
    ip = [path_text(p) for p in cfg[1]]
    if not ip:
        return False
    for p in x_paths(v):
        t = path_text(p)
        for q, sq in zip(cfg[1], ip):
            if t.startswith(sq) and not (len(p) >= len(q) and [tuple(x) for x in p[:len(q)]] == [tuple(x) for x in q]):
                return True
    return False


def x_modelable(v, xo, private_ok):
    try:
        to_coq_x(v)
    except TypeError:
        return False
    if not x_in_range(v, xo) or x_memo_alias(v):
        return False

    def has_private_attr(x):
        of = obj_fields(x)
        if of is not None:
            return any(n.startswith("__") for n, _ in of[2]) or isinstance(x, _enum.Enum) or any(has_private_attr(y) for n, y in of[2] if not n.startswith("__"))
        if isinstance(x, (list, tuple)):
            return any(has_private_attr(y) for y in x)
        if isinstance(x, dict):
            return any(has_private_attr(y) for y in x.values())
        if isinstance(x, (set, frozenset)):
            return any(isinstance(y, _enum.Enum) for y in x)
        return False
    # the value of a private attribute (an Enum's __objclass__ is a class) is outside the universe: such values only
    # with ignore_private_variables=True
    return private_ok or not has_private_attr(v)


def x_big_set(v):
    of = obj_fields(v)
    if of is not None:
        return any(x_big_set(y) for n, y in of[2] if not n.startswith("__"))
    if isinstance(v, (set, frozenset)):
        return len(v) >= 2
    if isinstance(v, (list, tuple)):
        return any(x_big_set(x) for x in v)
    if isinstance(v, dict):
        return any(x_big_set(x) for x in v.values())
    return False


def rebuild_x(v, rng):
    """a fresh structurally equal copy with every dict's insertion order and every object's attribute order permuted"""
    if isinstance(v, tuple) and hasattr(v, "_asdict"):
        return type(v)(*[rebuild_x(x, rng) for x in v])
    if isinstance(v, (Box, Crate)):
        items = [(n, rebuild_x(x, rng)) for n, x in v.__dict__.items()]
        rng.shuffle(items)
        return type(v)(**dict(items))
    if isinstance(v, list):
        return [rebuild_x(x, rng) for x in v]
    if isinstance(v, tuple):
        return tuple(rebuild_x(x, rng) for x in v)
    if isinstance(v, dict):
        items = [(k, rebuild_x(x, rng)) for k, x in v.items()]
        rng.shuffle(items)
        return dict(items)
    if isinstance(v, (set, frozenset)):
        return type(v)(list(v))
    return copy.deepcopy(v)


class Slot:
    """an object with __slots__ and no __dict__ (the second strategy of _prep_obj)"""
    __slots__ = ("a", "b")

    def __init__(self, a, b):
        self.a = a
        self.b = b

    def __repr__(self):
        return "Slot(%r, %r)" % (self.a, self.b)


def other_leaf_families():
    """families of pairwise UNEQUAL values of leaf types outside both models (oracle only): uuid, complex, time with
    microseconds, ipaddress interfaces / networks, __slots__ objects, Enum members of two classes, numpy arrays and
    scalars, pytz-aware datetimes, ranges; built by expressions so that every call returns fresh objects"""
    import ipaddress
    import uuid
    ns = dict(XNS)
    ns.update({"UUID": uuid.UUID, "IPv4Interface": ipaddress.IPv4Interface, "IPv4Network": ipaddress.IPv4Network,
               "IPv6Interface": ipaddress.IPv6Interface, "Slot": Slot, "range": range})
    fams = {
        "uuid": ["UUID(int=1)", "UUID(int=2)", "UUID('12345678123456781234567812345678')", "[UUID(int=1), UUID(int=2)]", "{UUID(int=1): 'a'}"],
        "complex": ["complex(1, 2)", "complex(2, 1)", "complex(1, 0)", "complex(0, 1)", "[complex(1, 2)]", "{'z': complex(0, 1)}"],
        "time_us": ["time(1, 2, 3, 4)", "time(1, 2, 3, 5)", "time(1, 2, 3)", "time(1, 2, 4)", "time(23, 59, 59, 999999)", "time(0, 0, 0, 1)", "[time(1, 2, 3, 4)]"],
        "ip": ["IPv4Interface('10.0.0.1/24')", "IPv4Interface('10.0.0.1/25')", "IPv4Network('10.0.0.0/24')", "IPv6Interface('::1/64')", "[IPv4Interface('10.0.0.1/24')]"],
        "slots": ["Slot(1, 2)", "Slot(2, 1)", "Slot(1, [2])", "Slot([1], 2)", "[Slot(1, 2), Slot(2, 1)]", "{'s': Slot(1, 2)}"],
        "enum": ["Col.RED", "Col.BLUE", "Col.GREEN", "[Col.RED]", "{'c': Col.RED}", "{Col.RED: 1}", "{Col.BLUE: 1}"],
        "range": ["range(3)", "range(4)", "range(1, 4)", "[range(3)]"],
    }
    try:
        import numpy as np
        ns["np"] = np
        fams["numpy"] = ["np.array([1, 2, 3])", "np.array([1, 2, 4])", "np.array([[1, 2], [3, 4]])", "np.array([1.0, 2.0, 3.0])", "np.int64(1)",
                         "np.float64(1.5)", "np.array([1, 2, 3], dtype=np.int32)", "[np.array([1, 2, 3]), 'x']", "{'a': np.array([1, 2, 4])}"]
    except ImportError:
        pass
    try:
        import pytz
        ns["pytz"] = pytz
        fams["pytz"] = ["datetime(2020, 1, 1, 12, 0, tzinfo=pytz.utc)", "pytz.timezone('Europe/Paris').localize(datetime(2020, 1, 1, 12, 0))",
                        "pytz.timezone('US/Eastern').localize(datetime(2020, 7, 1, 12, 0))", "[datetime(2020, 1, 1, 12, 0, tzinfo=pytz.utc)]"]
    except ImportError:
        pass

    def build(e):
        g = {"__builtins__": {}}
        g.update(ns)
        return eval(e, g)
    return fams, build


def oracle_other_leaves(ctx):
    """the copy / rebuild clause on leaf types outside both models"""
    fams, build = other_leaf_families()
    for name, exprs in fams.items():
        for e in exprs:
            for o in MODES3:
                v, w = build(e), build(e)
                try:
                    c = copy.deepcopy(v)
                    h0, h1, h2 = impl_hash(v, o)[0], impl_hash(c, o)[0], impl_hash(w, o)[0]
                except Exception as ex:
                    ctx.count("oracle:other_leaves:raises:" + type(ex).__name__)
                    continue
                ctx.seen(("other_leaf", name, e, o), nontrivial=True)
                ctx.count("oracle:other_leaves_copy")
                if h1 != h0 or h2 != h0:
                    ctx.fail({"kind": "other_leaf_copy", "family": name, "opts": list(o), "value": e},
                             "hash changed by deep copy / rebuilding of %s" % e)


def oracle_shapes(ctx):
    """one configuration given in every accepted argument shape (a single item / list / set / tuple; a path with and
    without the root prefix; a regex as text and compiled; one group as a tuple and as a list of tuples; the default
    hasher named explicitly; a number-formatting default spelled out) hashes one value the same way"""
    import re
    from deepdiff import DeepHash
    vals = ["{'a': 1, 'b': {'c': 2, 'd': [3, 'x']}, 'e': ['a', 2.5, None]}", "[{'a': 'x', 'b': 1}, ('a', 1), 'a', 1.5]",
            "{'a': Box(a=1, b='s'), 'b': Crate(a=1, b='s'), 'c': Pt('p', 2)}", "{'a': [1, 2], 'b': Decimal('1.50'), 'c': 1.5}"]
    families = lambda: [
        ("exclude_paths", [dict(exclude_paths="root['a']"), dict(exclude_paths=["root['a']"]), dict(exclude_paths={"root['a']"}),
                           dict(exclude_paths=("root['a']",)), dict(exclude_paths="a"), dict(exclude_paths=["a"]),
                           dict(exclude_regex_paths=r"^root\['a'\]$"), dict(exclude_regex_paths=[re.compile(r"^root\['a'\]$")])]),
        ("include_paths", [dict(include_paths="root['b']"), dict(include_paths=["root['b']"]), dict(include_paths={"root['b']"}), dict(include_paths="b")]),
        ("exclude_types", [dict(exclude_types=[str]), dict(exclude_types={str}), dict(exclude_types=(str,)), dict(exclude_types=[str, str])]),
        ("two_exclusions", [dict(exclude_types=[str], exclude_paths="root['a']"), dict(exclude_paths=["a"], exclude_types=(str,)),
                            dict(exclude_types={str}, exclude_regex_paths=[r"^root\['a'\]$", re.compile("^root$x", re.X)])]),
        ("type_groups", [dict(ignore_type_in_groups=(Box, Crate)), dict(ignore_type_in_groups=[(Box, Crate)]), dict(ignore_type_in_groups=[[Box, Crate]])]),
        ("hasher", [dict(), dict(hasher=DeepHash.sha256hex), dict(hashes={}), dict(number_format_notation="f"), dict(apply_hash=True),
                    dict(truncate_datetime=None), dict(ignore_repetition=True, ignore_iterable_order=True)]),
        ("digits", [dict(ignore_numeric_type_changes=True), dict(ignore_numeric_type_changes=True, significant_digits=12),
                    dict(ignore_numeric_type_changes=True, significant_digits=12, number_format_notation="f")]),
    ]
    for e in vals:
        for name, shapes in families():      # fresh argument objects for every value (hashes={} is filled by the call)
            hs = []
            for k in shapes:
                v = from_xrepr(e)
                try:
                    hs.append(DeepHash(v, **k)[v])
                except Exception as ex:
                    hs.append("raise:" + type(ex).__name__)
            ctx.seen(("shapes", name, e), nontrivial=True)
            ctx.count("oracle:option_shapes")
            if len(set(hs)) > 1:
                i = next(j for j in range(len(hs)) if hs[j] != hs[0])
                ctx.fail({"kind": "option_shape", "family": name, "value": e, "shape_a": repr(shapes[0]), "shape_b": repr(shapes[i]), "opts": list(SET_MODE)},
                         "one configuration in two argument shapes gives two hashes: %r vs %r on %s" % (shapes[0], shapes[i], e))


HEADER_X2 = HEADER_X + "\nFrom DD Require Import Hash.HashXBlind Hash.HashXLeaves Hash.HashXShow2."

LEAF_EXTRA = ["datetime(2020, 1, 2, 12, 0, 0, tzinfo=timezone(timedelta(hours=2)))", "datetime(2020, 1, 2, 10, 0, 0, tzinfo=timezone(timedelta(0)))",
              "datetime(2020, 1, 2, 10, 0, 0)", "datetime(2020, 1, 2, 10, 0, 30)", "datetime(2020, 1, 2, 10, 0, 30, 5)", "time(12, 30, 59)", "time(12, 30, 1)",
              "date(2020, 1, 3)", "PosixPath('/a/B')", "timedelta(seconds=5, microseconds=1)", "Decimal('1.50')"]


def cfg_blind_py(cfg):
    """no listed path has a component an index can match: a sequence index, or a non-negative int key"""
    return all(not (k == "i" or (k == "k" and isinstance(x, int) and not isinstance(x, bool) and x >= 0))
               for p in list(cfg[0]) + list(cfg[1]) for k, x in p)


def corr_leaves(ctx):
    """C07_extended_leaf_texts_exact observed: the partition of a list of leaves by the implementation's hash == the
    partition by the leaf's normal form computed in Coq (date triple / UTC instant after truncation / truncated seconds
    / path), every leaf inside leaf_ok; default options and truncate_datetime='minute' / 'day'"""
    exprs = [e for e in X_LEAVES[:54] + LEAF_EXTRA if not e.startswith("Col.")]
    vals = [from_xrepr(e) for e in exprs]
    cases = []
    for tr in (None, "minute", "day"):
        xo = (SET_MODE, True, False, tr, ())
        from deepdiff import DeepHash
        hs = [DeepHash(v, truncate_datetime=tr)[v] for v in vals]
        leaves = "[%s]" % "; ".join(xatom_coq(v)[4:-1] for v in vals)      # "(XL l)" -> "l"
        cases.append(("run_leaf_classes %s %s" % (coq_xopts(xo), leaves), [True, classes_of(hs)],
                      {"leaves": len(vals), "truncate_datetime": tr, "check": "hash classes == normal-form classes"}))
        n = len(vals)
        ctx.evaluations += n * (n - 1) // 2
    ctx.coq_cases("hash_x_leaves", HEADER_X2, cases, shard=1, label="leaf_normal_form_partitions")


def corr_x(ctx, n_random):
    """extended model == implementation: root (hash, count) (or no hash at all when the root is skipped) and the set of all
    (hash, count) table values, under the hex hasher or apply_hash=False, over option records with several non-default
    options and _skip_this configurations with several criteria; plus the C06 clauses (deep copy, dict / attribute order)
    on the same values with the default hasher"""
    rng = ctx.rng
    _late_types()
    exprs = list(X_FIXED) + [gen_xexpr(rng, 3) for _ in range(n_random)]
    # one object at several positions (12 %): the model sees the unfolded tree
    n_plain = len(exprs)
    exprs += [rng.choice(SHARE_TEMPLATES) % gen_xexpr(rng, 2) for _ in range(max(2, n_random // 8))]
    cases = []
    boolobj = ([], [], ['(XTObj (s2p "BoolObj"))'], [])
    for e in ("[True, 1, False]", "{'a': True, True: 2, 'b': [False]}", "True", "set([True, 'a'])", "Pt(True, [False, True])"):
        for xo in ((SET_MODE, True, False, None, ()), (MULTI_MODE, False, False, None, ())):
            v = from_xrepr(e)
            root, ents = impl_x(v, xo, boolobj)
            cases.append(("run_x %s %s %s" % (coq_xopts(xo), coq_cfg(boolobj), to_coq_x(v)), [root, ents],
                          {"value": e, "xopts": repr(xo), "skip": boolobj, "check": "bools refused by _hash after the raw test passed"}))
    for idx, e in enumerate(exprs):
        try:
            v = from_xrepr(e)
        except Exception:       # e.g. an unhashable member / key produced by the generator
            ctx.count("x:generator_rejects")
            continue
        trials = []
        if idx < len(X_FIXED):
            trials += [(xo_b, None) for xo_b in [(b, ah, ne, None, ()) for b in X_BASES[:10] for ah in (True, False) for ne in (False, True)
                                                 if not (ne and b[6] is None and not b[5])]]
            trials += [((SET_MODE, True, False, tr, ()), None) for tr in ("second", "minute", "hour", "day")]
            trials += [((SET_MODE, False, False, None, g), None) for g in X_GROUPS[2:]]
            trials = rng.sample(trials, 4 if not ctx.thorough else 16)
        for _ in range(2 if not ctx.thorough else 5):
            xo = gen_xopts(rng)
            trials.append((xo, None))
            trials.append((xo if rng.random() < 0.5 else (rng.choice(MODES3), True, False, None, ()), gen_xcfg(rng, v)))
        for xo, cfg in trials:
            if not x_modelable(v, xo, xo[0][2]):
                ctx.count("x:outside_domain")
                continue
            if cfg and (textual_prefix_clash(cfg, v) or ((cfg[0] or cfg[1]) and x_repeated_composite(v))):
                ctx.count("x:skipped_path_text_or_table_reuse")
                continue
            try:
                root, ents = impl_x(v, xo, cfg)
            except Exception as ex:
                ctx.count("x:impl_raises:" + type(ex).__name__)
                continue
            if idx >= n_plain and cfg and (cfg[0] or cfg[1]):
                # a shared object that is hashable (by identity: a plain object) is served from the table at its second
                # position, with the exclusions of the first: path-dependent exclusion + sharing is outside the table-free model
                ctx.count("x:skipped_path_text_or_table_reuse")
                continue
            shared = idx >= n_plain              # one object at several positions: the id-keyed table entry of the shared
            if shared:                           # object is overwritten by its last visit; the root is that of the unfolded tree
                ents = None
            if len(core.sx([root, ents])) > 8000:
                # hex of hex of ...: the strings double at every nesting level; a generated Coq file with several such
                # expectations overflows the stack of coqc
                ctx.count("x:skipped_expectation_too_long_for_coqc")
                continue
            ctx.count("x:cases:skip_config" if cfg else "x:cases:options_only")
            ctx.count("x:root_skipped" if root is None else "x:root_hashed")
            for flag, nm in ((not xo[1], "apply_hash=False"), (xo[2], "notation_e"), (xo[3], "truncate_datetime"), (xo[4], "type_groups")):
                if flag:
                    ctx.count("x:opt:" + nm)
            cases.append((("run_x_root %s %s %s" if shared else "run_x %s %s %s") % (coq_xopts(xo), coq_cfg(cfg), to_coq_x(v)),
                          root if shared else [root, ents],
                          {"value": e, "xopts": [list(xo[0])] + list(xo[1:4]) + [[list(g) for g in xo[4]]], "skip": cfg,
                           "impl_root": (unhex(root[0])[:200], root[1]) if root and xo[1] else root}))
        # C06 on the implementation for the same value (default hasher, no skip): deep copy / rebuilt with other orders
        for o in MODES3:
            if not o[1] and x_big_set(v):
                continue            # K3 (ordered mode leaks set iteration order) is exercised by the base oracle
            try:
                h0 = impl_hash(v, o)[0]
            except Exception as ex:
                ctx.count("x:oracle_raises:" + type(ex).__name__)
                continue
            for kind, w in (("copy", copy.deepcopy(v)), ("dict_order", rebuild_x(v, rng))):
                h1 = impl_hash(w, o)[0]
                ctx.seen(("x", kind, o, e), nontrivial=True)
                ctx.count("oracle:x:" + kind)
                if h1 != h0 and not x_memo_alias(v):
                    ctx.fail({"kind": "x_" + kind, "opts": list(o), "value": e}, "hash of a value with date / Decimal / Path / object leaves changed by %s: %s" % (kind, e))
    ctx.coq_cases("hash_x", HEADER_X, cases, shard=40, label="extended_model_root_count_and_table_values")
    # the hypothesis of C06_extended_paths_blind as a Coq boolean on the configurations actually run
    seen, blind = set(), []
    for _m, _e, tag in cases:
        cfg = tag.get("skip") if isinstance(tag, dict) else None
        if cfg and repr(cfg) not in seen:
            seen.add(repr(cfg))
            b = cfg_blind_py(cfg)
            ctx.count("x:cfg_blind:%s" % ("yes" if b else "no"))
            blind.append(("run_cfg_blind %s" % coq_cfg(cfg), b, {"skip": cfg, "check": "cfg_blind"}))
    ctx.coq_cases("hash_x_blind", HEADER_X2, blind, shard=300, label="skip_configurations_index_blindness")
    corr_leaves(ctx)


# ---------------------------------------------------------------------------
# source tie (DESIGN.md section 4.5): harness/translate/deephashprep.py regenerates the serialiser of deephash.py
# (DDGen.HashGen) from the CURRENT source; coq/srctie/HashGenEquiv.v proves it equal to Hash/HashModel.v
# ---------------------------------------------------------------------------

TIE_NAME = "deephashprep"
SOURCE_TIES = [{
    "name": TIE_NAME, "translator": "deephashprep", "gen_module": "HashGen", "equiv": ["HashGenEquiv"],
    "needs": ["Hash.HashSrcPrims", "Hash.HashProofsMemo", "Hash.HashShow", "Properties.C06"],
    "sources": ["deepdiff/deephash.py", "deepdiff/helper.py", "deepdiff/base.py"],
    "fragment": "KEY_TO_VAL_STR, INDEX_VS_ATTRIBUTE, prepare_string_for_hashing, DeepHash._prep_bool / _prep_path / _prep_number / "
                "_prep_ipranges / _prep_datetime / _prep_date / _prep_iterable / _prep_dict / _prep_tuple / _hash (dispatch order, "
                "memo lookup and write, BoolObj substitution, apply_hash + hasher); item counts, parent paths and the options outside "
                "Hash/HashModel.v are not translated (rules C, P, F of the translator)",
}]

TIE_ATOMS = [None, True, 1, 1.0, 1.5, "a", "__p", b"a"]
TIE_KEYS = ["a", "b", "__p", "_q", 1, None, b"a", ""]
TIE_HEADER = ("From DD Require Import Base.PyStr Base.Value Hash.HashModel Hash.HashShow Hash.HashSrcPrims.\n"
              "From DDGen Require Import HashGen.\n"
              "Local Open Scope Z_scope.\n"
              "(* generated serialiser (fuel 6 > nesting depth of every value below) and hand-written model, same rendering *)\n"
              "Definition tie_gen (o : hopts) (v : value) : sx :=\n"
              "  let r := g_hash 6 (mk_hself o hexhash None) (OV v) tt [] in SL [sx_str (py_str (fst r)); sx_memo (snd r)].\n")


def tie_universe():
    """bounded-exhaustive: every list / tuple of length <= 2, set / frozenset of size <= 2, one-item dict over the atoms above,
    a few two-item dicts and repetitions, and a representative of every depth-1 shape inside each container kind (depth 2)"""
    A = TIE_ATOMS
    d1 = []
    for mk in (list, tuple):
        d1.append(mk([]))
        d1 += [mk([a]) for a in A]
        d1 += [mk([a, b]) for a in A for b in A]
    for mk in (set, frozenset):
        d1.append(mk())
        d1 += [mk([a]) for a in A]
        d1 += [mk([a, b]) for i, a in enumerate(A) for b in A[i + 1:] if a != b]
    d1.append({})
    d1 += [{k: a} for k in TIE_KEYS for a in A]
    d1 += [{"a": 1, "b": 2}, {"b": 2, "a": 1}, {"__p": 1, "b": 2}, {"a": 0.0, 0: 0.5}, {0: 0.5, "a": 0.0}, {1: "x", 1.5: "x"},
           [1, 2, 1], [1, 1, 2], ["a", "a", "a"], (1.0, 1, True), [1, 1.0], [1.0, 1], ["NONE", None], ["int:1", 1]]
    reps = ["[]", "[1]", "[1, 1.0]", "['a', 'a']", "()", "(1,)", "(1.0,)", "('a', None)", "set()", "{1}", "{'a', 1.5}", "frozenset()",
            "frozenset({1})", "frozenset({1.0})", "{}", "{'a': 1}", "{'__p': 1}", "{1: True}", "{'a': 1, 'b': 2}", "{'b': 2, 'a': 1}"]
    d2 = []
    for e in reps:
        for tpl in ("[%s]", "[%s, 1]", "[%s, %s]", "(%s,)", "('a', %s)", "{'k': %s}", "{'__p': %s, 'b': %s}"):
            d2.append(from_repr(tpl % ((e,) * tpl.count("%s"))))         # every occurrence is a fresh object
    out, seen = [], set()
    for v in A + d1 + d2:
        k = (type(v).__name__, values.to_coq(v))
        if k not in seen and in_model_range(v, small_ints=True):
            seen.add(k)
            out.append(v)
    return out


def tie_difference(ctx, rec):
    """(evidence dict, [(value, options, generated model's output)]): the regenerated serialiser differenced against the
    hand-written model inside Coq on the bounded-exhaustive universe above x every option record the module runs; the distinct
    differing inputs, smallest first (at most 12).  Shared with c07."""
    status = rec.get("status")
    if status in ("translator-rejected", "generated-model-does-not-compile"):
        return {"searched": "nothing to evaluate (%s): the streams of run() are escalated to thorough-size budgets instead" % status}, []
    gen_dir = os.path.join(ctx.scratch, "srctie")
    if not os.path.exists(os.path.join(gen_dir, "HashGen.vo")):
        return {"searched": "nothing to evaluate: no compiled HashGen in the scratch directory"}, []
    ctx.ensure_built(TIE_HEADER)
    univ = tie_universe()
    recs = MODES4 + OPTION_SAMPLES
    pairs = [(v, o) for v in univ for o in recs if not (o[4] and has_empty_key(v))]
    import re
    from concurrent.futures import ThreadPoolExecutor
    nfile = [0]

    def evaluate(lo, hi):
        """[(index, generated model's output)] for the differing cases among pairs[lo:hi]; a shard whose evaluation overflows
        coqc's stack (long outputs when many cases differ) is split in two"""
        nfile[0] += 1
        fn = os.path.join(ctx.scratch, "tie_diff_%d_%d_%d.v" % (lo, hi, nfile[0]))
        with open(fn, "w") as f:
            f.write("From Coq Require Import List String ZArith NArith Bool.\nImport ListNotations.\nFrom DD Require Import Base.Sx.\n")
            f.write(TIE_HEADER + "Local Open Scope string_scope.\nDefinition cases : list (sx * sx) := [\n")
            f.write(";\n".join("(tie_gen %s %s,\n run_one %s %s)" % (coq_opts(o), values.to_coq(v), coq_opts(o), values.to_coq(v))
                               for (v, o) in pairs[lo:hi]))
            f.write("\n].\nEval vm_compute in run_cases cases.\n")
        rc, out = core.sh(["coqc", "-Q", core.THEORIES, "DD", "-Q", gen_dir, "DDGen", fn], timeout=900, cwd=ctx.scratch)
        m = re.search(r'"BEGIN\n(.*)END"', out, re.S)
        if rc != 0 or not m:
            if hi - lo > 1 and "Stack overflow" in out:
                mid = (lo + hi) // 2
                return evaluate(lo, mid) + evaluate(mid, hi)
            errors.append(out[-600:])
            return []
        found = []
        for line in m.group(1).replace('""', '"').splitlines():
            if line.strip():
                idx, _, txt = line.partition("\t")
                found.append((lo + int(idx), txt))
        return found
    shard = 80
    differing, errors = [], []
    with ThreadPoolExecutor(max_workers=core.NCPU) as ex:
        for part in ex.map(lambda k: evaluate(k, min(k + shard, len(pairs))), range(0, len(pairs), shard)):
            differing += part
    differing.sort()
    res = {"universe_values": len(univ), "option_records": len(recs), "cases": len(pairs), "differing": len(differing),
           "coqc_errors": errors[:2]}
    if not differing:
        res["searched"] = ("generated vs hand-written serialiser evaluated inside Coq (vm_compute, hex hasher, fresh table: root string "
                           "and every table entry) on the bounded-exhaustive universe: " +
                           ("no difference" if not errors else "NOT EVALUATED on %d shard(s) (coqc failed); no difference on the others" % len(errors)))
        return res, []
    # the distinct differing inputs, smallest first; judged by the module's ordinary correspondence and oracle
    picked, seen_v = [], set()
    for i, txt in sorted(differing, key=lambda d: (len(values.to_coq(pairs[d[0]][0])), d[0])):
        v, o = pairs[i]
        key = (values.to_coq(v), o)
        if key not in seen_v:
            seen_v.add(key)
            picked.append((v, o, txt))
        if len(picked) >= 12:
            break
    v0, o0, txt0 = picked[0]
    res["first"] = {"value": expr_shared(v0), "opts": list(o0), "generated_model": txt0[:600]}
    try:
        r0, dh0 = impl_hash(v0, o0, hexhasher)
        res["first"]["implementation"] = core.sx_show([r0, table_of(dh0.hashes, [v0])])[:600]
    except Exception as e:
        res["first"]["implementation"] = "raised %r" % (e,)
    return res, picked


def tie_correspondence(ctx, picked):
    """the differing inputs through the ordinary correspondence (real DeepHash vs Hash/HashModel.v: root string and table)"""
    for n_o, o in enumerate(sorted(set(o for (_v, o, _t) in picked), key=repr)):
        vs = [copy.deepcopy(v) for (v, o2, _t) in picked if o2 == o]
        try:
            corr_single(ctx, vs, [o], "tie_replay_%d" % n_o, "source_tie_differing_inputs")
        except Exception as e:      # the implementation raises on a modelled input: the model predicts a hash
            ctx.break_("correspondence", {"name": "tie_replay_%d" % n_o, "values": [expr_shared(v) for v in vs], "opts": list(o),
                                          "error": "the implementation raised %r; the model gives a hash" % (e,)})


def on_source_tie_break(ctx, name, rec):
    """core.source_tie_step calls this when the tie is not intact.  If the regenerated model compiled, difference it against
    the hand-written model (tie_difference) and judge the differing inputs like any generated case: the ordinary correspondence
    and the direct oracle.  A broken tie by itself calls neither ctx.fail nor ctx.break_."""
    res, picked = tie_difference(ctx, rec)
    if picked:
        tie_correspondence(ctx, picked)
        for (v, o, _txt) in picked:
            for seed in (0, 1, 2):
                oracle_value(ctx, copy.deepcopy(v), o, random.Random(seed), hasher=None)
            oracle_value(ctx, copy.deepcopy(v), o, random.Random(0), hasher=hexhasher)
        res["replayed"] = len(picked)
    return res


def run(ctx):
    rng = ctx.rng
    sys.setrecursionlimit(10000)
    # a source tie that is not intact escalates the streams that exercise the serialiser to their thorough-size budgets
    deep = ctx.thorough or ctx.tie_broken(TIE_NAME)
    n1 = 260 if deep else 50
    vals = FIXED + make_values(rng, n1, 3) + make_values(rng, n1 // 4, 4)
    vals = [v for v in vals if in_model_range(v)]
    for v in vals:
        ctx.count("values:alias" if values.contains_alias(v) else "values:alias_free")
        ctx.count("values:container" if has_container(v) else "values:scalar")
    for v in vals[:3] + vals[len(FIXED):len(FIXED) + 3]:
        ctx.sample({"value": repr(v), "default_hash": impl_hash(v, SET_MODE)[0]})
    replay_witnesses(ctx)
    # --- correspondence: exact strings, fresh tables
    corr_single(ctx, vals, MODES4, "hash_single", "exact_strings_fresh_table")
    corr_guards(ctx, vals, "hash")
    # --- shared / pre-seeded tables
    chains = []
    for i in range(len(vals) // 2):
        k = rng.choice([2, 2, 3])
        chains.append([copy.deepcopy(rng.choice(vals)) for _ in range(k)])
    chains += [[{'a': 0.0}, {0: 0.5, 'a': 0.0}], [[1.0], [1, True]], [(1,), (1.0,), [(True,)]], [1, 1.0, True, [1.0]]]
    corr_chain(ctx, chains, MODES3, "hash_chain", "exact_strings_shared_table")
    # --- other options (smaller sample)
    small = vals[:len(FIXED)] + rng.sample(vals[len(FIXED):], min(len(vals) - len(FIXED), 60 if deep else 10))
    small = [v for v in small if in_model_range(v, small_ints=True)]
    corr_single(ctx, small, OPTION_SAMPLES, "hash_opts", "exact_strings_other_options")
    # --- SHA-256 equality pattern over a pool
    pool = list(FIXED)
    base = make_values(rng, 60, 3)
    for v in base:
        pool.append(v)
        pool.append(rebuild(v, rng, dict_order=True, set_order=True, seq_order=True))
        for _ in range(2):
            w, kind = values.edit(rng, v, alias=True, strings=STRS)
            if kind is not None:
                pool.append(w)
    pool = [v for v in pool if in_model_range(v)][:300 if ctx.thorough else 260]
    corr_pattern(ctx, pool, MODES3, "hash_pattern")
    # --- direct oracle on the implementation (default SHA-256 hasher)
    ovals = vals + (make_values(rng, 900, 4) if ctx.thorough else make_values(rng, 90, 3))
    for v in ovals:
        for o in MODES3:
            oracle_value(ctx, v, o, rng)
    for _ in range(len(ovals)):
        v = rng.choice(ovals)
        w = rng.choice(ovals)
        oracle_shared(ctx, copy.deepcopy(v), copy.deepcopy(w), rng.choice(MODES3))
    # pairs that are the same content built differently, one after the other on one table
    for v in ovals[: len(ovals) // 2]:
        w = rebuild(v, rng, dict_order=True, set_order=True)
        oracle_shared(ctx, w, v, rng.choice(MODES3))
    corr_members(ctx, 600 if ctx.thorough else 120)
    corr_x(ctx, 300 if ctx.thorough else 30)
    oracle_shapes(ctx)
    oracle_other_leaves(ctx)
    oracle_options(ctx, rng, 120 if ctx.thorough else 25)
    oracle_opaque(ctx)
    # --- repeated sub-objects (one object at several positions), long-lived tables, in-place edits
    sv = sharing_values(rng, 120 if ctx.thorough else 20)
    if not ctx.thorough:       # quick: every template once (cycling through the shared objects) + a seeded sample + the random ones
        nt = len(SHARE_TEMPLATES) * len(SHARED_OBJS)
        keep = set(i * len(SHARED_OBJS) + (i % len(SHARED_OBJS)) for i in range(len(SHARE_TEMPLATES))) | set(rng.sample(range(nt), 30))
        sv = [v for i, v in enumerate(sv) if i >= nt or i in keep]
    oracle_sharing(ctx, sv, rng)
    oracle_long_lived(ctx, 30 if ctx.thorough else 6, 50)
    oracle_inplace(ctx, 600 if ctx.thorough else 120)
    # --- PYTHONHASHSEED
    strs = ["a", "b", "c", "ab", "k1", "k2", "x y", "", "é", "NONE", "zz", "q"]
    svals = []
    for _ in range(120 if ctx.thorough else 40):
        v = values.gen_value(rng, 3, 5, alias=False, strings=strs, kinds="LTDSFSD")
        if has_container(v):
            svals.append(v)
    svals += [{"a", "b", "c", "ab", "k1"}, {"a": {"x y", "b"}, "b": [frozenset({"a", "k2", "q"})]}, [{"a": 1, "b": 2, "c": 3}, {"zz", "q"}]]
    oracle_seeds(ctx, svals, [1, 2, 3, 7, 11, 42, 1234, 99999], exprs=OPAQUE_EXPRS)


def replay(ctx, data):
    case = data.get("case", {})
    if "value" not in case:
        return run(ctx)
    o = tuple(case["opts"])
    v = from_repr(case["value"])
    kind = case.get("kind")
    rng = random.Random(0)
    MODE_NAME.setdefault(o, "options")
    if kind == "other_leaf_copy":
        oracle_other_leaves(ctx)
        print("replay: copy clause on leaf types outside the models (family %s): %s" % (case.get("family"), case["value"]))
        return
    if kind == "option_shape":
        oracle_shapes(ctx)
        print("replay: option shapes (family %s) on %s" % (case.get("family"), case["value"]))
        return
    if kind in ("x_copy", "x_dict_order"):
        w = copy.deepcopy(v) if kind == "x_copy" else rebuild_x(v, rng)
        h0, h1 = impl_hash(v, o)[0], impl_hash(w, o)[0]
        ctx.evaluations += 1
        print("replay: %s value=%s -> %s ; rebuilt -> %s" % (kind, case["value"], h0, h1))
        if h0 != h1:
            ctx.fail(case, "hash changed by %s: %s" % (kind, case["value"]))
        return
    if kind == "copy_opaque":
        check_opaque(ctx, case["value"], o)
        print("replay: copy_opaque %s" % case["value"])
        return
    if kind == "long_lived_table":
        o = tuple(case["opts"])
        res = long_lived_stream(case["stream_seed"], o, case.get("runs", 50), stop_at=case["index"])
        i, expr, h1, h0 = res[-1]
        ctx.evaluations += len(res)
        print("replay: long-lived table, stream_seed=%r run %d: shared-table hash %s fresh-table hash %s value=%s" % (case["stream_seed"], i, h1, h0, expr or case.get("value")))
        bad = [x for x in res if x[2] != x[3]]
        if bad:
            ctx.fail(case, "run %d on a table that outlived earlier (dead) values: hash differs from the fresh-table hash" % bad[0][0])
        return
    if kind == "inplace_edit":
        inplace_check(ctx, v, tuple(case["edit"]), o)
        print("replay: inplace_edit value=%s edit=%r" % (case["value"], case["edit"]))
        return
    if kind == "shared_table":
        w = from_repr(case["other"])
        oracle_shared(ctx, v, w, o)
        print("replay: shared_table value=%r other=%r opts=%r" % (v, w, o))
    elif kind == "hash_seed":
        oracle_seeds(ctx, [], case.get("seeds") or [1, 2, 3, 7, 11, 42, 1234, 99999], exprs=[case["value"]])
        print("replay: hash_seed value=%s" % case["value"])
    elif case.get("other"):
        w = from_repr(case["other"])
        h0 = impl_hash(v, o)[0]
        h1 = impl_hash(w, o)[0]
        ctx.evaluations += 1
        print("replay: %s value=%r -> %s ; other=%r -> %s" % (kind, v, h0, w, h1))
        if h0 != h1:
            ctx.fail(case, "hash changed by %s: %r vs %r" % (kind, v, w))
    else:
        oracle_value(ctx, v, o, rng)
        print("replay: value=%r opts=%r" % (v, o))

"""C18 - the LFU cache is a bounded least-frequently-used map.

proof:           coq/theories/Lfu/{LfuModel,LfuSpec,LfuInv,LfuSpecProps,LfuProofs,
                 LfuRtModel,LfuRtProofs,LfuHeapModel,LfuHeapProofs,LfuConcModel,LfuConcProofs,
                 LfuConcLin,LfuAuxModel,LfuAuxProofs}.v, Properties/C18.v
correspondence:  (a) exhaustive get/set sequences: per-step observations (get
                 output + the walked linked structure) folded into a checksum,
                 summed per first-op group, computed by the model inside Coq
                 and by LFUCache; (b) random long traces compared in full.
                 (d) random traces of get / set(key, report_type, value) /
                 set(key, value=v) against the extension model LfuRtModel.v:
                 every output (content snapshot, not_found, raised) and the
                 walked structure with contents after every step.
                 (e) the POINTER-LEVEL model (LfuHeapModel.v): the full pointer
                 graph of the real CacheNode/FreqNode/LFUCache objects (pre, nxt,
                 freq_node, cache_head, cache_tail, dict, freq_link_head; object
                 ids renamed canonically in walk order) after EVERY step, folded
                 into chained hashes, on the exhaustive sequences (per-group
                 checksums) and on random traces (per-step hashes + final graph).
                 (c) the Coq SPEC (spec_sx, LfuSpec.v) evaluated on the same
                 random traces against the Python reference LFU: outputs and
                 final (key, value, uses) in order.
                 (f) threads: the per-key (value, uses) after a threaded run whose
                 result is interleaving-independent (disjoint keys per thread,
                 no eviction possible; incl. a deterministic forced overlap with a
                 key that parks inside the critical section) against the
                 sequential MODEL on the merged sequence (keyview_sx).
                 (g) threads, interleaving semantics (LfuConcModel.v): deterministic forced
                 schedules (thread 1 parked right BEFORE taking the lock by a recording lock,
                 or INSIDE its critical section by a key whose first hash waits; thread 2
                 runs / blocks meanwhile): the lock-acquisition log, the values returned per
                 thread and the full pointer graph of the shared heap against conc_sx
                 (exec of the small-step semantics under the corresponding schedule).
                 (h) report-type traces against the POINTER-LEVEL report-type model
                 (LfuAuxModel.hset_rt): pointer graph with content checksums after every step.
                 (i) get_sorted_cache_keys / get_average_frequency after every step
                 (LfuAuxModel.h_sorted_keys / h_avg_freq; dict order = list order).
                 (j) arbitrary hashable keys (1 / 1.0 / True, str, bytes, tuples, frozensets,
                 None, big ints, colliding hashes) against the model on key equality classes.
source tie:      (round 5) harness/translate/lfucache.py regenerates a Gallina transcription of lfucache.py
                 (CacheNode / FreqNode / LFUCache methods, plain-value form) from the CURRENT source on every
                 run; coq/srctie/LfuGenEquiv.v proves it equal to LfuHeapModel.v for all arguments and
                 transfers the heap-level theorems (SOURCE_TIES, on_source_tie_break, tie_differencing below).
direct oracle:   an independent reference LFU (victim = min (uses, time of
                 reaching that count)), structural consistency of the linked
                 lists, heap-access monitor (EVERY read/write of a CacheNode / FreqNode field,
                 of LFUCache.cache / .capacity / .freq_link_head and every key-table operation
                 made by get/set happens while the calling thread holds the lock: the
                 hypothesis of C18_conc_linearizable, counted in the evidence as
                 lock_discipline.heap_accesses_outside_lock = 0), threaded workload (one round
                 under the monitor), forced schedules linearizable in lock-acquisition order,
                 DummyLFU stores nothing.
"""
import itertools
import multiprocessing as mp
import random
import sys
import threading

from harness import core

THEOREM_FILE = "Properties/C18.v"
COQCHK = ["Properties.C18"]
RULE = ("exhaustive: every sequence of get/set over 3 keys of length <= L for capacity 1..3 (value written by the t-th op is t); "
        "random: sequences of length <= 200 over <= 8 keys, capacity 1..8; report-type traces: length <= 60 over <= 6 keys, capacity 1..5, "
        "3 report types, values 0..4; statistics traces: length <= 40; arbitrary-key traces: length <= 60 over <= 27 keys of mixed types, capacity 1..6; "
        "forced schedules: 9 two-thread scenarios + 4 forced overlaps; a case is non-trivial when it contains at least one eviction "
        "or one successful get; distinct = distinct (capacity, op sequence)")
TRUSTED = ["LFUCache.set with report_type: get returns the live defaultdict object (a later set mutates it); the model and the harness observe its value at the time of the get",
           "concurrency: C18_conc_linearizable / C18_conc_every_state are proved for EVERY schedule of the interleaving semantics LfuConcModel.v, whose calls have the shape 'acquire; statement-level body; release' with one shared-heap access per step; that lfucache.py has this shape (every heap access of get/set inside the lock: C18_conc_accesses_under_lock) is OBSERVED on every run by the heap-access monitor (evidence: lock_discipline.heap_accesses_outside_lock = 0), not proved about the Python text; threading.Lock's mutual exclusion is assumed (no atomicity of individual accesses is needed: only the lock holder touches the heap); LFUCache.__contains__ is lock-free by design (one dict lookup) and outside these theorems"]
ASSUMPTIONS = ["keys and values are integers in the model (the cache never inspects them beyond hashing/equality); arbitrary hashable keys are compared through their equality classes (stream j)"]

M63 = (1 << 63) - 1


def mix(h, x):
    return (h * 1000003 + x) & M63


def walk(cache):
    """[(freq, [(key, content), ...]), ...] from freq_link_head; also checks the
    internal consistency of the two doubly linked lists and the dict."""
    out = []
    fn = cache.freq_link_head
    prev_f = None
    seen = set()
    nkeys = 0
    while fn is not None:
        if fn.pre is not prev_f:
            raise AssertionError("freq list pre-pointer inconsistent")
        items = []
        cn = fn.cache_head
        prev_c = None
        while cn is not None:
            if cn.pre is not prev_c:
                raise AssertionError("cache list pre-pointer inconsistent")
            if cn.freq_node is not fn:
                raise AssertionError("cache node back-pointer inconsistent")
            if cache.cache.get(cn.key) is not cn:
                raise AssertionError("dict does not map key to its node")
            if id(cn) in seen:
                raise AssertionError("node linked twice")
            seen.add(id(cn))
            items.append((cn.key, cn.content))
            prev_c = cn
            cn = cn.nxt
        if fn.cache_tail is not prev_c:
            raise AssertionError("cache_tail inconsistent")
        out.append((fn.freq, items))
        nkeys += len(items)
        prev_f = fn
        fn = fn.nxt
    if nkeys != len(cache.cache):
        raise AssertionError("dict has %d keys, lists have %d" % (len(cache.cache), nkeys))
    return out


def graph_ints(cache, limit=100000, content=lambda x: x):
    """The FULL pointer graph reachable from freq_link_head as a flat list of ints,
    objects renamed canonically in walk order (-1 = None, -2 = an object outside the
    walk); mirror of LfuHeapShow.graph_ints."""
    fobjs = []
    fn = cache.freq_link_head
    while fn is not None and len(fobjs) < limit:
        fobjs.append(fn)
        fn = fn.nxt
    per_f = []
    n = 0
    for f in fobjs:
        cs = []
        cn = f.cache_head
        while cn is not None and n < limit:
            cs.append(cn)
            n += 1
            cn = cn.nxt
        per_f.append(cs)
    fidx, cidx = {}, {}
    for i, f in enumerate(fobjs):
        fidx.setdefault(id(f), i)
    i = 0
    for cs in per_f:
        for cn in cs:
            cidx.setdefault(id(cn), i)
            i += 1

    def ref(idx, o):
        return -1 if o is None else idx.get(id(o), -2)
    out = [ref(fidx, cache.freq_link_head), len(fobjs), len(cache.cache)]
    for f, cs in zip(fobjs, per_f):
        out += [f.freq, ref(fidx, f.pre), ref(fidx, f.nxt), ref(cidx, f.cache_head), ref(cidx, f.cache_tail), len(cs)]
        for cn in cs:
            out += [getattr(cn.key, "key_id", cn.key), content(cn.content), ref(fidx, cn.freq_node), ref(cidx, cn.pre), ref(cidx, cn.nxt),
                    ref(cidx, cache.cache.get(cn.key))]
    return out


def ghash(h, out, ints):
    h = mix(h, 1) if out is None else mix(h, out + 1 + 2)
    for z in ints:
        h = mix(h, z)
    return h


def obs(h, op, out, structure):
    kind, k, v = op
    if kind == "get":
        h = mix(h, k + 1 + 11)
        h = mix(h, 1) if out is None else mix(h, out + 1 + 2)
    else:
        h = mix(mix(h, k + 1 + 5), v + 1)
    h = mix(h, 3)
    for freq, items in structure:
        h = mix(h, freq + 7)
        for (kk, vv) in items:
            h = mix(mix(h, kk + 1), vv + 1)
    return h


class RefLFU:
    """Independent reference: bounded map, victim = fewest uses, oldest at that count."""

    def __init__(self, cap):
        self.cap = cap
        self.d = {}          # key -> [value, uses, stamp]
        self.clock = 0

    def get(self, k):
        self.clock += 1
        if k in self.d:
            e = self.d[k]
            e[1] += 1
            e[2] = self.clock
            return e[0]
        return None

    def set(self, k, v):
        self.clock += 1
        if k in self.d:
            self.d[k][0] = v
            return
        if len(self.d) >= self.cap:
            victim = min(self.d, key=lambda q: (self.d[q][1], self.d[q][2]))
            del self.d[victim]
        self.d[k] = [v, 0, self.clock]


def ref_trace(cap, ops):
    """The reference alone: get outputs and the final entries (key, value, uses)
    ordered by the time each reached its current count (the order of the Coq
    spec's list)."""
    ref = RefLFU(cap)
    outs = []
    for kind, k, v in ops:
        if kind == "get":
            outs.append(ref.get(k))
        else:
            ref.set(k, v)
    ents = sorted(ref.d.items(), key=lambda kv: kv[1][2])
    return outs, [[k, e[0], e[1]] for k, e in ents]


def run_impl(cap, ops, want_hash=True):
    """Run one sequence on the real LFUCache next to the reference.
    Returns (final checksum, outs, structure, error-or-None, flags); run_impl.gh holds
    the chained per-step hashes of (output, full pointer graph) of the last call."""
    from deepdiff.lfucache import LFUCache
    from deepdiff.helper import not_found
    c = LFUCache(cap)
    ref = RefLFU(cap)
    h = 0
    outs = []
    err = None
    evicted = hit = False
    st = []
    g = 0
    ghs = run_impl.gh = []
    run_impl.graph = []
    for i, op in enumerate(ops):
        kind, k, v = op
        try:
            if kind == "get":
                r = c.get(k)
                out = None if r is not_found else r
                outs.append(out)
                exp = ref.get(k)
                if out != exp and err is None:
                    err = "step %d: get(%r) returned %r, a bounded LFU map returns %r" % (i, k, out, exp)
                if out is not None:
                    hit = True
            else:
                if k not in ref.d and len(ref.d) >= cap:
                    evicted = True
                c.set(k, value=v)
                out = None
                ref.set(k, v)
            st = walk(c)
            run_impl.graph = graph_ints(c)
            g = ghash(g, out, run_impl.graph)
            ghs.append(g)
        except Exception as e:  # the cache must never raise or become inconsistent
            return h, outs, st, "step %d: %s: %s" % (i, type(e).__name__, e), (evicted, hit)
        if err is None:
            if len(c.cache) > cap:
                err = "step %d: holds %d keys, capacity %d" % (i, len(c.cache), cap)
            elif set(c.cache.keys()) != set(ref.d.keys()):
                err = "step %d: keys %r, a bounded LFU map holds %r" % (i, sorted(c.cache.keys()), sorted(ref.d.keys()))
            else:
                uses = {kk: f for f, items in st for kk, _ in items}
                if uses != {kk: e[1] for kk, e in ref.d.items()}:
                    err = "step %d: use counts %r, expected %r" % (i, uses, {kk: e[1] for kk, e in ref.d.items()})
                elif any((kk in c) != (kk in ref.d) for kk in range(0, 9)):
                    err = "step %d: __contains__ disagrees with content" % i
        if want_hash:
            h = obs(h, op, out, st)
    return h, outs, st, err, (evicted, hit)


def ops_of(idx_seq):
    """op indices 0..2*nkeys-1 -> ops; index 2k = get k, 2k+1 = set k; value = position (1-based)."""
    return [("get", i // 2, 0) if i % 2 == 0 else ("set", i // 2, t + 1) for t, i in enumerate(idx_seq)]


def _group_task(args):
    nkeys, maxlen, cap, first2 = args
    sys.path.insert(0, core.REPO)
    total = 0
    gtotal = 0
    n = 0
    nontriv = 0
    bad = []
    A = 2 * nkeys
    for L in range(len(first2), maxlen + 1):
        for rest in itertools.product(range(A), repeat=L - len(first2)):
            seq = tuple(first2) + rest
            ops = ops_of(seq)
            h, _outs, _st, err, (ev, hit) = run_impl(cap, ops)
            total = (total + h) & M63
            gtotal = (gtotal + (run_impl.gh[-1] if len(run_impl.gh) == len(ops) else 0)) & M63
            n += 1
            if ev or hit:
                nontriv += 1
            if err and len(bad) < 3:
                bad.append({"capacity": cap, "ops": ops, "error": err})
    return (cap, first2, total, n, nontriv, bad, gtotal)


def exhaustive(ctx, nkeys, maxlen):
    A = 2 * nkeys
    caps = [1, 2, 3]
    tasks = []
    for cap in caps:
        for a in range(A):
            tasks.append((nkeys, 1, cap, (a,)))            # the length-1 sequence itself
            for b in range(A):
                tasks.append((nkeys, maxlen, cap, (a, b)))
    with mp.get_context("fork").Pool(core.NCPU) as pool:
        res = pool.map(_group_task, tasks, chunksize=1)
    sums = {}
    gsums = {}
    n = nontriv = 0
    for cap, first2, total, cnt, nt, bad, gtotal in res:
        key = (cap, first2[0])
        sums[key] = (sums.get(key, 0) + total) & M63
        gsums[key] = (gsums.get(key, 0) + gtotal) & M63
        n += cnt
        nontriv += nt
        for b in bad:
            ctx.fail(b, "LFUCache deviates from a bounded LFU map: " + b["error"])
    ctx.evaluations += n
    ctx.note("exhaustive_sequences", {"keys": nkeys, "max_len": maxlen, "capacities": caps, "sequences": n,
                                      "with_eviction_or_hit": nontriv})
    ctx.note("exhaustive", True)
    ctx.nontrivial.update(("ex", i) for i in range(nontriv))  # distinct by construction (enumeration)
    # model side: one coqc per capacity
    import concurrent.futures as cf

    def model(arg):
        cap, heap = arg
        if heap:     # pointer-level model: full pointer graph after every step
            return cap, heap, ctx.coq_eval("lfu_hgroups_%d" % cap, "From DD Require Import Lfu.LfuModel Lfu.LfuShow Lfu.LfuHeapModel Lfu.LfuHeapShow.",
                                           '"BEGIN" ++ nl ++ show_Hs (all_hgroups %d %d %d) ++ "END"' % (nkeys, maxlen - 1, cap))
        return cap, heap, ctx.coq_eval("lfu_groups_%d" % cap, "From DD Require Import Lfu.LfuModel Lfu.LfuShow.",
                                       '"BEGIN" ++ nl ++ show_Hs (all_groups %d %d %d) ++ "END"' % (nkeys, maxlen - 1, cap))
    with cf.ThreadPoolExecutor(6) as ex:
        mres = list(ex.map(model, [(c_, hp) for c_ in caps for hp in (False, True)]))
    groups = 0
    for cap, heap, txt in mres:
        if txt is None:
            continue
        vals = [int(x) for x in txt.split()]
        ref_sums = gsums if heap else sums
        for a in range(A):
            groups += 1
            if vals[a] != ref_sums[(cap, a)]:
                ctx.corr_mismatch += 1
                ctx.break_("correspondence", {"name": "lfu_exhaustive_heap" if heap else "lfu_exhaustive", "capacity": cap,
                                              "first_op": ops_of((a,))[0], "model_checksum": vals[a], "impl_checksum": ref_sums[(cap, a)],
                                              "meaning": ("some sequence starting with this op yields a different get output or POINTER GRAPH "
                                                          "(pre/nxt/freq_node/cache_head/cache_tail/dict, canonical ids)") if heap else
                                                         "some sequence starting with this op yields a different get output or linked structure"})
    ctx.corr_cases += n
    ctx.count("corr_cases:exhaustive_sequences", n)
    ctx.count("corr_groups", groups)


def coq_ops(ops):
    return "[" + "; ".join("OGet %s" % core.coq_Z(k) if kind == "get" else "OSet %s %s" % (core.coq_Z(k), core.coq_Z(v))
                           for kind, k, v in ops) + "]"


def gen_random(rng, maxlen):
    nk = rng.choice([2, 3, 4, 5, 8])
    cap = rng.randint(1, 8)
    L = rng.randint(1, maxlen)
    pget = rng.choice([0.3, 0.5, 0.7])
    hot = rng.randrange(nk)
    ops = []
    for t in range(L):
        k = hot if rng.random() < 0.3 else rng.randrange(nk)
        if rng.random() < pget:
            ops.append(("get", k, 0))
        else:
            ops.append(("set", k, rng.randint(-3, 50)))
    return cap, ops


def random_traces(ctx, n, maxlen):
    cases = []
    spec_cases = []
    for i in range(n):
        cap, ops = gen_random(ctx.rng, maxlen)
        h, outs, st, err, (ev, hit) = run_impl(cap, ops)
        # the Coq specification (LfuSpec.v, evaluated inside Coq) against the Python
        # reference that serves as direct oracle: ties the spec the theorems are
        # stated against to the oracle, independently of the model
        routs, rents = ref_trace(cap, ops)
        spec_cases.append(("spec_sx %d %s" % (cap, coq_ops(ops)),
                           [[("Some", o) if o is not None else None for o in routs], rents],
                           {"capacity": cap, "ops": ops, "what": "Coq spec vs Python reference LFU"}))
        ctx.seen((cap, tuple(ops)), nontrivial=ev or hit)
        ctx.count("random:len<=20" if len(ops) <= 20 else "random:len>20")
        if ev:
            ctx.count("random:with_eviction")
        if err:
            ctx.fail({"capacity": cap, "ops": ops, "error": err}, "LFUCache deviates from a bounded LFU map: " + err)
        # hashes per step
        hs, hh = [], 0
        from deepdiff.lfucache import LFUCache
        from deepdiff.helper import not_found
        c = LFUCache(cap)
        try:
            for op in ops:
                if op[0] == "get":
                    r = c.get(op[1]); out = None if r is not_found else r
                else:
                    c.set(op[1], value=op[2]); out = None
                hh = obs(hh, op, out, walk(c)); hs.append(hh)
        except Exception:
            pass
        exp = [[("Some", o) if o is not None else None for o in outs],
               [[f, [[k, v] for k, v in items]] for f, items in st], hs]
        cases.append(("trace_sx %d %s" % (cap, coq_ops(ops)), exp, {"capacity": cap, "ops": ops}))
        if i < 2:
            ctx.sample({"capacity": cap, "ops": ops[:30], "final_structure": st})
    ctx.coq_cases("lfu_traces", "From DD Require Import Lfu.LfuModel Lfu.LfuShow.\nLocal Open Scope Z_scope.", cases, shard=100, label="random_traces")
    ctx.coq_cases("lfu_spec_traces", "From DD Require Import Lfu.LfuModel Lfu.LfuShow.\nLocal Open Scope Z_scope.", spec_cases, shard=100, label="spec_vs_reference")


def heap_traces(ctx, n, maxlen):
    """Pointer-level model (LfuHeapModel.v) against the real objects: after every step the
    FULL pointer graph (canonical ids) is folded into a chained hash; outputs and the final
    graph are compared in full."""
    cases = []
    for i in range(n):
        cap, ops = gen_random(ctx.rng, maxlen)
        h, outs, st, err, (ev, hit) = run_impl(cap, ops)
        ctx.seen(("heap", cap, tuple(ops)), nontrivial=ev or hit)
        ctx.count("heap:traces")
        if err:
            ctx.fail({"capacity": cap, "ops": ops, "error": err}, "LFUCache deviates from a bounded LFU map: " + err)
        if len(run_impl.gh) == len(ops):
            cases.append(("heap_trace_sx %d %s" % (cap, coq_ops(ops)),
                          [list(run_impl.gh), [("Some", o) if o is not None else None for o in outs], list(run_impl.graph)],
                          {"capacity": cap, "ops": ops, "what": "pointer graph of the real objects vs heap model"}))
    ctx.coq_cases("lfu_heap_traces", "From DD Require Import Lfu.LfuModel Lfu.LfuShow Lfu.LfuHeapModel Lfu.LfuHeapShow.\nLocal Open Scope Z_scope.",
                  cases, shard=20, label="heap_pointer_graph_traces")


# ---- set(key, report_type, value) -------------------------------------------

RT_NAMES = {1: "values_changed", 2: "type_changes", 3: "iterable_item_added"}
RT_IDS = {v: k for k, v in RT_NAMES.items()}


def snap(content):
    """content of a node -> observable: plain int or defaultdict(SetOrdered)"""
    if isinstance(content, dict):
        return ["rep", [[RT_IDS[r], list(vs)] for r, vs in content.items()]]
    return ["val", content]


def content_code(content):
    """mirror of LfuAuxShow.content_code (63-bit wrap-around checksums)"""
    if isinstance(content, dict):
        a = 2
        for r, vs in content.items():
            b = mix(a, RT_IDS[r] + 10)
            for v in vs:
                b = mix(b, v + 100)
            a = mix(b, 7)
        return a
    return mix(1, content + 50)


def graph_code(cache):
    a = 0
    for z in graph_ints(cache, content=content_code):
        a = mix(a, z)
    return a


def gen_random_rt(rng, maxlen):
    nk = rng.choice([2, 3, 4, 6])
    cap = rng.randint(1, 5)
    L = rng.randint(1, maxlen)
    pget = rng.choice([0.3, 0.5])
    mode = {k: rng.random() < 0.6 for k in range(nk)}       # key mostly used with / without report types
    ops = []
    for _ in range(L):
        k = rng.randrange(nk)
        if rng.random() < pget:
            ops.append(("get", k, 0, None))
        else:
            with_rt = mode[k] if rng.random() < 0.85 else not mode[k]
            ops.append(("set", k, rng.randint(0, 4), rng.choice([1, 2, 3]) if with_rt else None))
    return cap, ops


def coq_rops(ops):
    out = []
    for kind, k, v, rt in ops:
        if kind == "get":
            out.append("RGet %s" % core.coq_Z(k))
        else:
            out.append("RSet %s %s %s" % (core.coq_Z(k), "None" if rt is None else "(Some %s)" % core.coq_Z(rt), core.coq_Z(v)))
    return "[" + "; ".join(out) + "]"


def run_impl_rt(cap, ops):
    """LFUCache with report types next to the reference (contents: int or {rt: [values]})."""
    from deepdiff.lfucache import LFUCache
    from deepdiff.helper import not_found
    c = LFUCache(cap)
    ref = RefLFU(cap)
    outs, states, err = [], [], None
    gcodes = run_impl_rt.gcodes = []
    run_impl_rt.graph = None
    flags = {"evicted": False, "hit": False, "raised": False}
    for i, (kind, k, v, rt) in enumerate(ops):
        try:
            if kind == "get":
                r = c.get(k)
                exp = ref.get(k)
                if r is not_found:
                    outs.append("not_found")
                    got = None
                else:
                    got = snap(r)
                    outs.append(["got", got])
                    flags["hit"] = True
                want = None if exp is None else snap(exp)
                if got != want and err is None:
                    err = "step %d: get(%r) returned %r, expected %r" % (i, k, got, want)
            else:
                # reference semantics of the content
                exp_raise = False
                if k in ref.d:
                    cur = ref.d[k][0]
                    if rt is not None:
                        if not isinstance(cur, dict):
                            exp_raise = True
                        else:
                            new = {r_: list(vs) for r_, vs in cur.items()}
                            new.setdefault(RT_NAMES[rt], [])
                            if v not in new[RT_NAMES[rt]]:
                                new[RT_NAMES[rt]].append(v)
                    else:
                        new = v
                else:
                    new = {RT_NAMES[rt]: [v]} if rt is not None else v
                    if len(ref.d) >= cap:
                        flags["evicted"] = True
                try:
                    c.set(k, report_type=RT_NAMES[rt] if rt is not None else None, value=v)
                    raised = False
                except TypeError:
                    raised = True
                    flags["raised"] = True
                outs.append("raised" if raised else "done")
                if not exp_raise:
                    ref.set(k, new)
                if raised != exp_raise and err is None:
                    err = "step %d: set(%r, %r, %r) raised=%r, expected raised=%r" % (i, k, rt, v, raised, exp_raise)
            st = walk(c)
            gcodes.append(graph_code(c))
            run_impl_rt.graph = graph_ints(c, content=content_code)
        except Exception as e:
            return outs, states, "step %d: %s: %s" % (i, type(e).__name__, e), flags
        states.append([[f, [[kk, snap(cc)] for kk, cc in items]] for f, items in st])
        if err is None:
            if len(c.cache) > cap:
                err = "step %d: holds %d keys, capacity %d" % (i, len(c.cache), cap)
            elif set(c.cache.keys()) != set(ref.d.keys()):
                err = "step %d: keys %r, a bounded LFU map holds %r" % (i, sorted(c.cache.keys()), sorted(ref.d.keys()))
            else:
                uses = {kk: f for f, items in st for kk, _ in items}
                if uses != {kk: e[1] for kk, e in ref.d.items()}:
                    err = "step %d: use counts %r, expected %r" % (i, uses, {kk: e[1] for kk, e in ref.d.items()})
    return outs, states, err, flags


def rt_traces(ctx, n, maxlen):
    cases = []
    hcases = []      # the same traces against the POINTER-LEVEL report-type model (LfuAuxModel.hset_rt)
    for i in range(n):
        cap, ops = gen_random_rt(ctx.rng, maxlen)
        outs, states, err, flags = run_impl_rt(cap, ops)
        ctx.seen(("rt", cap, tuple(ops)), nontrivial=flags["evicted"] or flags["hit"])
        ctx.count("rt:traces")
        if flags["raised"]:
            ctx.count("rt:with_raise")
        if flags["evicted"]:
            ctx.count("rt:with_eviction")
        if err:
            ctx.fail({"capacity": cap, "rt_ops": ops, "error": err}, "LFUCache with report types deviates from a bounded LFU map: " + err)
        cops = coq_rops(ops)
        if len(run_impl_rt.gcodes) == len(ops) and (ctx.thorough or i < 40):
            hcases.append(("rt_heap_sx %d %s" % (cap, cops), [outs, list(run_impl_rt.gcodes), list(run_impl_rt.graph)],
                           {"capacity": cap, "rt_ops": ops, "what": "pointer graph (contents as checksums) of the real objects after every step vs heap model"}))
        cases.append(("rt_outs_sx %d %s" % (cap, cops), [outs, states[-1] if states else []], {"capacity": cap, "rt_ops": ops}))
        for j in range(0, (len(ops) + 9) // 10):
            cases.append(("rt_states_sx %d %s %d" % (cap, cops, j), states[10 * j:10 * j + 10],
                          {"capacity": cap, "rt_ops": ops, "structures_after_steps": [10 * j, 10 * j + 9]}))
        if i < 1:
            ctx.sample({"capacity": cap, "rt_ops": ops[:20], "outs": outs[:20]})
    ctx.coq_cases("lfu_rt_traces", "From DD Require Import Lfu.LfuModel Lfu.LfuRtModel Lfu.LfuRtShow.\nLocal Open Scope Z_scope.",
                  cases, shard=30, label="report_type_traces")
    ctx.coq_cases("lfu_rt_heap_traces", "From DD Require Import Lfu.LfuModel Lfu.LfuRtModel Lfu.LfuRtShow Lfu.LfuAuxModel Lfu.LfuAuxShow.\nLocal Open Scope Z_scope.",
                  hcases, shard=20, label="report_type_pointer_graph_traces")  # small shards: Sx.run_cases overflows the VM stack when a shard has ~100 mismatches


# ---- get_sorted_cache_keys / get_average_frequency / DummyLFU / arbitrary hashable keys ----

def aux_observers(ctx, n, maxlen):
    """get_sorted_cache_keys() and get_average_frequency() after EVERY step of random traces.
    Inside the property (its observation point for the use counts): the (key, uses) pairs
    reported are exactly those of the reference LFU.  Beyond the property's text, recorded as
    EXTENSION "Stats" (never a violation): the exact ORDER (descending uses, ties in key-table
    order - the reference's dict has the same insertion order: evicted keys leave, new keys
    are appended, overwritten keys stay), the average, and the correspondence with
    LfuAuxModel.v (h_sorted_keys / h_avg_freq on the heap model, evaluated in Coq)."""
    from deepdiff.lfucache import LFUCache
    from fractions import Fraction
    from statistics import StatisticsError
    cases = []
    ext_fails = []

    def observe(c):
        ks = [[k, f] for k, f in c.get_sorted_cache_keys()]
        try:
            m = c.get_average_frequency()
            fr = Fraction(m).limit_denominator(100000)
            av = [fr.numerator, fr.denominator]
        except StatisticsError:
            av = "StatisticsError"
        return [ks, av]
    for i in range(n):
        cap, ops = gen_random(ctx.rng, maxlen)
        c = LFUCache(cap)
        ref = RefLFU(cap)
        steps = [observe(c)]
        bad = ext_bad = None
        for j, (kind, k, v) in enumerate(ops):
            if kind == "get":
                c.get(k); ref.get(k)
            else:
                c.set(k, value=v); ref.set(k, v)
            o = observe(c)
            steps.append(o)
            want = sorted(([kk, e[1]] for kk, e in ref.d.items()), key=lambda x: -x[1])
            if sorted(o[0]) != sorted(want) and bad is None:
                bad = "step %d: get_sorted_cache_keys() reports (key, uses) %r, a bounded LFU map holds %r" % (j, o[0], want)
            if o[0] != want and ext_bad is None:
                ext_bad = "step %d: get_sorted_cache_keys() = %r, expected %r (descending uses, ties in key-table order)" % (j, o[0], want)
            if ref.d:
                fr = Fraction(sum(e[1] for e in ref.d.values()), len(ref.d))
                if o[1] != [fr.numerator, fr.denominator] and ext_bad is None:
                    ext_bad = "step %d: get_average_frequency() = %r, expected %r" % (j, o[1], fr)
        ctx.seen(("aux", cap, tuple(ops)), nontrivial=len(ops) > 3)
        ctx.count("aux:traces")
        case = {"kind": "aux_observers", "capacity": cap, "ops": ops}
        if bad:
            ctx.fail(dict(case, error=bad), "the use counts reported by get_sorted_cache_keys deviate from a bounded LFU map: " + bad)
        elif ext_bad:
            ext_fails.append((dict(case, error=ext_bad), "LFUCache statistics: " + ext_bad))
        cases.append(("aux_sx %d %s" % (cap, coq_ops(ops)), steps, case))
    with ctx.extension("Stats"):
        for cse, what in ext_fails[:20]:
            ctx.fail(cse, what)
        ctx.coq_cases("lfu_aux", "From DD Require Import Lfu.LfuModel Lfu.LfuShow Lfu.LfuHeapModel Lfu.LfuAuxModel Lfu.LfuAuxShow.\nLocal Open Scope Z_scope.",
                      cases, shard=25, label="sorted_keys_and_average_frequency")


class CollidingKey:
    """value-equal instances are the same key; all instances share one hash bucket"""

    def __init__(self, v):
        self.v = v

    def __hash__(self):
        return 7

    def __eq__(self, other):
        return isinstance(other, CollidingKey) and other.v == self.v

    def __repr__(self):
        return "CollidingKey(%r)" % (self.v,)


def key_pool():
    return [1, 1.0, True, 0, -0.0, False, "a", b"a", "", ("t", 1), ("t", 1.0), (), None, frozenset({1, 2}), frozenset({2, 1}),
            2 ** 70, -(2 ** 70), 1.5, float("inf"), "\u00e9", "e\u0301", CollidingKey(1), CollidingKey(2), CollidingKey(1), 7, int, len]


def nonint_keys(ctx, n, maxlen):
    """Arbitrary hashable keys (equal keys of different types such as 1 / 1.0 / True, strings,
    bytes, tuples, frozensets, None, big ints, keys with colliding hashes): the cache behaves
    as the MODEL does on the keys' equality classes (class index = first position of an equal
    key in the pool); direct oracle: the reference LFU on the real keys."""
    from deepdiff.lfucache import LFUCache
    from deepdiff.helper import not_found
    pool = key_pool()
    ids = {}
    for x in pool:
        ids.setdefault(x, len(ids))
    cases = []
    for i in range(n):
        nk = ctx.rng.choice([3, 5, 8, len(pool)])
        keys = ctx.rng.sample(pool, nk)
        cap = ctx.rng.randint(1, 6)
        L = ctx.rng.randint(1, maxlen)
        ops = []
        for _ in range(L):
            k = ctx.rng.choice(keys)
            ops.append(("get", k, 0) if ctx.rng.random() < 0.45 else ("set", k, ctx.rng.randint(-3, 50)))
        c = LFUCache(cap)
        ref = RefLFU(cap)
        outs, err, st = [], None, []
        hit = ev = False
        try:
            for j, (kind, k, v) in enumerate(ops):
                if kind == "get":
                    r = c.get(k)
                    out = None if r is not_found else r
                    outs.append(out)
                    exp = ref.get(k)
                    hit = hit or out is not None
                    if out != exp and err is None:
                        err = "step %d: get(%r) returned %r, a bounded LFU map returns %r" % (j, k, out, exp)
                else:
                    ev = ev or (k not in ref.d and len(ref.d) >= cap)
                    c.set(k, value=v)
                    ref.set(k, v)
                if (k in c) != (k in ref.d) and err is None:
                    err = "step %d: __contains__(%r) disagrees with the content" % (j, k)
            st = walk(c)
        except Exception as e:
            err = err or "%s: %s" % (type(e).__name__, e)
        mops = [(kind, ids[k], v) for kind, k, v in ops]
        ctx.seen(("nonint", cap, tuple(mops)), nontrivial=hit or ev)
        ctx.count("keys:arbitrary_hashable_traces")
        case = {"kind": "nonint_keys", "capacity": cap, "ops": [[kind, repr(k), v] for kind, k, v in ops], "ops_on_key_classes": mops}
        if err:
            ctx.fail(dict(case, error=err), "LFUCache with non-integer keys deviates from a bounded LFU map: " + err)
        exp = [[("Some", o) if o is not None else None for o in outs],
               [[f, [[ids[k], v] for k, v in items]] for f, items in st]]
        cases.append(("SL (firstn 2 (match trace_sx %d %s with SL l => l | x => [x] end))" % (cap, coq_ops(mops)), exp, case))
    ctx.coq_cases("lfu_nonint_keys", "From DD Require Import Lfu.LfuModel Lfu.LfuShow.\nLocal Open Scope Z_scope.", cases, shard=50,
                  label="arbitrary_hashable_keys_vs_model")


def dummy_lfu(ctx, n):
    """DummyLFU (the cache used when caching is switched off): accepts any constructor arguments,
    get and set do nothing and return None, nothing is ever contained (LfuAuxModel.dummy_step)."""
    from deepdiff.lfucache import DummyLFU
    pool = key_pool()
    for i in range(n):
        args = [(), (5,), (0,), ("x", None)][i % 4]
        d = DummyLFU(*args, **({"capacity": 3} if i % 2 else {}))
        bad = None
        for _ in range(20):
            k = ctx.rng.choice(pool)
            if ctx.rng.random() < 0.5:
                r = d.get(k)
                what = "get(%r)" % (k,)
            else:
                r = d.set(k, value=ctx.rng.randint(0, 9)) if ctx.rng.random() < 0.5 else d.set(k, "values_changed", 1)
                what = "set(%r, ...)" % (k,)
            if r is not None:
                bad = "%s returned %r" % (what, r)
            if k in d:
                bad = "%r in DummyLFU() is True" % (k,)
        ctx.seen(("dummy", i), nontrivial=False)
        ctx.count("dummy_lfu:instances")
        if bad:
            ctx.fail({"kind": "dummy_lfu", "error": bad}, "DummyLFU stores or returns something: " + bad)


# ---- concurrency ------------------------------------------------------------

class _RecLock:
    def __init__(self):
        self._l = threading.Lock()
        self.held_by = None
        self.acquisitions = 0

    def acquire(self, *a, **k):
        r = self._l.acquire(*a, **k)
        if r:
            self.held_by = threading.get_ident()
            self.acquisitions += 1
        return r

    def release(self):
        self.held_by = None
        self._l.release()

    __enter__ = acquire

    def __exit__(self, *a):
        self.release()

    def locked(self):
        return self._l.locked()


NODE_FIELDS = {"CacheNode": ("key", "content", "freq_node", "pre", "nxt"),
               "FreqNode": ("freq", "pre", "nxt", "cache_head", "cache_tail"),
               "LFUCache": ("cache", "capacity", "freq_link_head")}


# fields never written after the object is built: reading them without the lock cannot race
IMMUTABLE_READS = ("LFUCache.capacity (read)", "CacheNode.key (read)", "FreqNode.freq (read)")


class HeapMonitor:
    """Observes, on the real code, the hypothesis of the linearizability theorem
    (C18_conc_accesses_under_lock): EVERY access to the shared heap made by get / set -
    every read or write of a field of a CacheNode / FreqNode, of LFUCache.cache /
    .capacity / .freq_link_head, and every operation on the key table - happens while the
    cache's lock is held by the accessing thread.  CacheNode / FreqNode are replaced (in this
    process only) by recording subclasses, the cache is a recording subclass of LFUCache,
    the key table a recording dict, the lock a recording lock.  `accesses` / `outside`
    count what was seen while a thread was inside a get / set call."""

    def __init__(self):
        import deepdiff.lfucache as L
        self.L = L
        self.tl = threading.local()
        self.accesses = 0
        self.calls = 0
        self.outside = []
        self.benign = []
        self.events = None              # when a list: the heap WRITES of the current call, in order
        self.nid = {"CacheNode": 0, "FreqNode": 0}
        mon = self

        def event(e):
            if mon.events is not None and getattr(mon.tl, "active", False) and not getattr(mon.tl, "constructing", 0):
                mon.events.append(e)

        def seen(obj_lock, what):
            if getattr(mon.tl, "active", False):
                mon.accesses += 1
                if obj_lock is None or obj_lock.held_by != threading.get_ident():
                    if what in IMMUTABLE_READS:
                        mon.benign.append(what)      # a field that is never written after construction
                    else:
                        mon.outside.append(what)

        def recording(base, kind, lock_of):
            fields = NODE_FIELDS[kind]

            class Rec(base):
                def __init__(self, *a, **k):
                    if kind != "LFUCache":
                        object.__setattr__(self, "_vid", mon.nid[kind])     # = the model's allocation counter
                        mon.nid[kind] += 1
                        event(["new" + kind[0], object.__getattribute__(self, "_vid")])
                    mon.tl.constructing = getattr(mon.tl, "constructing", 0) + 1
                    try:
                        base.__init__(self, *a, **k)
                    finally:
                        mon.tl.constructing -= 1

                def __getattribute__(self, name):
                    if name in fields:
                        seen(lock_of(self), kind + "." + name + " (read)")
                    return object.__getattribute__(self, name)

                def __setattr__(self, name, value):
                    if name in fields:
                        seen(lock_of(self), kind + "." + name + " (write)")
                        event("head" if kind == "LFUCache" else [kind[0], object.__getattribute__(self, "_vid"), name])
                    object.__setattr__(self, name, value)
            Rec.__name__ = base.__name__
            return Rec
        self.cur_lock = [None]          # nodes do not know their cache: one monitored cache at a time
        self.CacheNode = recording(L.CacheNode, "CacheNode", lambda o: mon.cur_lock[0])
        self.FreqNode = recording(L.FreqNode, "FreqNode", lambda o: mon.cur_lock[0])
        self.LFUCache = recording(L.LFUCache, "LFUCache", lambda o: mon.cur_lock[0])

        class Table(dict):
            pass

        def guard(name):
            orig = getattr(dict, name)

            def f(self, *a, **k):
                seen(mon.cur_lock[0], "key table " + name)
                if name == "__setitem__":
                    event(["dset", getattr(a[0], "key_id", a[0])])
                elif name == "pop":
                    event(["dpop", getattr(a[0], "key_id", a[0])])
                return orig(self, *a, **k)
            return f
        for name in ("__getitem__", "__setitem__", "__contains__", "pop", "__len__", "__delitem__", "get", "items", "values", "keys", "__iter__"):
            setattr(Table, name, guard(name))
        self.Table = Table

    def __enter__(self):
        self.saved = (self.L.CacheNode, self.L.FreqNode)
        self.L.CacheNode, self.L.FreqNode = self.CacheNode, self.FreqNode
        return self

    def __exit__(self, *a):
        self.L.CacheNode, self.L.FreqNode = self.saved

    def cache(self, cap, lock):
        c = self.LFUCache(cap)
        c.lock = lock
        c.cache = self.Table()
        self.cur_lock[0] = lock
        self.nid = {"CacheNode": 0, "FreqNode": 0}
        return c

    def call(self, c, op, key=None):
        """one monitored get / set; returns the output (None for not_found / a set)"""
        from deepdiff.helper import not_found
        kind, k, v = op
        key = k if key is None else key
        self.tl.active = True
        try:
            self.calls += 1
            if kind == "get":
                r = c.get(key)
                return None if r is not_found else r
            c.set(key, value=v)
            return None
        finally:
            self.tl.active = False


def lock_monitor(ctx, nseq):
    """Lock discipline on random sequential sequences (see HeapMonitor)."""
    with HeapMonitor() as mon:
        for _ in range(nseq):
            cap, ops = gen_random(ctx.rng, 30)
            lk = _RecLock()
            c = mon.cache(cap, lk)
            for op in ops:
                mon.call(c, op)
            if lk.acquisitions < len(ops):
                mon.outside.append("operation ran without taking the lock")
            if mon.outside:
                ctx.fail({"capacity": cap, "ops": ops, "unlocked_access": sorted(set(mon.outside))},
                         "LFUCache.get/set touches the shared structure without holding the lock (concurrent use can corrupt it): "
                         + ", ".join(sorted(set(mon.outside))[:4]))
                break
    ctx.note("lock_monitor_ops", mon.calls)
    DISCIPLINE["calls"] += mon.calls
    DISCIPLINE["heap_accesses_observed"] += mon.accesses
    DISCIPLINE["heap_accesses_outside_lock"] += len(mon.outside)
    DISCIPLINE["reads_of_immutable_fields_outside_lock"] += len(mon.benign)


def step_order(ctx, n, maxlen):
    """EXTENSION "StepOrder" (recorded, never a violation: an equivalent reordering of independent
    writes is not a defect): the ORDER of the heap writes of every single get / set on the real
    objects - field writes of CacheNode / FreqNode (object = allocation number), allocations,
    key-table writes, freq_link_head writes - against the write steps of the step program
    op_prog o of LfuConcModel.v run from the same state (wsteps_sx): a per-step correspondence
    of the 'acquire; body; release' shape, not only of the resulting heap."""
    cases = []
    with HeapMonitor() as mon:
        for i in range(n):
            cap, ops = gen_random(ctx.rng, maxlen)
            c = mon.cache(cap, _RecLock())
            per_op = []
            for op in ops:
                mon.events = []
                mon.call(c, op)
                per_op.append(mon.events)
                mon.events = None
            ctx.seen(("step_order", cap, tuple(ops)), nontrivial=len(ops) > 3)
            ctx.count("step_order:traces")
            ctx.count("step_order:writes", sum(len(e) for e in per_op))
            cases.append(("wsteps_sx %d %s" % (cap, coq_ops(ops)), per_op,
                          {"kind": "step_order", "capacity": cap, "ops": ops, "what": "order of heap writes per call: real objects vs step program"}))
    with ctx.extension("StepOrder"):
        ctx.coq_cases("lfu_step_order", "From DD Require Import Lfu.LfuModel Lfu.LfuShow Lfu.LfuHeapModel Lfu.LfuConcModel Lfu.LfuConcShow.\nLocal Open Scope Z_scope.",
                      cases, shard=20, label="write_order_per_call_vs_step_program")


# what the recording monitors saw in this run (written to the evidence by run())
DISCIPLINE = {"calls": 0, "heap_accesses_observed": 0, "heap_accesses_outside_lock": 0, "reads_of_immutable_fields_outside_lock": 0,
              "calls_under_forced_overlap": 0, "calls_under_thread_stress": 0}


def threaded(ctx, rounds, nthreads=8, nops=4000):
    from deepdiff.lfucache import LFUCache
    old = sys.getswitchinterval()
    sys.setswitchinterval(1e-6)
    try:
        for r in range(rounds):
            cap = ctx.rng.choice([1, 2, 3, 5])
            # round 0 runs under the heap-access monitor: the lock discipline observed under real contention
            mon = HeapMonitor() if r == 0 else None
            if mon:
                mon.__enter__()
                c = mon.cache(cap, _RecLock())
            else:
                c = LFUCache(cap)
            errs = []
            seeds = [ctx.rng.randrange(1 << 30) for _ in range(nthreads)]
            n_here = nops // 4 if mon else nops

            def work(seed):
                rr = random.Random(seed)
                try:
                    for _ in range(n_here):
                        k = rr.randrange(6)
                        op = ("get", k, 0) if rr.random() < 0.5 else ("set", k, rr.randrange(100))
                        if mon:
                            mon.call(c, op)
                        elif op[0] == "get":
                            c.get(k)
                        else:
                            c.set(k, value=op[2])
                except Exception as e:
                    errs.append("%s: %s" % (type(e).__name__, e))
            ts = [threading.Thread(target=work, args=(s,)) for s in seeds]
            try:
                for t in ts:
                    t.start()
                for t in ts:
                    t.join()
            finally:
                if mon:
                    mon.__exit__()
            if mon:
                DISCIPLINE["calls"] += mon.calls
                DISCIPLINE["calls_under_thread_stress"] += mon.calls
                DISCIPLINE["heap_accesses_observed"] += mon.accesses
                DISCIPLINE["heap_accesses_outside_lock"] += len(mon.outside)
                DISCIPLINE["reads_of_immutable_fields_outside_lock"] += len(mon.benign)
                if mon.outside:
                    errs.append("heap access outside the lock: " + ", ".join(sorted(set(mon.outside))[:4]))
            try:
                st = walk(c)
                freqs = [f for f, _ in st]
                if freqs != sorted(set(freqs)) or any(not items for _, items in st):
                    errs.append("frequency list not strictly ascending / empty bucket: %r" % (st,))
                if len(c.cache) > cap:
                    errs.append("holds %d keys, capacity %d" % (len(c.cache), cap))
            except Exception as e:
                errs.append("inconsistent after threads: %s" % e)
            ctx.evaluations += 1
            if errs:
                ctx.fail({"capacity": cap, "threads": nthreads, "ops_per_thread": nops, "thread_seeds": seeds, "errors": errs[:5]},
                         "concurrent gets/sets raised or left the cache inconsistent: " + errs[0])
                break
        ctx.note("threaded_rounds", rounds)
    finally:
        sys.setswitchinterval(old)


# ---- linearizability of the values under threads ----------------------------

def key_view(cache):
    """sorted [[key_id, value, uses]] of the real cache (keys mapped through key_id)"""
    out = []
    fn = cache.freq_link_head
    while fn is not None:
        cn = fn.cache_head
        while cn is not None:
            out.append([getattr(cn.key, "key_id", cn.key), cn.content, fn.freq])
            cn = cn.nxt
        fn = fn.nxt
    return core.sx_sorted(out)


def expected_view(cap, merged_ops):
    ref = RefLFU(cap)
    for kind, k, v in merged_ops:
        if kind == "get":
            ref.get(k)
        else:
            ref.set(k, v)
    return core.sx_sorted([[k, e[0], e[1]] for k, e in ref.d.items()])


class ParkKey:
    """A legal hashable key whose FIRST hash computation parks until released: the
    thread that passes it to get/set then sits inside the cache's critical section."""

    def __init__(self, key_id):
        self.key_id = key_id
        self.inside = threading.Event()
        self.release = threading.Event()
        self._first = True

    def __hash__(self):
        if self._first:
            self._first = False
            self.inside.set()
            self.release.wait(300)
        return hash(("park", self.key_id))

    def __eq__(self, other):
        return self is other


def _apply(c, op, key_obj, errs, outs):
    from deepdiff.helper import not_found
    kind, _k, v = op
    try:
        if kind == "get":
            r = c.get(key_obj)
            outs.append(None if r is not_found else r)
        else:
            c.set(key_obj, value=v)
            outs.append("done")
    except BaseException as e:  # the cache must never raise
        errs.append("%s: %s" % (type(e).__name__, e))


def forced_overlap_case(prefix, parked_op, other_op, wait=0.15):
    """Deterministic overlap: thread 1 is parked INSIDE parked_op (on a fresh key 1000, while it
    holds the lock), thread 2 issues other_op; both complete.  Keys are disjoint and the capacity
    exceeds the number of keys, so every linearization gives the same final contents: those of the
    sequential model on prefix + [parked_op, other_op].  Returns (view, expected, get-output of other_op, errors)."""
    from deepdiff.lfucache import LFUCache
    cap = 16
    c = LFUCache(cap)
    for kind, k, v in prefix:
        if kind == "get":
            c.get(k)
        else:
            c.set(k, value=v)
    pk = ParkKey(parked_op[1])
    errs, o1, o2 = [], [], []
    t1 = threading.Thread(target=_apply, args=(c, parked_op, pk, errs, o1))
    t1.start()
    if not pk.inside.wait(120):
        errs.append("thread 1 never reached the key table")
    t2 = threading.Thread(target=_apply, args=(c, other_op, other_op[1], errs, o2))
    t2.start()
    t2.join(wait)                 # blocked on the lock (or already back)
    pk.release.set()
    t1.join(120)
    t2.join(120)
    if t1.is_alive() or t2.is_alive():
        errs.append("a thread is still blocked after the release")
    merged = list(prefix) + [parked_op, other_op]
    return cap, merged, key_view(c), expected_view(cap, merged), (o2[0] if o2 else None), errs


FORCED = [
    # (prefix, op during which thread 1 is parked, op issued by thread 2 meanwhile)
    ([("set", 1, 10)], ("set", 1000, 7), ("set", 1, 11)),        # overwrite while a set is in progress
    ([("set", 1, 10)], ("set", 1000, 7), ("set", 2, 20)),        # new key while a set is in progress
    ([("set", 1, 10)], ("get", 1000, 0), ("set", 1, 12)),        # overwrite while a (missing) get is in progress
    ([("set", 1, 10), ("get", 1, 0)], ("set", 1000, 7), ("get", 1, 0)),   # a get waits and then counts its use
]


def forced_overlap(ctx):
    cases = []
    for prefix, pop, oop in FORCED:
        cap, merged, view, exp, out2, errs = forced_overlap_case(prefix, pop, oop)
        ctx.seen(("forced", tuple(prefix), pop, oop), nontrivial=True)
        ctx.count("threads:forced_overlap")
        case = {"kind": "forced_overlap", "capacity": cap, "prefix": prefix, "parked_op": pop, "other_op": oop}
        if errs:
            ctx.fail(dict(case, errors=errs), "an operation overlapping another thread's operation raised or blocked: " + errs[0])
        elif view != exp:
            ctx.fail(dict(case, contents=view, expected=exp),
                     "lost or wrong update under concurrency: after both threads returned the cache holds %r; every "
                     "sequential order of the completed operations gives %r (key, value, uses)" % (view, exp))
        elif oop[0] == "get" and out2 != [e for e in exp if e[0] == oop[1]][0][1]:
            ctx.fail(dict(case, returned=out2), "a get overlapping another thread's set returned %r" % (out2,))
        # the same contents from the sequential MODEL (LfuModel.v) on the merged sequence
        cases.append(("keyview_sx %d %s" % (cap, coq_ops(merged)), view, dict(case, what="threaded result vs sequential model")))
    ctx.coq_cases("lfu_forced_overlap", "From DD Require Import Lfu.LfuModel Lfu.LfuShow.\nLocal Open Scope Z_scope.", cases, shard=50,
                  label="threads_forced_overlap_vs_model")


# ---- forced interleavings against the interleaving semantics (LfuConcModel.v) ----

class _LogLock(_RecLock):
    """Recording lock that also (1) logs (thread index, call) at every acquisition - the
    linearization points of C18_conc_linearizable - and (2) can park ONE thread right
    BEFORE its acquisition: whatever get / set did before taking the lock has then happened,
    and the other thread's calls run in between."""

    def __init__(self, park_idx=None):
        super().__init__()
        self.log = []
        self.who = {}                    # thread ident -> (index, call)
        self.park_idx = park_idx
        self.at_acquire = threading.Event()
        self.go = threading.Event()

    def acquire(self, *a, **k):
        me = threading.get_ident()
        w = self.who.get(me)
        if w is not None and w[0] == self.park_idx and not self.at_acquire.is_set():
            self.at_acquire.set()
            self.go.wait(300)
        r = _RecLock.acquire(self, *a, **k)
        if r:
            self.log.append(w)
        return r

    __enter__ = acquire


# (name, capacity, prefix (thread 0), calls of thread 1 (its first call is parked), calls of thread 2,
#  mode: "inside" = thread 1 parks INSIDE its critical section (first hash of its key, lock held);
#        "before" = thread 1 parks right before taking the lock)
FORCED_SCHED = [
    ("set-set-same-absent-key", 2, [], [("set", 1, 10)], [("set", 1, 20)], "before"),
    ("get-vs-evicting-set", 2, [("set", 1, 10), ("set", 2, 20)], [("get", 1, 0)], [("set", 3, 30)], "before"),
    ("get-vs-evicting-set-cap1", 1, [("set", 1, 10)], [("get", 1, 0)], [("set", 2, 20)], "before"),
    ("set-vs-set-get", 2, [("set", 1, 10)], [("set", 2, 5)], [("set", 2, 6), ("get", 2, 0)], "before"),
    ("evicting-set-vs-gets", 2, [("set", 1, 1), ("get", 1, 0), ("set", 2, 2)], [("set", 3, 3)], [("get", 2, 0), ("get", 2, 0)], "before"),
    ("present-set-vs-evicting-sets", 2, [("set", 1, 10), ("set", 2, 20)], [("set", 1, 11), ("get", 1, 0)], [("set", 3, 30), ("set", 4, 40)], "before"),
    ("inside-set-vs-overwrite", 4, [("set", 1, 10)], [("set", 1000, 7)], [("set", 1, 11), ("get", 1, 0)], "inside"),
    ("inside-evicting-set-vs-get", 2, [("set", 1, 10), ("set", 2, 20)], [("set", 1000, 7)], [("get", 1, 0)], "inside"),
    ("inside-missing-get-vs-set", 2, [("set", 1, 10)], [("get", 1000, 0), ("get", 1, 0)], [("set", 2, 20), ("set", 3, 30)], "inside"),
]


def forced_schedule_case(name, cap, prefix, ops1, ops2, mode, wait=0.15):
    """Runs the scenario on the real LFUCache under the heap-access monitor.  Returns a dict:
    log (thread index, call) in lock-acquisition order, outs per thread, final pointer graph,
    walk() result or its error, errors, accesses outside the lock."""
    res = {"errors": [], "outs": [[], [], []]}
    with HeapMonitor() as mon:
        lk = _LogLock(park_idx=1 if mode == "before" else None)
        c = mon.cache(cap, lk)
        me = threading.get_ident()
        for op in prefix:
            lk.who[me] = (0, op)
            res["outs"][0].append(mon.call(c, op))
        pk = ParkKey(ops1[0][1]) if mode == "inside" else None

        def work(idx, ops, first_key):
            try:
                for i, op in enumerate(ops):
                    lk.who[threading.get_ident()] = (idx, op)
                    res["outs"][idx].append(mon.call(c, op, key=first_key if i == 0 else None))
            except BaseException as e:          # the cache must never raise
                res["errors"].append("thread %d: %s: %s" % (idx, type(e).__name__, e))
        t1 = threading.Thread(target=work, args=(1, ops1, pk))
        t1.start()
        parked = (pk.inside if pk else lk.at_acquire).wait(300)
        if not parked:
            res["errors"].append("thread 1 never reached its parking point")
        t2 = threading.Thread(target=work, args=(2, ops2, None))
        t2.start()
        t2.join(wait)                    # done, or blocked on the lock
        (pk.release if pk else lk.go).set()
        t1.join(300)
        t2.join(300)
        if t1.is_alive() or t2.is_alive():
            res["errors"].append("a thread is still blocked after the release")
        res["log"] = [[w[0], list(w[1])] for w in lk.log if w is not None]
        res["outside"] = sorted(set(mon.outside))
        res["benign"] = len(mon.benign)
        res["accesses"] = mon.accesses
        res["calls"] = mon.calls
    try:
        st = walk(c)
        res["view"] = sorted([getattr(k, "key_id", k), v, f] for f, items in st for k, v in items)
    except Exception as e:
        res["errors"].append("structure inconsistent after the threads returned: %s: %s" % (type(e).__name__, e))
        res["view"] = None
    try:
        res["graph"] = graph_ints(c, limit=200)
    except Exception as e:
        res["graph"] = None
    return res


def forced_schedules(ctx, only=None):
    """Deterministic overlaps, each checked (1) against the property directly: nothing raised,
    the structure is consistent, every returned value and the final (key, value, uses) are those
    of the reference LFU run SEQUENTIALLY in the observed lock-acquisition order, no heap access
    outside the lock; (2) against the interleaving semantics of LfuConcModel.v evaluated in Coq
    under the corresponding schedule: acquisition log, values returned per thread, full pointer
    graph of the shared heap."""
    cases = []
    for sc in FORCED_SCHED:
        name, cap, prefix, ops1, ops2, mode = sc
        if only and name != only:
            continue
        r = forced_schedule_case(*sc)
        ctx.seen(("forced_schedule", name), nontrivial=True)
        ctx.count("threads:forced_schedule")
        DISCIPLINE["calls"] += r["calls"]
        DISCIPLINE["calls_under_forced_overlap"] += len(ops1) + len(ops2)
        DISCIPLINE["heap_accesses_observed"] += r["accesses"]
        DISCIPLINE["heap_accesses_outside_lock"] += len(r["outside"])
        DISCIPLINE["reads_of_immutable_fields_outside_lock"] += r["benign"]
        case = {"kind": "forced_schedule", "name": name, "capacity": cap, "prefix": prefix, "thread1": ops1, "thread2": ops2,
                "parked": "thread 1 " + ("inside its first call, holding the lock" if mode == "inside" else "right before taking the lock in its first call"),
                "lock_acquisition_order": r.get("log")}
        # (1) direct oracle: sequential reference in the observed acquisition order
        progs = [list(prefix), list(ops1), list(ops2)]
        ref = RefLFU(cap)
        exp_outs = [[], [], []]
        for idx, op in r["log"]:
            kind, k, v = op
            exp_outs[idx].append(ref.get(k) if kind == "get" else ref.set(k, v))
        exp_view = sorted([k, e[0], e[1]] for k, e in ref.d.items())
        per_thread = [[op for idx, op in r["log"] if idx == t] for t in range(3)]
        if r["errors"]:
            ctx.fail(dict(case, errors=r["errors"]), "overlapping get/set calls raised, blocked or left the cache inconsistent: " + r["errors"][0])
        elif r["outside"]:
            ctx.fail(dict(case, unlocked_access=r["outside"]),
                     "LFUCache.get/set touches the shared structure without holding the lock: " + ", ".join(r["outside"][:4]))
        elif per_thread != [[list(o) for o in pr] for pr in progs]:
            ctx.fail(dict(case), "a call returned without ever taking the lock (calls per thread in the lock log: %r)" % (per_thread,))
        elif r["outs"] != exp_outs or r["view"] != exp_view:
            ctx.fail(dict(case, returned=r["outs"], expected_returned=exp_outs, contents=r["view"], expected_contents=exp_view),
                     "not linearizable: values returned %r / final (key, value, uses) %r; the sequential execution in lock-acquisition "
                     "order gives %r / %r" % (r["outs"], r["view"], exp_outs, exp_view))
        # (2) the interleaving semantics under the corresponding schedule
        if r.get("graph") is not None:
            order = [idx for idx, _ in r["log"][len(prefix):]]
            blocks = [(0, 1, len(prefix))]
            if mode == "before":
                blocks.append((1, 0, 1))                                   # thread 1: has called, not yet acquired
                if order and order[0] == 2:
                    blocks.append((2, 0, 4))                               # thread 2: call, acquire, first accesses
            elif order and order[0] == 1:
                blocks.append((1, 0, 2))                                   # thread 1: call + acquire, parked inside
                blocks.append((2, 0, 3))                                   # thread 2: call, then waits for the lock
            blocks += [(t, 1, 1) for t in order] + [(1, 1, 5), (2, 1, 5)]
            expr = "conc_sx false %d [%s] [%s]" % (cap, "; ".join(coq_ops(pr) for pr in progs),
                                                   "; ".join("(%d, %d, %d)%%nat" % b for b in blocks))
            exp = [True, False, r["log"], [[("Some", o) if o is not None else None for o in outs] for outs in r["outs"]], r["graph"]]
            cases.append((expr, exp, dict(case, what="real threads vs interleaving semantics (LfuConcModel.v)")))
    ctx.coq_cases("lfu_forced_schedules", "From DD Require Import Lfu.LfuModel Lfu.LfuShow Lfu.LfuConcModel Lfu.LfuConcShow.\nLocal Open Scope Z_scope.",
                  cases, shard=50, label="threads_forced_schedules_vs_interleaving_semantics")


# ---- lock-free `key in cache` and report-type sets as calls of the interleaving semantics ----

# (name, capacity, prefix, thread 1 (its first call parks INSIDE the critical section on key 1000),
#  thread 2: lock-free lookups first (they run while thread 1 holds the lock), then locking calls; expected lookups)
FORCED_READERS = [
    ("lookups-during-evicting-set", 2, [("set", 1, None, 10), ("set", 2, None, 20)], [("set", 1000, None, 7)],
     [("contains", 1), ("contains", 1000), ("contains", 2), ("get", 1)], [True, False, True]),
    ("report-type-sets-and-lookups", 3, [("set", 1, 1, 10)], [("set", 1000, 2, 5), ("get", 1)],
     [("contains", 1), ("contains", 3), ("set", 1, 1, 11), ("set", 3, None, 3), ("set", 3, 1, 4), ("get", 3), ("contains", 3)], [True, False]),
    ("lookups-during-missing-get", 1, [("set", 1, None, 10)], [("get", 1000)], [("contains", 1), ("contains", 1000), ("set", 2, 3, 9), ("contains", 1)], [True, False]),
]


def coq_calls(ops):
    out = []
    for o in ops:
        if o[0] == "get":
            out.append("CGet %s" % core.coq_Z(o[1]))
        elif o[0] == "contains":
            out.append("CContains %s" % core.coq_Z(o[1]))
        else:
            out.append("CSet %s %s %s" % (core.coq_Z(o[1]), "None" if o[2] is None else "(Some %s)" % core.coq_Z(o[2]), core.coq_Z(o[3])))
    return "[" + "; ".join(out) + "]"


def _do_call(c, o, key=None):
    """one call of the real cache -> (locking?, observable result)"""
    from deepdiff.helper import not_found
    k = o[1] if key is None else key
    if o[0] == "contains":
        return False, (k in c)
    if o[0] == "get":
        r = c.get(k)
        return True, ("not_found" if r is not_found else ["got", snap(r)])
    try:
        c.set(k, report_type=RT_NAMES[o[2]] if o[2] is not None else None, value=o[3])
        return True, "done"
    except TypeError:
        return True, "raised"


def forced_readers(ctx):
    """Lock-free `key in cache` lookups (and report-type sets) overlapping another thread's critical
    section, against the interleaving semantics LfuConcGModel.v (gconc_sx): lock log, results of the
    locking calls, results of the lock-free lookups, pointer graph with content checksums.
    Direct oracle: nothing raises, the structure stays consistent, the lookups made while thread 1
    is parked at the very start of its critical section see the state before it."""
    from deepdiff.lfucache import LFUCache
    cases = []
    for name, cap, prefix, ops1, ops2, exp_lookups in FORCED_READERS:
        c = LFUCache(cap)
        lk = _LogLock()
        c.lock = lk
        outs, obs, errs = [[], [], []], [[], [], []], []
        me = threading.get_ident()
        for o in prefix:
            lk.who[me] = (0, o)
            outs[0].append(_do_call(c, o)[1])
        pk = ParkKey(ops1[0][1])
        reads_done = threading.Event()

        def work(idx, ops, first_key):
            try:
                for i, o in enumerate(ops):
                    if idx == 2 and o[0] != "contains":
                        reads_done.set()
                    lk.who[threading.get_ident()] = (idx, o)
                    locking, r = _do_call(c, o, key=first_key if i == 0 else None)
                    (outs if locking else obs)[idx].append(r)
                reads_done.set()
            except BaseException as e:
                errs.append("thread %d: %s: %s" % (idx, type(e).__name__, e))
                reads_done.set()
        t1 = threading.Thread(target=work, args=(1, ops1, pk))
        t1.start()
        if not pk.inside.wait(300):
            errs.append("thread 1 never reached its parking point")
        t2 = threading.Thread(target=work, args=(2, ops2, None))
        t2.start()
        reads_done.wait(300)
        t2.join(0.05)
        pk.release.set()
        t1.join(300)
        t2.join(300)
        if t1.is_alive() or t2.is_alive():
            errs.append("a thread is still blocked after the release")
        log = [[w[0], (["get", w[1][1]] if w[1][0] == "get" else ["set", w[1][1], ("Some", w[1][2]) if w[1][2] is not None else None, w[1][3]])]
               for w in lk.log if w is not None]
        ctx.seen(("forced_readers", name), nontrivial=True)
        ctx.count("threads:forced_readers")
        case = {"kind": "forced_readers", "name": name, "capacity": cap, "prefix": prefix, "thread1": ops1, "thread2": ops2, "lock_acquisition_order": log}
        graph = None
        try:
            walk(c)
            graph = graph_ints(c, limit=200, content=content_code)
        except Exception as e:
            errs.append("structure inconsistent after the threads returned: %s: %s" % (type(e).__name__, e))
        lead = obs[2][:len(exp_lookups)]
        if errs:
            ctx.fail(dict(case, errors=errs), "calls overlapping a critical section raised or left the cache inconsistent: " + errs[0])
        elif lead != exp_lookups:
            ctx.fail(dict(case, lookups=lead, expected=exp_lookups),
                     "`key in cache` during another thread's critical section (parked before its first change) returned %r, the state before it gives %r" % (lead, exp_lookups))
        if graph is not None:
            # the model schedule follows the OBSERVED lock-acquisition order CALL BY CALL (kind-1 blocks: one locking call of
            # thread t, the lock-free lookups before it in program order on the way), so that the comparison does not depend on
            # which thread wins the lock after the release (raw-step blocks ran ALL remaining calls of a thread at once and
            # mismatched whenever thread 1's later call lost the race against thread 2's calls: a false alarm under load).
            # The lock-free lookups compared are timing-independent by construction: the leading ones run while thread 1 is
            # parked (reads_done), the later ones follow a set of the same thread that fixes their answer.
            order = [t for t, _ in log[len(prefix):]]
            blocks = [(0, 0, 3000)]
            if order and order[0] == 1:
                blocks += [(1, 0, 2), (2, 0, 3000)]                 # thread 1: call + acquire (parked); thread 2: its lookups, then waits
            blocks += [(t, 1, 1) for t in order] + [(1, 0, 3000), (2, 0, 3000), (1, 0, 3000), (2, 0, 3000)]
            expr = "gconc3_sx %d [%s] [%s]" % (cap, "; ".join(coq_calls(pr) for pr in (prefix, ops1, ops2)),
                                               "; ".join("(%d, %d, %d)%%nat" % b for b in blocks))
            cases.append((expr, [True, False, log, outs, obs, graph], dict(case, what="real threads vs interleaving semantics with lock-free lookups")))
    ctx.coq_cases("lfu_forced_readers", "From DD Require Import Lfu.LfuModel Lfu.LfuRtModel Lfu.LfuConcModel Lfu.LfuConcGModel Lfu.LfuConcGShow.\nLocal Open Scope Z_scope.",
                  cases, shard=50, label="threads_lock_free_lookups_vs_interleaving_semantics")


def linearizable_threads(ctx, rounds, nthreads=8, keys_per_thread=3, nops=250):
    """Each thread owns disjoint keys; capacity >= number of keys, so nothing can be evicted and the
    result is independent of the interleaving: (1) every get by the owner returns the owner's last
    set value; (2) after join the per-key (value, uses) equal those of the sequential model on the
    per-thread sequences concatenated (any merge consistent with program order gives the same)."""
    from deepdiff.lfucache import LFUCache
    from deepdiff.helper import not_found
    old = sys.getswitchinterval()
    sys.setswitchinterval(1e-6)
    cases = []
    try:
        for r in range(rounds):
            cap = nthreads * keys_per_thread + ctx.rng.randint(0, 3)
            c = LFUCache(cap)
            seqs = []
            for t in range(nthreads):
                rr = random.Random(ctx.rng.randrange(1 << 30))
                own = [t * keys_per_thread + i for i in range(keys_per_thread)]
                seqs.append([("get", rr.choice(own), 0) if rr.random() < 0.4 else ("set", rr.choice(own), rr.randrange(1000))
                             for _ in range(nops)])
            problems = []
            start = threading.Barrier(nthreads)

            def work(seq):
                last = {}
                try:
                    start.wait(300)
                    for i, (kind, k, v) in enumerate(seq):
                        if kind == "get":
                            got = c.get(k)
                            want = last.get(k, not_found)
                            if got is not want and got != want:
                                problems.append("op %d: get(%r) returned %r, the owner's last completed set wrote %r"
                                                % (i, k, None if got is not_found else got, None if want is not_found else want))
                                return
                        else:
                            c.set(k, value=v)
                            last[k] = v
                except BaseException as e:
                    problems.append("%s: %s" % (type(e).__name__, e))
            ts = [threading.Thread(target=work, args=(s,)) for s in seqs]
            for th in ts:
                th.start()
            for th in ts:
                th.join(600)
            merged = [op for s in seqs for op in s]
            view, exp = key_view(c), expected_view(cap, merged)
            ctx.seen(("linear", cap, tuple(map(tuple, seqs))), nontrivial=True)
            ctx.count("threads:linearizable_rounds")
            case = {"kind": "linearizable_threads", "capacity": cap, "thread_sequences": seqs}
            if problems:
                ctx.fail(dict(case, problems=problems[:5]), "values under concurrency are not linearizable: " + problems[0])
                break
            if view != exp:
                diff = [(a, b) for a, b in zip(view, exp) if a != b][:5]
                ctx.fail(dict(case, differing=diff, n_contents=len(view), n_expected=len(exp)),
                         "after all threads finished the cache does not hold the last value set / the number of uses "
                         "for every key (disjoint keys, no eviction possible): got vs expected %r" % (diff or (len(view), len(exp)),))
                break
            cases.append(("keyview_sx %d %s" % (cap, coq_ops(merged)), view, {"kind": "linearizable_threads", "capacity": cap}))
    finally:
        sys.setswitchinterval(old)
    ctx.coq_cases("lfu_linear_threads", "From DD Require Import Lfu.LfuModel Lfu.LfuShow.\nLocal Open Scope Z_scope.", cases, shard=4,
                  label="threads_linearizable_vs_model")


def discipline_note(ctx):
    """hypothesis of C18_conc_linearizable as observed on lfucache.py in this run"""
    ctx.note("lock_discipline", dict(DISCIPLINE, meaning="heap accesses = reads/writes of CacheNode / FreqNode fields, of LFUCache.cache / "
                                     ".capacity / .freq_link_head and key-table operations made inside get/set calls; "
                                     "heap_accesses_outside_lock must be 0 (C18_conc_accesses_under_lock); reads of fields that are never written after "
                                     "construction (capacity, CacheNode.key, FreqNode.freq) are counted separately and are harmless"))


# ---- source tie: lfucache.py translated to Gallina on every run (harness/translate/lfucache.py) ----------------

SOURCE_TIES = [{
    "name": "lfucache", "translator": "lfucache", "gen_module": "LfuGen", "equiv": ["LfuGenEquiv"],
    "needs": ["Lfu.LfuHeapModel", "Lfu.LfuHeapProofs", "Lfu.LfuConcProofs"],
    "sources": ["deepdiff/lfucache.py", "deepdiff/helper.py"],
    "fragment": ("CacheNode.__init__ (plain-value form) / free_myself; FreqNode.__init__ / count_caches / remove / pop_head_cache / "
                 "append_cache_to_tail / insert_after_me / insert_before_me; LFUCache.__init__ / get / set (plain-value form) / "
                 "__contains__ / move_forward / dump_cache / create_cache_node; get and set checked to lie entirely inside `with self.lock:`"),
}]

# generated (DDGen.LfuGen) vs hand-written (LfuHeapModel) get / set, evaluated inside Coq: full heap equality
# (every object, reachable or not, the dict, freq_link_head, counters) and the output after every step
TIE_DIFF_V = r'''From Coq Require Import List ZArith NArith Bool Arith String.
Import ListNotations.
From DD Require Import Base.Sx Lfu.LfuModel Lfu.LfuHeapModel.
From DDGen Require Import LfuGen.
Notation heapZ := (heap Z) (only parsing).
Notation opZ := (op Z) (only parsing).
Definition cnode_eqb (a b : cnode Z) : bool :=
  Z.eqb (ckey a) (ckey b) && Z.eqb (ccont a) (ccont b) && oid_eqb (cfn a) (cfn b) && oid_eqb (cpre a) (cpre b) && oid_eqb (cnxt a) (cnxt b).
Definition fnode_eqb (a b : fnode) : bool :=
  Nat.eqb (ffreq a) (ffreq b) && oid_eqb (fpre a) (fpre b) && oid_eqb (fnxt a) (fnxt b) && oid_eqb (fhead a) (fhead b) && oid_eqb (ftail a) (ftail b).
Fixpoint list_eqb {A} (e : A -> A -> bool) (l1 l2 : list A) : bool :=
  match l1, l2 with
  | [], [] => true
  | x :: r1, y :: r2 => e x y && list_eqb e r1 r2
  | _, _ => false
  end.
Definition heap_eqb (a b : heapZ) : bool :=
  list_eqb (fun x y => Nat.eqb (fst x) (fst y) && cnode_eqb (snd x) (snd y)) (cns a) (cns b) &&
  list_eqb (fun x y => Nat.eqb (fst x) (fst y) && fnode_eqb (snd x) (snd y)) (fns a) (fns b) &&
  list_eqb (fun x y => Z.eqb (fst x) (fst y) && Nat.eqb (snd x) (snd y)) (dict a) (dict b) &&
  oid_eqb (hhead a) (hhead b) && Nat.eqb (hcap a) (hcap b) && Nat.eqb (nextc a) (nextc b) && Nat.eqb (nextf a) (nextf b).
Definition out_eqb (a b : option Z) : bool :=
  match a, b with Some x, Some y => Z.eqb x y | None, None => true | _, _ => false end.
Definition res_eqb (a b : option (heapZ * option Z)) : bool :=
  match a, b with
  | Some (h1, o1), Some (h2, o2) => heap_eqb h1 h2 && out_eqb o1 o2
  | None, None => true
  | _, _ => false
  end.
Definition g_step (h : heapZ) (o : opZ) : option (heapZ * option Z) :=
  match o with
  | OGet k => g_get h k
  | OSet k v => match g_set h k v with Some h1 => Some (h1, None) | None => None end
  end.
Definition start (c : nat) : option heapZ := g_LFUCache_init Z c.
Definition start_ok (c : nat) : bool :=
  match start c with Some h => heap_eqb h (hempty c) | None => false end.

(* bounded-exhaustive: depth-first over all sequences of exactly <= d more operations from a heap on which both
   models agreed so far; the value written by the t-th operation is t; returns the first differing sequence *)
Fixpoint try_ops (ops : list opZ) (k : opZ -> option (list opZ)) : option (list opZ) :=
  match ops with
  | [] => None
  | o :: r => match k o with Some p => Some p | None => try_ops r k end
  end.
Definition alphabet (nkeys : nat) (t : Z) : list opZ :=
  flat_map (fun k => let kz := Z.of_nat k in [OGet kz; OSet kz t]) (seq 0 nkeys).
Fixpoint diff (nkeys d : nat) (h : heapZ) (t : Z) (path : list opZ) : option (list opZ) :=
  match d with
  | O => None
  | S d' =>
      try_ops (alphabet nkeys t) (fun o =>
        let a := hstep h o in
        if res_eqb a (g_step h o) then
          match a with Some (h1, _) => diff nkeys d' h1 (t + 1)%Z (o :: path) | None => None end
        else Some (rev (o :: path)))
  end.
(* iterative deepening: a shortest differing sequence *)
Fixpoint deepen (nkeys c : nat) (ds : list nat) : option (list opZ) :=
  match ds with
  | [] => None
  | d :: r => match diff nkeys d (hempty c) 1%Z [] with Some p => Some p | None => deepen nkeys c r end
  end.
(* a given trace: index of the first step at which the two models differ *)
Fixpoint first_diff (h : heapZ) (ops : list opZ) (n : nat) : option nat :=
  match ops with
  | [] => None
  | o :: r =>
      let a := hstep h o in
      if res_eqb a (g_step h o) then
        match a with Some (h1, _) => first_diff h1 r (S n) | None => None end
      else Some n
  end.
Fixpoint first_trace (ts : list (nat * list opZ)) (i : nat) : option (nat * nat) :=
  match ts with
  | [] => None
  | (c, ops) :: r => match first_diff (hempty c) ops 0 with Some n => Some (i, n) | None => first_trace r (S i) end
  end.
Local Open Scope string_scope.
Definition show_op (o : opZ) : string :=
  match o with OGet k => "g" ++ show_Z k | OSet k v => "s" ++ show_Z k ++ ":" ++ show_Z v end.
Fixpoint show_ops (l : list opZ) : string :=
  match l with [] => "" | o :: r => " " ++ show_op o ++ show_ops r end.
Definition show_res (tag : string) (r : option (list opZ)) : string :=
  tag ++ match r with None => " none" | Some p => " ops" ++ show_ops p end ++ nl.
'''


def _tie_coq(ctx, name, body, timeout=1500):
    """compile one differencing file against the generated module of THIS run; returns the text between BEGIN and END"""
    import os
    import re
    gen_dir = os.path.join(ctx.scratch, "srctie")
    fn = os.path.join(gen_dir, "tie_%s.v" % name)
    with open(fn, "w") as f:
        f.write(TIE_DIFF_V + body)
    rc, out = core.sh(["coqc", "-Q", core.THEORIES, "DD", "-Q", gen_dir, "DDGen", fn], timeout=timeout, cwd=gen_dir)
    m = re.search(r'"BEGIN\n(.*)END"', out, re.S)
    if rc != 0 or not m:
        return None, out[-800:]
    return m.group(1).replace('""', '"'), None


def _parse_ops(words):
    ops = []
    for w in words:
        if w[0] == "g":
            ops.append(("get", int(w[1:]), 0))
        else:
            k, v = w[1:].split(":")
            ops.append(("set", int(k), int(v)))
    return ops


def tie_differencing(ctx):
    """generated vs hand-written heap model inside Coq: bounded-exhaustive (3 keys, length <= 7 and 4 keys, length <= 5,
    capacities 1..3, shortest first) and random traces; returns (list of (capacity, ops) on which they differ, report)"""
    import concurrent.futures as cf
    report = {"compared": "g_LFUCache_init / g_get / g_set of DDGen.LfuGen against hempty / hget / hset of LfuHeapModel.v inside Coq "
                          "(vm_compute): output and the FULL heap (all objects, dict, freq_link_head, counters) after every step"}
    ctx.ensure_built("From DD Require Import Lfu.LfuModel Lfu.LfuHeapModel.")
    jobs = []
    for cap in (1, 2, 3):
        jobs.append(("ex3_c%d" % cap, cap, None,
                     'Eval vm_compute in ("BEGIN" ++ nl ++ (if start_ok %d then "" else "init-differs" ++ nl) ++ '
                     'show_res "E" (deepen 3 %d [1;2;3;4;5;6;7]%%nat) ++ "END").\n' % (cap, cap)))
        jobs.append(("ex4_c%d" % cap, cap, None,
                     'Eval vm_compute in ("BEGIN" ++ nl ++ show_res "E" (deepen 4 %d [5]%%nat) ++ "END").\n' % cap))
    rng = random.Random(ctx.seed + 18)
    traces = []
    for _ in range(400):
        cap, ops = gen_random(rng, 60)
        traces.append((min(cap, 4) if rng.random() < 0.5 else cap, ops))
    for j in range(0, len(traces), 100):
        chunk = traces[j:j + 100]
        body = ("Local Open Scope Z_scope.\nDefinition traces : list (nat * list opZ) := [\n" +
                ";\n".join("(%d%%nat, %s)" % (c, coq_ops(o)) for c, o in chunk) + "].\n" +
                'Eval vm_compute in ("BEGIN" ++ nl ++ match first_trace traces 0 with None => "R none" '
                '| Some (i, n) => "R " ++ show_nat i ++ " " ++ show_nat n end ++ nl ++ "END")%string.\n')
        jobs.append(("rnd_%d" % j, None, chunk, body))

    def one(job):
        return job, _tie_coq(ctx, job[0], job[3])
    with cf.ThreadPoolExecutor(core.NCPU) as ex:
        res = list(ex.map(one, jobs))
    found, errors = [], []
    for (nm, cap, chunk, _b), (txt, err) in res:
        if txt is None:
            errors.append({"job": nm, "error": err})
            continue
        for line in txt.splitlines():
            w = line.split()
            if not w:
                continue
            if w[0] == "init-differs":
                report["constructor_differs_at_capacity"] = cap
            elif w[0] == "E" and w[1] == "ops":
                found.append((cap, _parse_ops(w[2:]), nm))
            elif w[0] == "R" and w[1] != "none":
                c, ops = chunk[int(w[1])]
                found.append((c, list(ops[:int(w[2]) + 1]), nm))
    found.sort(key=lambda x: (len(x[1]), x[0]))
    report["searched"] = {"exhaustive": "all get/set sequences over 3 keys of length <= 7 and over 4 keys of length <= 5, capacity 1..3 (value of the t-th op = t), iterative deepening",
                          "random": "%d traces of length <= 60 (the generator of the random streams)" % len(traces),
                          "coq_jobs": len(jobs), "coq_job_errors": errors[:3]}
    report["differing_sequences"] = [{"capacity": c, "ops": o, "job": nm} for c, o, nm in found[:6]]
    return [(c, o) for c, o, _ in found], report


def judge_sequence(ctx, cap, ops, origin):
    """one concrete sequence through the property's ordinary machinery: direct oracle (reference LFU + structural
    consistency) -> ctx.fail; correspondence of the hand-written models with the implementation (outputs, walked
    structure, per-step pointer-graph hashes, final pointer graph) -> correspondence break on a mismatch"""
    ops = [tuple(o) for o in ops]
    h, outs, st, err, (ev, hit) = run_impl(cap, ops)
    ctx.seen(("tie", cap, tuple(ops)), nontrivial=True)
    ctx.count("source_tie:witness_sequences")
    case = {"capacity": cap, "ops": ops, "found_by": origin}
    if err:
        ctx.fail(dict(case, error=err), "LFUCache deviates from a bounded LFU map: " + err)
    cases = []
    if len(run_impl.gh) == len(ops):
        cases.append(("heap_trace_sx %d %s" % (cap, coq_ops(ops)),
                      [list(run_impl.gh), [("Some", o) if o is not None else None for o in outs], list(run_impl.graph)],
                      dict(case, what="pointer graph of the real objects vs hand-written heap model")))
        cases.append(("SL (firstn 2 (match trace_sx %d %s with SL l => l | x => [x] end))" % (cap, coq_ops(ops)),
                      [[("Some", o) if o is not None else None for o in outs], [[f, [[k, v] for k, v in items]] for f, items in st]],
                      dict(case, what="outputs and walked structure vs bucket-list model")))
    bad = ctx.coq_cases("lfu_tie_witness", "From DD Require Import Lfu.LfuModel Lfu.LfuShow Lfu.LfuHeapModel Lfu.LfuHeapShow.\nLocal Open Scope Z_scope.",
                        cases, shard=20, label="source_tie_witness_sequences")
    return {"capacity": cap, "ops": ops, "oracle_error": err, "correspondence_mismatches": len(bad or [])}


def on_source_tie_break(ctx, name, rec):
    """The model regenerated from the current lfucache.py is no longer proved equal to LfuHeapModel.v (or the translator
    rejected the source).  Search for a concrete operation sequence on which the two models differ and judge it like any
    generated case; whatever the outcome, run() escalates the streams over the fragment to thorough size."""
    import os
    out = {"status": rec.get("status")}
    if not os.path.exists(os.path.join(ctx.scratch, "srctie", "LfuGen.vo")):
        out["searched"] = ("no generated model to evaluate (%s): nothing compared inside Coq; the exhaustive / random / pointer-graph "
                           "streams run at thorough size instead" % rec.get("status"))
        return out
    found, report = tie_differencing(ctx)
    out.update(report)
    if not found:
        out["result"] = ("the generated and the hand-written model agree on every sequence searched (the proof broke on a syntactic "
                         "change or on states no get/set sequence reaches); streams escalated to thorough size")
        return out
    out["judged"] = [judge_sequence(ctx, c, o, "source-tie differencing: generated model (current lfucache.py) vs LfuHeapModel.v")
                     for c, o in found[:4]]
    if not any(j["oracle_error"] or j["correspondence_mismatches"] for j in out["judged"]):
        out["result"] = ("the models differ on these sequences but the implementation shows no difference in outputs, linked structure "
                         "or reachable pointer graph (e.g. a difference confined to unreachable objects)")
    return out


ALL_MODEL_FILES = ("From DD Require Import Lfu.LfuModel Lfu.LfuShow Lfu.LfuHeapModel Lfu.LfuHeapShow Lfu.LfuRtModel Lfu.LfuRtShow "
                   "Lfu.LfuAuxModel Lfu.LfuAuxShow Lfu.LfuConcModel Lfu.LfuConcShow Lfu.LfuConcGModel Lfu.LfuConcGShow.")


def run(ctx):
    ctx.ensure_built(ALL_MODEL_FILES)       # one make for every model file the streams import
    # a broken source tie (the model translated from the current lfucache.py is not proved equal to LfuHeapModel.v):
    # the streams that exercise the translated fragment run at thorough size even in the quick tier
    big = ctx.thorough or ctx.tie_broken("lfucache")
    if big and not ctx.thorough:
        ctx.note("escalated_by_source_tie", "exhaustive / random / pointer-graph streams at thorough size")
    exhaustive(ctx, 3, 7 if big else 6)
    random_traces(ctx, 1500 if big else 220, 200)
    heap_traces(ctx, 800 if big else 120, 200 if big else 80)
    rt_traces(ctx, 1000 if ctx.thorough else 150, 60)
    aux_observers(ctx, 400 if ctx.thorough else 50, 40)
    nonint_keys(ctx, 600 if ctx.thorough else 80, 60)
    with ctx.extension("DummyLFU"):         # not an LFU cache: outside the property's text
        dummy_lfu(ctx, 40 if ctx.thorough else 8)
    lock_monitor(ctx, 300 if ctx.thorough else 60)
    step_order(ctx, 200 if ctx.thorough else 30, 30)
    threaded(ctx, 12 if ctx.thorough else 3)
    forced_overlap(ctx)
    forced_schedules(ctx)
    forced_readers(ctx)
    linearizable_threads(ctx, 10 if ctx.thorough else 3)
    discipline_note(ctx)
    ctx.sample({"exhaustive_example": {"capacity": 2, "ops": ops_of((1, 3, 0, 5, 2))}})


def replay(ctx, data):
    case = data.get("case", {})
    if case.get("kind") == "forced_overlap":
        cap, merged, view, exp, out2, errs = forced_overlap_case([tuple(o) for o in case["prefix"]], tuple(case["parked_op"]), tuple(case["other_op"]))
        ctx.evaluations += 1
        print("replay: contents=%r expected=%r errors=%r" % (view, exp, errs))
        if errs or view != exp:
            ctx.fail(case, "lost or wrong update under concurrency: contents %r, every sequential order gives %r" % (view, exp))
    elif case.get("kind") == "forced_readers":
        forced_readers(ctx)
    elif case.get("kind") == "forced_schedule":
        forced_schedules(ctx, only=case.get("name"))
    elif case.get("kind") == "linearizable_threads":
        forced_overlap(ctx)
        linearizable_threads(ctx, 5)
    elif case.get("kind") in ("aux_observers", "nonint_keys", "dummy_lfu"):
        aux_observers(ctx, 80, 40)
        nonint_keys(ctx, 120, 60)
    elif "rt_ops" in case:
        ops = [tuple(o) for o in case["rt_ops"]]
        outs, states, err, _ = run_impl_rt(case["capacity"], ops)
        ctx.evaluations += 1
        print("replay: outs=%r final=%r error=%r" % (outs, states[-1] if states else None, err))
        if err:
            ctx.fail({"capacity": case["capacity"], "rt_ops": ops, "error": err}, "LFUCache with report types deviates from a bounded LFU map: " + err)
    elif "ops" in case:
        ops = [tuple(o) for o in case["ops"]]
        h, outs, st, err, _ = run_impl(case["capacity"], ops)
        ctx.evaluations += 1
        print("replay: outs=%r structure=%r error=%r" % (outs, st, err))
        if err:
            ctx.fail({"capacity": case["capacity"], "ops": ops, "error": err}, "LFUCache deviates from a bounded LFU map: " + err)
    else:
        run(ctx)

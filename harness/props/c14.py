"""C14 - a persisted delta behaves identically to the original.

proof:           coq/theories/Pickle/{Vm,Codec,PickleProofs}.v, Properties/C14.v
correspondence:  (a) real Delta(...).dumps() bytes, parsed by pickletools.genops into the
                     model's opcode list, run on the model VM inside Coq: the decoded payload
                     and the resolved names must be what the real pickle_load returns / asks for;
                     also for the second-generation dump (dump -> load -> dump);
                 (b) the model's canonical encoding (Codec.enc_prog) of the same payloads,
                     printed by Coq, assembled to bytes and loaded by the real pickle_load;
                 (c) JSON: json_dumps(payload) as a JSON value against Codec.to_json, and
                     Delta(text, deserializer=json_loads).diff against Codec.json_roundtrip;
                 (d) informational: which real dumps lie in the syntactic encoding class `accepts`
                     for which the round trip is proved (C14_accepted_encodings_roundtrip).
                 (e) the pickler side (Pickle/PicklerHook.v): payloads written by CPython's pickle.Pickler WITHOUT
                     deepdiff's persistent_id hook - the real pickle_load verdict, the model VM on those bytes and
                     the model's hook-less pickler (dump_with no_hook) must agree (C14_plain_pickler_dump_refused).
direct oracle:   class-value stream (classvalue_stream): every allow-listed class as a plain VALUE in every value
                 position x every combination of report categories (alone, pairs, with / without type_changes),
                 DeepDiff-made and raw payloads, written by dumps() / dump(BytesIO) / dump(file), read back from
                 bytes / file object / path; controls also through JSON;
                 Delta(d.dumps()).diff == d.diff (typed), same for dump(file) / delta_path /
                 delta_file / a second dump; equal results (or the same exception class) when the
                 original and the reloaded delta are applied to the original base and to two
                 perturbed bases (and subtracted, when bidirectional); the same for the JSON
                 serializer when the payload is JSON-representable.
"""
import io
import json
import os
import struct

from harness import core
from harness import values as V
from harness.props import c15 as P

THEOREM_FILE = "Properties/C14.v"
COQCHK = ["Properties.C14"]
RULE = ("one case per (t1, t2, DeepDiff options, Delta flags); t1 from harness.values generators (nested values, "
        "flat atom lists for opcodes, repeated items for index maps), t2 by an edit script; non-trivial when the payload is "
        "not empty; distinct = distinct (canonical payload, flags)")
TRUSTED = ["CPython's C pickler: the correspondence feeds its actual output to the model VM; the theorem C14_pickle_roundtrip is "
           "about the model's canonical encoder, whose output is checked to load in the real unpickler on every run",
           "JSON text encoding / parsing (json module) is taken at the level of JSON values",
           "Delta behaviour is a function of the payload and the constructor flags: stated in the model (C14_same_behaviour) and "
           "checked directly on the implementation for every generated case (three bases each)"]
ASSUMPTIONS = ["payload dict keys are atoms (None, bool, int, half-integer float, str, bytes); other floats are opaque bit patterns",
               "world_supports: the process resolves the class objects the payload mentions and the Opcode / SetOrdered "
               "constructors accept their arguments (true of the default process: Example default_world_supports)"]


class Unsupported(Exception):
    pass


# ---------------------------------------------------------------------------
# payload <-> model terms
# ---------------------------------------------------------------------------

def _is_half(f):
    t = f * 2
    return f == f and abs(f) != float("inf") and t == int(t) and abs(t) < 2 ** 53 and not (f == 0 and str(f)[0] == "-")


def atom_coq(a):
    if a is None:
        return "ANone"
    if a is True:
        return "(ABool true)"
    if a is False:
        return "(ABool false)"
    if type(a) is int:
        return "(AInt %s)" % core.coq_Z(a)
    if type(a) is float and _is_half(a):
        return "(AHalf %s)" % core.coq_Z(int(a * 2))
    if type(a) is str:
        return "(AStr %s)" % core.coq_pystr(a)
    if type(a) is bytes:
        return "(ABytes %s)" % core.coq_pystr(a)
    raise Unsupported("not an atom: %r" % (a,))


def atom_canon(a):
    if a is None:
        return None
    if a is True or a is False:
        return ["b", a]
    if type(a) is int:
        return ["i", a]
    if type(a) is float and _is_half(a):
        return ["f", int(a * 2)]
    if type(a) is str:
        return ["s", a]
    if type(a) is bytes:
        return ["y", a.decode("latin-1")]
    raise Unsupported("not an atom: %r" % (a,))


def _helper():
    from deepdiff.helper import Opcode, SetOrdered
    return Opcode, SetOrdered


def pv_coq(o):
    Opcode, SetOrdered = _helper()
    if type(o) is float and not _is_half(o):
        return "(PFloatBits %s)" % core.coq_Z(int.from_bytes(struct.pack(">d", o), "big"))
    if o is None or type(o) in (bool, int, float, str, bytes):
        return "(PAtom %s)" % atom_coq(o)
    if o is type(None):
        return "PNoneType"
    if isinstance(o, type):
        return "(PType %s %s)" % (core.coq_pystr(o.__module__), core.coq_pystr(o.__qualname__))
    if type(o) is Opcode:
        if type(o.tag) is not str or any(type(x) is not int for x in o[1:5]):
            raise Unsupported("opcode fields")
        return "(POpcode %s %s %s %s %s %s %s)" % (core.coq_pystr(o.tag), core.coq_Z(o[1]), core.coq_Z(o[2]), core.coq_Z(o[3]),
                                                   core.coq_Z(o[4]), pv_coq(o.old_values), pv_coq(o.new_values))
    if type(o) is SetOrdered:
        return "(PSetOrdered [%s])" % "; ".join(pv_coq(x) for x in o)
    if type(o) is list:
        return "(PList [%s])" % "; ".join(pv_coq(x) for x in o)
    if type(o) is tuple:
        return "(PTuple [%s])" % "; ".join(pv_coq(x) for x in o)
    if type(o) is dict:
        return "(PDict [%s])" % "; ".join("(%s, %s)" % (atom_coq(k), pv_coq(v)) for k, v in o.items())
    if type(o) is set:
        return "(PSet [%s])" % "; ".join(atom_coq(x) for x in o)
    if type(o) is frozenset:
        return "(PFrozen [%s])" % "; ".join(atom_coq(x) for x in o)
    raise Unsupported("outside the payload universe: %r" % type(o))


def pv_canon(o):
    """mirror of PickleShow.sx_pv"""
    Opcode, SetOrdered = _helper()
    if type(o) is float and not _is_half(o):
        return ["fb", int.from_bytes(struct.pack(">d", o), "big")]
    if o is None or type(o) in (bool, int, float, str, bytes):
        return atom_canon(o)
    if o is type(None):
        return "NoneType"
    if isinstance(o, type):
        return ["G", o.__module__, o.__qualname__]
    if type(o) is Opcode:
        return ["Op", o.tag, o[1], o[2], o[3], o[4], pv_canon(o.old_values), pv_canon(o.new_values)]
    if type(o) is SetOrdered:
        return ["SO", [pv_canon(x) for x in o]]
    if type(o) is list:
        return ["L", [pv_canon(x) for x in o]]
    if type(o) is tuple:
        return ["T", [pv_canon(x) for x in o]]
    if type(o) is dict:
        return ["D", [[atom_canon(k), pv_canon(v)] for k, v in o.items()]]
    if type(o) is set:
        return ["S", core.sx_sorted([atom_canon(x) for x in o])]
    if type(o) is frozenset:
        return ["F", core.sx_sorted([atom_canon(x) for x in o])]
    raise Unsupported("outside the payload universe: %r" % type(o))


def typed_payload_eq(a, b):
    """payload equality with types at every position, dict order ignored"""
    def norm(x):
        if isinstance(x, list) and x and x[0] == "D":
            return ["D", sorted(([norm(k), norm(v)] for k, v in x[1]), key=repr)]
        if isinstance(x, list):
            return [norm(y) for y in x]
        return x
    try:
        return norm(pv_canon(a)) == norm(pv_canon(b))
    except Unsupported:
        return a == b


def json_canon(j):
    """JSON value (parsed with object_pairs_hook=list_of_pairs) -> mirror of PickleShow.sx_jv"""
    if j is None:
        return None
    if j is True or j is False:
        return ["b", j]
    if type(j) is int:
        return ["i", j]
    if type(j) is float:
        if not _is_half(j):
            raise Unsupported("float")
        return ["f", int(j * 2)]
    if type(j) is str:
        return ["s", j]
    if type(j) is list:
        return ["A", [json_canon(x) for x in j]]
    if type(j) is _Pairs:
        return ["O", [[k, json_canon(v)] for k, v in j.pairs]]
    raise Unsupported(type(j))


class _Pairs:
    def __init__(self, pairs):
        self.pairs = pairs


def json_representable(p, top=True):
    """The payload uses only what JSON can carry plus deepdiff's own structural
    vocabulary (type objects under old_type/new_type, Opcode records)."""
    Opcode, _SO = _helper()
    if p is None or type(p) in (bool, int, str):
        return True
    if type(p) is float:
        return _is_half(p)
    if type(p) is list:
        return all(json_representable(x, False) for x in p)
    if type(p) is Opcode:
        return all(json_representable(x, False) for x in p)
    if type(p) is dict:
        for k, v in p.items():
            if type(k) is not str:
                return False
            if k in ("old_type", "new_type") and "old_type" in p and "new_type" in p:
                # json_loads' object hook reads both entries as type NAMES.  A type change FROM a class object
                # (DeltaResult._from_tree_type_changes: old_type = t1, new_type = t2, the VALUE) puts a non-type there:
                # outside the JSON fragment (as in the model: json_ok wants PType under both)
                if isinstance(v, type):
                    continue
                return False
            if not json_representable(v, False):
                return False
        return True
    return False


def setlist_py(p):
    """mirror of Codec.setlist: the sets of set_item_added / set_item_removed become the lists of their
    members (iteration order); everything else is unchanged"""
    if type(p) is not dict:
        return p
    out = {}
    for k, v in p.items():
        if k in ("set_item_added", "set_item_removed") and type(v) is dict:
            out[k] = {q: (list(x) if type(x) is set else x) for q, x in v.items()}
        else:
            out[k] = v
    return out


def json_setitems_form(p):
    """The delta is JSON-representable except that it has set_item_added / set_item_removed categories whose
    values are sets of JSON scalars: deepdiff writes those as arrays on purpose (JSON_CONVERTOR[set] = list) and
    Delta applies them with set.union / set.difference, which take any iterable - so the reloaded delta must
    BEHAVE the same although its payload holds lists."""
    if type(p) is not dict:
        return False
    cats = [c for c in ("set_item_added", "set_item_removed") if c in p]
    if not cats:
        return False
    for c in cats:
        if type(p[c]) is not dict:
            return False
        for k, v in p[c].items():
            if type(k) is not str or type(v) is not set:
                return False
            if not all(x is None or type(x) in (bool, int, str) or (type(x) is float and _is_half(x)) for x in v):
                return False
    return json_representable({k: v for k, v in p.items() if k not in cats})


# ---------------------------------------------------------------------------
# generators
# ---------------------------------------------------------------------------

def gen_pair(rng):
    """-> (t1, t2, DeepDiff kwargs, kind)"""
    k = rng.random()
    kw = {}
    if k < 0.3:
        t1 = V.gen_value(rng, depth=3, width=4, alias=rng.random() < 0.2)
        vals, _ = V.edit_script(rng, t1, rng.randint(1, 4))
        t2 = vals[-1]
        kind = "nested"
    elif k < 0.55:
        # flat atom lists (difflib path -> _iterable_opcodes), possibly inside a dict / list
        pool = rng.choice([[1, 2, 3, 4, 5, 6, 7], ["a", "b", "c", "d", "e"], [1, "a", 2.5, None, True, 3, "b"], [0, 1, 1, 2, 2, 3]])
        a = [rng.choice(pool) for _ in range(rng.randint(2, 7))]
        b = list(a)
        for _ in range(rng.randint(1, 4)):
            r = rng.random()
            if r < 0.4 and b:
                del b[rng.randrange(len(b))]
            elif r < 0.8:
                b.insert(rng.randint(0, len(b)), rng.choice(pool + [9, "z"]))
            elif b:
                b[rng.randrange(len(b))] = rng.choice(pool + [8])
        wrap = rng.random()
        if wrap < 0.4:
            t1, t2 = a, b
        elif wrap < 0.7:
            t1, t2 = {"k": a, "n": 1}, {"k": b, "n": rng.choice([1, 2])}
        else:
            t1, t2 = [a, [1, 2]], [b, rng.choice([[1, 2], [2, 1, 3]])]
        kind = "atom-lists"
    elif k < 0.75:
        # repeated items, order ignored -> index maps; items may be containers (shared objects in the payload)
        items = [rng.choice([1, 2, 3, "a", "b", [1, 2], {"x": 1}, (1, 2), None, 2.5]) for _ in range(rng.randint(1, 5))]
        import copy
        a = [copy.deepcopy(rng.choice(items)) for _ in range(rng.randint(1, 6))]
        b = [copy.deepcopy(rng.choice(items + [7, [3]])) for _ in range(rng.randint(1, 6))]
        t1, t2 = (a, b) if rng.random() < 0.7 else ({"q": a}, {"q": b})
        kw = {"ignore_order": True, "report_repetition": True}
        kind = "ignore-order"
    elif k < 0.86:
        # sets, frozensets, tuples, None and type changes
        def small():
            if rng.random() < 0.25:
                # class objects as plain VALUES (a schema: field -> accepted types); after seeded C14-10
                nt = type(None)
                return rng.choice([nt, str, int, (str, nt), [int, nt], {"t": nt}, [str], bool, {"of": (list, dict)}, float, bytes, tuple, set, frozenset])
            return rng.choice([None, 1, "a", 2.5, True, b"ab", (1, 2), [1], {1, 2}, frozenset([1, "a"]), {"k": None}, {1: 2, None: 3}])
        keys = list({q: 0 for q in rng.sample(["a", "b", "c", "d", 1, 2, None, True, 0.5], rng.randint(1, 5))})
        t1 = {q: small() for q in keys}
        t2 = dict(t1)
        for q in rng.sample(keys, rng.randint(1, len(keys))):
            r = rng.random()
            if r < 0.6:
                t2[q] = small()
            elif r < 0.8:
                t2.pop(q, None)
            elif isinstance(t2.get(q), set):
                t2[q] = set(t2[q]) ^ {rng.choice([1, 3, "z"])}
        if rng.random() < 0.4:
            t2[rng.choice(["new", 9, "n2"])] = small()
        kind = "typed"
    elif k < 0.93:
        # sets / frozensets of JSON scalars whose members come and go: set_item_added / set_item_removed only
        pool = [1, 2, 3, 7, "a", "b", "k", 2.5, None, True]

        def rs():
            return set(rng.sample(pool[:8], rng.randint(0, 4)))
        t1 = {"s": rs(), "f": frozenset(rs()), "l": [rs(), 1], "n": {"q": rs()}}
        t2 = {"s": set(t1["s"]), "f": frozenset(t1["f"]), "l": [set(t1["l"][0]), 1], "n": {"q": set(t1["n"]["q"])}}
        for _ in range(rng.randint(1, 4)):
            tgt = rng.choice(["s", "f", "l", "q"])
            cur = {"s": t2["s"], "f": set(t2["f"]), "l": t2["l"][0], "q": t2["n"]["q"]}[tgt]
            if cur and rng.random() < 0.5:
                cur.discard(rng.choice(sorted(cur, key=repr)))
            else:
                cur.add(rng.choice(pool[:8]))
            if tgt == "f":
                t2["f"] = frozenset(cur)
        kind = "json-sets"
    elif k < 0.97:
        # records matched by an id through iterable_compare_func -> iterable_item_moved,
        # _iterable_compare_func_was_used travels in the payload
        ids = rng.sample(range(1, 8), rng.randint(2, 5))
        a = [{"id": i, "v": rng.choice([1, "a", [1, 2], None])} for i in ids]
        b = [dict(x) for x in a]
        rng.shuffle(b)
        for x in b:
            if rng.random() < 0.4:
                x["v"] = rng.choice([2, "b", [1, 3]])
        if rng.random() < 0.5 and b:
            b.pop()
        if rng.random() < 0.5:
            b.insert(rng.randint(0, len(b)), {"id": 9, "v": 0})
        t1, t2 = a, b
        kw = {"iterable_compare_func": _by_id}
        kind = "compare-func"
    else:
        t1 = V.gen_value(rng, depth=2, width=3, kinds="LD")
        vals, _ = V.edit_script(rng, t1, rng.randint(1, 3))
        t2 = vals[-1]
        kw = {"ignore_order": True, "report_repetition": True} if rng.random() < 0.5 else {}
        kind = "json-ish"
    if rng.random() < 0.15:
        kw["verbose_level"] = 2
    return t1, t2, kw, kind


def _by_id(x, y, level=None):
    from deepdiff.helper import CannotCompare
    try:
        return x["id"] == y["id"]
    except Exception:
        raise CannotCompare() from None


def _src(o):
    """Python source of a generated value (eval gives it back): repr, except that class objects are written by name"""
    if isinstance(o, type):
        return "type(None)" if o is type(None) else o.__name__
    if type(o) is list:
        return "[%s]" % ", ".join(_src(x) for x in o)
    if type(o) is tuple:
        return "(%s%s)" % (", ".join(_src(x) for x in o), "," if len(o) == 1 else "")
    if type(o) is dict:
        return "{%s}" % ", ".join("%s: %s" % (_src(k), _src(x)) for k, x in o.items())
    if type(o) is set:
        return "{%s}" % ", ".join(_src(x) for x in o) if o else "set()"
    if type(o) is frozenset:
        return "frozenset([%s])" % ", ".join(_src(x) for x in o)
    return repr(o)


def perturb(rng, t):
    for _ in range(6):
        nv, k = V.edit(rng, t)
        if k is not None:
            return nv
    return [t]


def apply_delta(base, delta, sub=False):
    import copy
    b = copy.deepcopy(base)
    try:
        r = (b - delta) if sub else (b + delta)
        try:
            return ("ok", V.canon_sorted(r))
        except (TypeError, AssertionError):
            return ("ok-typed", cv_canon(r))      # class objects, floats outside the half-integers ... (order-insensitive, typed)
    except RecursionError:
        return ("raised", "RecursionError")
    except Exception as e:  # noqa
        return ("raised", type(e).__name__)


# ---------------------------------------------------------------------------
# one case
# ---------------------------------------------------------------------------

# every shape safe_to_import may have; the names are irrelevant to the payload: passing them must never
# stop Delta's own dump from loading (the built-in allow-list stays in force)
SAFE_SHAPES = [None, "verif_c14_mod.X", ["verif_c14_mod.X", "a.b"], ("a.b",), {"a.b", "c.d"}, frozenset({"a.b"}), set(), ""]


OFFSET_SOURCES = ["file@header", "file@second"]
_FIRST = {}


def positioned_loader(ctx, d, source, real_file, bid, aiv, safe):
    """A delta dumped into a file object that holds something else BEFORE it - a header (source file@header) or another,
    different delta dumped first (file@second) - and loaded again from the position where its dump() started.
    dump(file) writes at the current position and Delta(delta_file=file) reads from the current position, so the
    delta that comes back has to be this one.  real_file: an on-disk file opened 'rb', else an io.BytesIO.
    -> a function that performs the load (a fresh file object per call)"""
    from deepdiff import DeepDiff, Delta
    if "dump" not in _FIRST:
        _FIRST["dump"] = Delta(DeepDiff({"first": [1, 2]}, {"first": [1, 2, 3], "x": None}), bidirectional=True).dumps()
    buf = io.BytesIO()
    buf.write(b"DELTALOG\x00\x01" if source == "file@header" else _FIRST["dump"])
    offset = buf.tell()
    d.dump(buf)
    content = buf.getvalue()
    fn = os.path.join(ctx.scratch, "delta_container.bin")

    def load():
        if real_file:
            with open(fn, "wb") as f:
                f.write(content)
            with open(fn, "rb") as f:
                f.seek(offset)
                return Delta(delta_file=f, bidirectional=bid, always_include_values=aiv, safe_to_import=safe)
        f = io.BytesIO(content)
        f.seek(offset)
        return Delta(delta_file=f, bidirectional=bid, always_include_values=aiv, safe_to_import=safe)
    return load


def one_case(ctx, rng, idx, out):
    import logging
    logging.disable(logging.CRITICAL)
    from deepdiff import DeepDiff, Delta
    from deepdiff.serialization import json_dumps, json_loads, pickle_load
    t1, t2, kw, kind = gen_pair(rng)
    bid = rng.random() < 0.4
    aiv = rng.random() < 0.25
    try:
        dd = DeepDiff(t1, t2, **kw)
        d = Delta(dd, bidirectional=bid, always_include_values=aiv)
    except Exception as e:  # the diff / delta cannot be built: not this property's subject
        ctx.count("gen:unbuildable:" + type(e).__name__)
        return
    payload = d.diff
    case = {"t1": _src(t1), "t2": _src(t2), "diff_kwargs": {k_: ("_by_id" if k_ == "iterable_compare_func" else v_) for k_, v_ in kw.items()},
            "bidirectional": bid, "always_include_values": aiv, "gen": kind}
    try:
        pcanon = pv_canon(payload)
        pcoq = pv_coq(payload)
    except Unsupported as e:
        ctx.count("gen:outside-universe")
        pcanon = pcoq = None
    ctx.seen((repr(pcanon), bid, aiv, repr(t1)), nontrivial=bool(payload))
    ctx.count("gen:" + kind)
    for cat in payload:
        ctx.count("category:" + cat)
    if bid:
        ctx.count("flag:bidirectional")

    # ---- pickle: bytes ----------------------------------------------------
    try:
        b1 = d.dumps()
    except Exception as e:  # noqa
        ctx.fail(dict(case, path="pickle", stage="dumps", error=type(e).__name__), "Delta.dumps() raised %s" % type(e).__name__)
        return
    res = P.real_load(b1, None)
    if res["cls"] != "ok":
        ctx.fail(dict(case, path="pickle", stage="load", error=res["exc"]), "Delta's own dump does not load: %s" % res["exc"])
        return
    loaded = res["result"]
    if not typed_payload_eq(loaded, payload):
        ctx.fail(dict(case, path="pickle", stage="payload", loaded=repr(loaded), original=repr(payload)),
                 "pickle_load(delta.dumps()) differs from delta.diff")
    safe = SAFE_SHAPES[idx % len(SAFE_SHAPES)]
    ctx.count("safe_to_import:" + type(safe).__name__)
    case["safe_to_import"] = repr(safe)
    try:
        d2 = Delta(b1, bidirectional=bid, always_include_values=aiv, safe_to_import=safe)
    except Exception as e:  # noqa
        ctx.fail(dict(case, path="pickle", stage="load", error=type(e).__name__),
                 "Delta's own dump does not load when safe_to_import=%r is passed: %s" % (safe, type(e).__name__))
        return
    if not typed_payload_eq(d2.diff, payload):
        ctx.fail(dict(case, path="pickle", stage="Delta(bytes)", loaded=repr(d2.diff), original=repr(payload)),
                 "Delta(delta.dumps()).diff differs from delta.diff")
    if not typed_payload_eq(d2.to_dict(), d.to_dict()):
        ctx.fail(dict(case, path="pickle", stage="to_dict", loaded=repr(d2.to_dict()), original=repr(d.to_dict())),
                 "Delta(delta.dumps()).to_dict() differs from delta.to_dict()")
    # second generation
    b2 = d2.dumps()
    res2 = P.real_load(b2, None)
    if res2["cls"] != "ok" or not typed_payload_eq(res2["result"], payload):
        ctx.fail(dict(case, path="pickle", stage="second dump"), "dumping the reloaded delta again gives a different payload")
    # file object and path; every application below uses a FRESH delta object (a Delta whose
    # application raised keeps internal state and behaves differently the next time: not C14's subject)
    mk = {"orig": lambda: Delta(dd, bidirectional=bid, always_include_values=aiv),
          "bytes": lambda: Delta(b1, bidirectional=bid, always_include_values=aiv, safe_to_import=safe)}
    if idx % 3 == 0:
        fn = os.path.join(ctx.scratch, "delta_%d.bin" % (idx % 7))
        with open(fn, "wb") as f:
            d.dump(f)

        def from_file():
            with open(fn, "rb") as f:
                return Delta(delta_file=f, bidirectional=bid, always_include_values=aiv, safe_to_import=safe)
        mk["file"] = from_file
        mk["path"] = lambda: Delta(delta_path=fn, bidirectional=bid, always_include_values=aiv, safe_to_import=safe)
        # the same through file objects in which the dump does not start at offset 0
        case["real_file"] = real_file = (idx // 3) % 2 == 0
        for src in OFFSET_SOURCES:
            mk[src] = positioned_loader(ctx, d, src, real_file, bid, aiv, safe)
        ctx.count("source:file-at-offset(" + ("disk" if real_file else "BytesIO") + ")")
        for nm in ["file", "path"] + OFFSET_SOURCES:
            try:
                same = typed_payload_eq(mk[nm]().diff, payload)
            except Exception as e:  # noqa
                ctx.fail(dict(case, path="pickle", stage="load", source=nm, error=type(e).__name__),
                         "Delta's own dump does not load from %s when safe_to_import=%r is passed: %s" % (nm, safe, type(e).__name__))
                return
            if not same:
                ctx.fail(dict(case, path="pickle", stage=nm, source=nm), "Delta loaded from %s carries a different payload" % nm)
        ctx.count("source:file+path")
    # behaviour on three bases
    bases = [t1, perturb(rng, t1), perturb(rng, perturb(rng, t1))]
    wants = []
    for bi, base in enumerate(bases):
        want = apply_delta(base, mk["orig"]())
        wants.append(want)
        ctx.count("behaviour:" + want[0])
        for nm in mk:
            if nm == "orig":
                continue
            got = apply_delta(base, mk[nm]())
            if got != want:
                ctx.fail(dict(case, path="pickle", stage="behaviour", source=nm, base=_src(base), original=want, reloaded=got),
                         "the reloaded delta (%s) behaves differently from the original on base #%d" % (nm, bi))
    if bid:
        want = apply_delta(t2, mk["orig"](), sub=True)
        got = apply_delta(t2, mk["bytes"](), sub=True)
        if got != want:
            ctx.fail(dict(case, path="pickle", stage="behaviour-sub", original=want, reloaded=got),
                     "t2 - reloaded delta differs from t2 - original delta")
    # correspondence (a): the model VM on the real bytes (both generations)
    if pcanon is not None:
        for gen_i, (bb, rr) in enumerate(((b1, res), (b2, res2))):
            if gen_i == 1 and (idx % 4 or res2["cls"] != "ok"):
                continue
            try:
                ops = P.parse(bb)
            except ValueError as e:
                ctx.count("corr:opcode-outside-model")
                continue
            try:
                expected = [pv_canon(rr["result"]), [[m, n] for m, n, r in rr["calls"] if r]]
            except Unsupported:
                continue
            # the BYTES of the dump go to the model: decoded as the C unpickler reads them (Pickle/Bytes.v) and run on the
            # machine; decoded as pickletools.genops reads them; no frame byte is skipped (hypothesis of
            # C14_bytes_sequential_reading)
            bs = P.coq_bytes(bb)
            out["vm"].append(("(let bs := %s in SL [sx_load_bytes default_world %s bs; sx_genops %s bs; sx_bool (negb (snd (bdecode %s bs)))])" % (
                                  bs, P.coq_c_dialect(bb), P.coq_g_dialect(bb), P.coq_c_dialect(bb)),
                              [expected, P.genops_obs(bb), True], dict(case, corr="vm", generation=gen_i + 1)))
            prog = "(bdecode_ops (c_dialect no_text) %s)" % bs
            if gen_i == 0 and not kw:      # ordered mode: the payload as the Delta application model reads it
                try:
                    from harness import deltacommon as DC
                    obs = DC.delta_obs(rr["result"])
                    if not any(e and e[0] == "UNEXPECTED-CATEGORY" for e in obs):
                        b_ = "true" if bid else "false"
                        out["dlt"].append(("sx_delta_all default_world %s %s" % (b_, prog),
                            [obs, obs, _norm_opcode_payload(pv_canon(rr["result"]))], dict(case, corr="delta-model")))
                except Exception:
                    ctx.count("corr:delta-model-outside-universe")
            elif gen_i == 0 and kw.get("ignore_order") and "iterable_compare_func" not in kw:
                # ignore_order: the payload with its index maps as the ignore-order application model (Delta/DeltaIO.v) reads it
                try:
                    from harness import deltacommon as DC
                    obs = DC.delta_io_obs(rr["result"])
                    if not any(e and e[0] == "UNEXPECTED-CATEGORY" for e in obs[0]):
                        b_ = "true" if bid else "false"
                        out["dlt"].append(("sx_delta_io_all default_world %s %s" % (b_, prog),
                            [obs, obs, _norm_opcode_payload(pv_canon(rr["result"]))], dict(case, corr="delta-io-model")))
                        ctx.count("corr:ignore-order payload read as delta_io" + (" (with index maps)" if obs[1] else " (no index map)"))
                except Exception:
                    ctx.count("corr:delta-io-model-outside-universe")
            shared = _shares_mutable(rr["result"])
            ctx.count("dump:with-shared-mutable-container" if shared else "dump:no-shared-mutable-container")
            # the payload as THIS dump wrote it (set iteration order is that of the dumped object)
            out["acc"].append(("(%s, %s)" % (prog, pcoq if gen_i == 0 else pv_coq(d2.diff)), shared,
                               dict(case, corr="accepts", generation=gen_i + 1, shared=shared)))
            memo_kind, prev = {}, None
            for o in ops:
                ctx.count("dump-op:" + o[0])
                if o[0] == "MEMOIZE":
                    memo_kind[len(memo_kind)] = prev
                elif o[0] in ("BINGET", "LONG_BINGET") and memo_kind.get(o[1]) in ("EMPTY_LIST", "EMPTY_DICT", "EMPTY_SET"):
                    ctx.count("dump:BINGET-of-shared-mutable-container")
                prev = o[0]
        if idx % 2 == 0 and len(out["enc"]) < out["enc_max"]:
            out["enc"].append((pcoq, pcanon, case))

    # ---- JSON ---------------------------------------------------------------
    jrep = json_representable(payload)
    try:
        dj = Delta(dd, bidirectional=bid, always_include_values=aiv, serializer=json_dumps)
        text = dj.dumps()
        jerr = None
    except Exception as e:  # noqa
        text, jerr = None, type(e).__name__
    ctx.count("json:representable" if jrep else "json:not-representable")
    reload_err = None
    dj2 = None
    if text is not None:
        try:
            dj2 = Delta(text, deserializer=json_loads, serializer=json_dumps, bidirectional=bid, always_include_values=aiv)
        except Exception as e:  # noqa
            reload_err = type(e).__name__
    if not jrep and json_setitems_form(payload):
        ctx.count("json:set-items(payload relation + behaviour)")
        jcase = dict(case, path="json", set_items=True, payload=repr(payload))
        if jerr:
            ctx.fail(dict(jcase, stage="dumps", error=jerr), "json_dumps raised %s on a delta with set items" % jerr)
        elif reload_err:
            ctx.fail(dict(jcase, stage="load", error=reload_err), "a JSON-serialised delta with set items does not load again: %s" % reload_err)
        else:
            def mkj():
                return Delta(text, deserializer=json_loads, serializer=json_dumps, bidirectional=bid, always_include_values=aiv)
            # the payload relation of the model (C14_json_set_items_roundtrip_partial): equal up to set ~ list
            # of its members at exactly the set-item categories, and stable from the second trip on
            want_p = setlist_py(payload)
            if not typed_payload_eq(dj2.diff, want_p):
                ctx.fail(dict(jcase, stage="payload-relation", loaded=repr(dj2.diff), expected=repr(want_p),
                              nonetype_only=_nonetype_only(want_p, dj2.diff)),
                         "the JSON-reloaded payload is not the original with its set items as lists")
            else:
                try:
                    dj3 = Delta(dj2.dumps(), deserializer=json_loads, serializer=json_dumps, bidirectional=bid, always_include_values=aiv)
                    if not typed_payload_eq(dj3.diff, dj2.diff):
                        ctx.fail(dict(jcase, stage="second trip", loaded=repr(dj3.diff)), "a second JSON trip changes the payload again")
                except Exception as e:  # noqa
                    ctx.fail(dict(jcase, stage="second trip", error=type(e).__name__), "the JSON-reloaded delta cannot be dumped / loaded again")
            if pcanon is not None and _json_model_domain(payload):
                try:
                    from harness import deltacommon as DC
                    obs_j = DC.delta_obs(dj2.diff) if not kw else None
                    obs_o = DC.delta_obs(payload) if not kw else None
                    exp = [pv_canon(dj2.diff), pv_canon(want_p)]
                    b_ = "true" if bid else "false"
                    if obs_j is not None and not any(e and e[0] == "UNEXPECTED-CATEGORY" for e in obs_j):
                        out["jset"].append(("sx_json_sets %s %s" % (b_, pcoq), exp + [obs_j, obs_o], dict(case, corr="json-set-items")))
                    else:
                        out["jset"].append(("match sx_json_sets %s %s with SL (a :: b :: _) => SL [a; b] | x => x end" % (b_, pcoq), exp,
                                            dict(case, corr="json-set-items")))
                except Exception:
                    ctx.count("corr:json-set-items-outside-universe")
            for bi, base in enumerate(bases):
                got = apply_delta(base, mkj())
                if got != wants[bi]:
                    ctx.fail(dict(jcase, stage="behaviour", base=_src(base), original=wants[bi], reloaded=got),
                             "the delta with set items reloaded from JSON behaves differently on base #%d" % bi)
            if bid:
                want = apply_delta(t2, mk["orig"](), sub=True)
                got = apply_delta(t2, mkj(), sub=True)
                if got != want:
                    ctx.fail(dict(jcase, stage="behaviour-sub", base=_src(t2), original=want, reloaded=got),
                             "t2 - (delta with set items reloaded from JSON) differs from t2 - original delta")
    if jrep:
        jcase = dict(case, path="json", has_opcodes="_iterable_opcodes" in payload, payload=repr(payload))
        if jerr:
            ctx.fail(dict(jcase, stage="dumps", error=jerr), "json_dumps raised %s on a JSON-representable delta" % jerr)
        elif reload_err:
            ctx.fail(dict(jcase, stage="load", error=reload_err), "a JSON-serialised delta does not load again: %s" % reload_err)
        else:
            if not typed_payload_eq(dj2.diff, payload):
                nt = _nonetype_only(payload, dj2.diff)
                ctx.fail(dict(jcase, stage="payload", loaded=repr(dj2.diff), nonetype_only=nt),
                         "the JSON round trip changes the payload")
                if nt and pcanon is not None and "_iterable_opcodes" not in payload:
                    # the exact characterisation of the finding (C14_json_nonetype_exact): the payload is in the extended
                    # fragment, has a NoneType type entry, and what came back is jimg of it
                    try:
                        out["json"].append(("SL [sx_bool (json_okN %s); sx_bool (has_nonetype %s); sx_pv (jimg %s)]" % (pcoq, pcoq, pcoq),
                                            [True, True, pv_canon(dj2.diff)], dict(case, corr="json-nonetype-exact")))
                        ctx.count("corr:json NoneType image (jimg) against the reloaded payload")
                    except Unsupported:
                        pass
            for bi, base in enumerate(bases):
                want = wants[bi]
                got = apply_delta(base, Delta(text, deserializer=json_loads, serializer=json_dumps, bidirectional=bid, always_include_values=aiv))
                if got != want:
                    ctx.fail(dict(jcase, stage="behaviour", base=_src(base), original=want, reloaded=got),
                             "the delta reloaded from JSON behaves differently on base #%d" % bi)
            if bid:
                want = apply_delta(t2, mk["orig"](), sub=True)
                got = apply_delta(t2, Delta(text, deserializer=json_loads, serializer=json_dumps, bidirectional=bid, always_include_values=aiv), sub=True)
                if got != want:
                    ctx.fail(dict(jcase, stage="behaviour-sub", base=_src(t2), original=want, reloaded=got),
                             "t2 - (delta reloaded from JSON) differs from t2 - original delta")
            try:
                t3 = dj2.dumps()
                if json.loads(t3) != json.loads(text):
                    ctx.fail(dict(jcase, stage="second dump", nonetype_only=_nonetype_only(payload, dj2.diff) and not typed_payload_eq(dj2.diff, payload)),
                             "dumping the JSON-reloaded delta again gives different JSON")
            except Exception as e:  # noqa
                ctx.fail(dict(jcase, stage="second dump", error=type(e).__name__), "dumping the JSON-reloaded delta raised")
    # correspondence (c)
    if pcanon is not None and _json_model_domain(payload):
        try:
            if text is None:
                exp_json = "raises"
            else:
                exp_json = json_canon(json.loads(text, object_pairs_hook=_Pairs))
            if text is None:
                exp_back = "raises"
            elif dj2 is None:
                exp_back = "raises"
            else:
                exp_back = pv_canon(dj2.diff)
            out["json"].append(("SL [sx_ojv (to_json %s); sx_opv (json_roundtrip %s)]" % (pcoq, pcoq), [exp_json, exp_back],
                                dict(case, corr="json")))
        except Unsupported:
            ctx.count("corr:json-outside-model")


def _norm_opcode_payload(c):
    """Opcode.new_values None reads as [] in Delta ("new_values or []"): the rebuilt payload writes []"""
    if isinstance(c, list) and c and c[0] == "Op":
        return c[:7] + [["L", []] if c[7] is None else _norm_opcode_payload(c[7])]
    if isinstance(c, list):
        return [_norm_opcode_payload(x) for x in c]
    return c


def _shares_mutable(obj):
    """some mutable object (list / dict / set / SetOrdered / Opcode record, or a tuple that contains
    one) occurs at two positions of the loaded payload: the pickler fetched it from the memo"""
    seen = set()
    found = [False]

    def walk(o):
        """-> True when o is or contains a mutable object"""
        mut = False
        if isinstance(o, dict):
            kids = list(o.keys()) + list(o.values())
            mut = True
        elif isinstance(o, (list, set)) or type(o).__name__ == "SetOrdered":
            kids = list(o)
            mut = True
        elif isinstance(o, tuple):
            kids = list(o)
            mut = type(o) is not tuple      # an Opcode record is an instance
        elif isinstance(o, frozenset):
            kids = []
        else:
            return False
        if mut and id(o) in seen:
            found[0] = True
            return True
        inner = False
        for k in kids:
            inner = walk(k) or inner
        if (mut or inner):
            if id(o) in seen:
                found[0] = True
            seen.add(id(o))
        return mut or inner
    walk(obj)
    return found[0]


def _has_shared_container(ops):
    """a BINGET whose memo entry was made right after EMPTY_LIST / EMPTY_DICT / EMPTY_SET / NEWOBJ / a
    tuple or frozenset that (transitively) contains one: the dump shares a mutable object"""
    memo_kind, prev, n = {}, None, 0
    stack_mut = []   # crude: names of memoised mutable producers
    for o in ops:
        if o[0] == "MEMOIZE":
            memo_kind[n] = prev
            n += 1
        elif o[0] in ("BINPUT", "LONG_BINPUT", "PUT"):
            memo_kind[o[1]] = prev
            n += 1
        elif o[0] in ("BINGET", "LONG_BINGET", "GET"):
            if memo_kind.get(o[1]) in ("EMPTY_LIST", "EMPTY_DICT", "EMPTY_SET", "NEWOBJ", "TUPLE", "TUPLE1", "TUPLE2", "TUPLE3"):
                return True
        prev = o[0]
    return False


def _json_model_domain(p):
    """bytes outside ASCII and non-half floats are outside the JSON model"""
    if type(p) is bytes:
        return p.isascii()
    if type(p) is float:
        return _is_half(p)
    if isinstance(p, dict):
        return all(_json_model_domain(k) and _json_model_domain(v) for k, v in p.items())
    if isinstance(p, (list, tuple, set, frozenset)):
        return all(_json_model_domain(x) for x in p)
    return True


def _nonetype_only(a, b):
    """b (the JSON-reloaded payload) is exactly what the finding C14-JSON-NONETYPE predicts for a (the payload
    that should have come back): a has a NoneType at old_type / new_type of a dict holding both keys, and b is a
    with exactly those entries replaced by the value None - nothing else differs, b itself is not normalised
    (the model's JsonNoneProofs.jimg; C14_json_nonetype_exact)"""
    seen = [False]

    def jimg(x):
        if isinstance(x, dict):
            both = "old_type" in x and "new_type" in x
            out = {}
            for k, v in x.items():
                if both and k in ("old_type", "new_type") and v is type(None):
                    seen[0] = True
                    out[k] = None
                else:
                    out[k] = jimg(v)
            return out
        if isinstance(x, list):
            return [jimg(y) for y in x]
        return x
    img = jimg(a)
    return seen[0] and typed_payload_eq(img, b)


# ---------------------------------------------------------------------------
# values outside the model (numpy arrays, objects with an unusual __eq__): direct oracle only
# ---------------------------------------------------------------------------

EXO_MOD = "verif_c14_types"


class EqRaises:
    """== raises"""
    def __init__(self, v):
        self.v = v

    def __eq__(self, other):
        raise RuntimeError("EqRaises.__eq__ must not be called by a serializer")

    __hash__ = None


class EqList:
    """== returns a non-bool whose truth value is an error, like an ndarray"""
    def __init__(self, v):
        self.v = v

    def __eq__(self, other):
        return _Ambiguous()

    __hash__ = None


class Plain:
    """an ordinary user class: needs safe_to_import to be loaded"""
    def __init__(self, v):
        self.v = v

    def __eq__(self, other):
        return type(other) is Plain and self.v == other.v

    __hash__ = None


class _Ambiguous:
    def __bool__(self):
        raise ValueError("the truth value of this comparison is ambiguous")


def install_exotic():
    import sys
    import types
    m = types.ModuleType(EXO_MOD)
    for c in (EqRaises, EqList, Plain):
        c.__module__ = EXO_MOD
        c.__qualname__ = c.__name__
        setattr(m, c.__name__, c)
    sys.modules[EXO_MOD] = m


def exotic_cases():
    import numpy as np
    A = np.array
    return [
        ("ndarray added to a dict", lambda: ({"a": 1}, {"a": 1, "b": A([1, 2, 3])}, {})),
        ("2-d ndarray appended to a list", lambda: ([1, 2], [1, 2, A([[1, 2], [3, 4]])], {})),
        ("type change int -> ndarray", lambda: ({"x": 5}, {"x": A([1.5, 2.5])}, {})),
        ("ndarray removed from a dict", lambda: ({"k": A([1, 2, 3]), "z": 1}, {"z": 1}, {})),
        ("ndarray element changed (numpy paths)", lambda: ({"a": A([1, 2, 3])}, {"a": A([1, 5, 3])}, {})),
        ("list of ndarrays grows (numpy paths)", lambda: ({"a": [A([1, 2])]}, {"a": [A([1, 2]), A([3, 4, 5])]}, {})),
        ("ndarray of strings added", lambda: ([], [A(["a", "bc"])], {})),
        ("ndarray replaces None", lambda: ({"n": None}, {"n": A([0, 0])}, {})),
        ("object whose == raises, added", lambda: ({"a": 1}, {"a": 1, "w": EqRaises(3)}, {})),
        ("object whose == raises, in a new list item", lambda: ([1], [1, [EqRaises("x"), 2]], {})),
        ("object whose == is not a bool, added", lambda: ({"a": 1}, {"a": 1, "w": EqList([1, 2])}, {})),
        ("object whose == is not a bool, type change", lambda: ({"q": 1}, {"q": EqList(1)}, {})),
        ("user class instance added", lambda: ({"a": 1}, {"a": 1, "p": Plain([1, 2])}, {})),
        ("user class as new_type of a type change", lambda: ([1, "x"], [Plain(1), "x"], {})),
        ("user class as old_type of a type change", lambda: ({"k": Plain("v")}, {"k": None}, {})),
        # class objects as VALUES of attribute_added / attribute_removed (after seeded C14-10): no type_changes report next to them
        ("attribute holding the class type(None) added", lambda: (_plain(1), _plain(1, extra=type(None)), {})),
        ("attribute holding [str, NoneType] removed", lambda: (_plain(2, extra=[str, type(None)]), _plain(2), {})),
        ("attribute holding {'k': (NoneType, Decimal)} added, in a dict", lambda: ({"o": _plain(3)}, {"o": _plain(3, extra={"k": (type(None), __import__("decimal").Decimal)})}, {})),
    ]


def _plain(v, **attrs):
    p = Plain(v)
    for k, x in attrs.items():
        setattr(p, k, x)
    return p


def exo_eq(a, b):
    """structural equality that never calls an unusual __eq__"""
    import numpy as np
    if type(a) is not type(b):
        return False
    if isinstance(a, np.ndarray):
        return a.dtype == b.dtype and a.shape == b.shape and bool(np.array_equal(a, b))
    if isinstance(a, Plain):
        return exo_eq(vars(a), vars(b))
    if isinstance(a, (EqRaises, EqList)):
        return exo_eq(a.v, b.v)
    if isinstance(a, dict):
        return list(a.keys()) == list(b.keys()) and all(exo_eq(a[k], b[k]) for k in a)
    if isinstance(a, (list, tuple)):
        return len(a) == len(b) and all(exo_eq(x, y) for x, y in zip(a, b))
    if isinstance(a, (set, frozenset)):
        return a == b
    if isinstance(a, np.generic):
        return bool(a == b)
    return a == b


def exo_apply(base, delta):
    import copy
    try:
        return ("ok", delta + copy.deepcopy(base))
    except Exception as e:  # noqa
        return ("raised", type(e).__name__)


def exotic_one(ctx, k, bid):
    import logging
    import re
    logging.disable(logging.CRITICAL)
    from deepdiff import DeepDiff, Delta
    from deepdiff.serialization import ForbiddenModule
    name, build = exotic_cases()[k]
    t1, t2, kw = build()
    case = {"exotic": k, "what": name, "bidirectional": bid}
    ctx.seen(("exotic", k, bid), nontrivial=True)
    ctx.count("exotic:" + ("numpy" if "ndarray" in name else "unusual-eq"))
    try:
        d = Delta(DeepDiff(t1, t2, **kw), bidirectional=bid)
    except Exception as e:  # noqa
        ctx.count("exotic:unbuildable:" + type(e).__name__)
        return
    try:
        b = d.dumps()
    except Exception as e:  # noqa
        ctx.fail(dict(case, stage="dumps", error=type(e).__name__), "Delta.dumps() raised %s for a delta holding %s" % (type(e).__name__, name))
        return
    buf = io.BytesIO()
    try:
        d.dump(buf)
    except Exception as e:  # noqa
        ctx.fail(dict(case, stage="dump(file)", error=type(e).__name__), "Delta.dump(file) raised %s for a delta holding %s" % (type(e).__name__, name))
        return
    if buf.getvalue() != b:
        ctx.fail(dict(case, stage="dump(file)"), "dump(file) and dumps() wrote different bytes")
    # the classes these values need are not on the built-in allow-list: name them, one refusal at a time
    safe = set()
    d2 = None
    for _ in range(10):
        try:
            d2 = Delta(b, bidirectional=bid, safe_to_import=safe or None)
            break
        except ForbiddenModule as e:
            m = re.search(r"Module '([^']+)'", str(e))
            if not m or m.group(1) in safe:
                break
            if not (m.group(1).startswith(EXO_MOD + ".") or m.group(1).startswith("numpy")):
                # only the classes of the values themselves may be asked for: a dump that needs anything else
                # (builtins.type, say, for a class written by reduce(type, ...)) is not what the restricted pickler writes
                ctx.fail(dict(case, stage="load", error="ForbiddenModule", needs=m.group(1), safe_to_import=sorted(safe)),
                         "the dump of a delta holding %s needs %s to load, which is neither allow-listed nor a class of its values" % (name, m.group(1)))
                return
            safe.add(m.group(1))
        except Exception as e:  # noqa
            ctx.fail(dict(case, stage="load", error=type(e).__name__, safe_to_import=sorted(safe)),
                     "the dump of a delta holding %s does not load: %s" % (name, type(e).__name__))
            return
    if d2 is None:
        ctx.fail(dict(case, stage="load", error="ForbiddenModule", safe_to_import=sorted(safe)),
                 "the dump of a delta holding %s does not load even with its classes in safe_to_import" % name)
        return
    if not exo_eq(d2.diff, d.diff):
        ctx.fail(dict(case, stage="payload", loaded=repr(d2.diff), original=repr(d.diff)), "the reloaded payload differs (%s)" % name)
    # the same dump through a file object and a path, safe_to_import passed each time: the three sources are equivalent
    fn = os.path.join(ctx.scratch, "exotic_%d.bin" % k)
    with open(fn, "wb") as f:
        d.dump(f)

    def from_file():
        with open(fn, "rb") as f:
            return Delta(delta_file=f, bidirectional=bid, safe_to_import=safe or None)
    sources = {"bytes": lambda: Delta(b, bidirectional=bid, safe_to_import=safe or None), "file": from_file,
               "path": lambda: Delta(delta_path=fn, bidirectional=bid, safe_to_import=safe or None)}
    for sname in ("file", "path"):
        ctx.count("exotic:source:" + sname)
        try:
            dx = sources[sname]()
        except Exception as e:  # noqa
            ctx.fail(dict(case, stage="load", source=sname, error=type(e).__name__, safe_to_import=sorted(safe)),
                     "the dump of a delta holding %s loads from bytes but not from a %s with the same safe_to_import: %s" % (
                         name, sname, type(e).__name__))
            continue
        if not exo_eq(dx.diff, d.diff):
            ctx.fail(dict(case, stage="payload", source=sname), "the payload reloaded from a %s differs (%s)" % (sname, name))
        for base in (t1, t2):
            w_, g_ = exo_apply(base, Delta(DeepDiff(t1, t2, **kw), bidirectional=bid)), exo_apply(base, sources[sname]())
            if w_[0] != g_[0] or (w_[0] == "ok" and not exo_eq(w_[1], g_[1])) or (w_[0] == "raised" and w_[1] != g_[1]):
                ctx.fail(dict(case, stage="behaviour", source=sname, original=repr(w_), reloaded=repr(g_)),
                         "the delta reloaded from a %s behaves differently (%s)" % (sname, name))
    for base in (t1, t2):
        w_, g_ = exo_apply(base, Delta(DeepDiff(t1, t2, **kw), bidirectional=bid)), exo_apply(base, Delta(b, bidirectional=bid, safe_to_import=safe or None))
        if w_[0] != g_[0] or (w_[0] == "ok" and not exo_eq(w_[1], g_[1])) or (w_[0] == "raised" and w_[1] != g_[1]):
            ctx.fail(dict(case, stage="behaviour", original=repr(w_), reloaded=repr(g_)), "the reloaded delta behaves differently (%s)" % name)


# ---------------------------------------------------------------------------
# the dump is a function of the delta alone: unrelated earlier calls in the process must not matter
# ---------------------------------------------------------------------------

def interference_cases():
    return [
        ("type changes without values", [1, "2", 3.5], ["1", 2, 3], {}),
        ("type changes with values", {"a": 1, "b": None, "c": "x"}, {"a": "one", "b": 2, "c": [1]}, {}),
        ("set items", {"s": {1, 2, 3}, "f": frozenset({"a"})}, {"s": {2, 3, 4}, "f": frozenset({"a", "b"})}, {}),
        ("tuples and nesting", {"t": (1, 2), "l": [1, [2, 3]]}, {"t": (1, 3), "l": [1, [2, 4], 5]}, {}),
        ("opcodes", [1, 2, 3, 4], [9, 8, 1, 2, 3, 4], {}),
    ]


def _unrelated_calls():
    """what some other part of the application may do with deepdiff's JSON helpers"""
    from deepdiff import DeepDiff
    from deepdiff.serialization import json_dumps
    from collections.abc import Mapping
    mapping = {type: lambda x: x.__module__ + "." + x.__qualname__, set: lambda x: {"__set__": sorted(x, key=repr)},
               tuple: lambda x: {"__tuple__": list(x)}, bytes: lambda x: x.hex(), Mapping: lambda x: sorted(x.items())}
    DeepDiff({"a": 1, "s": {1}}, {"a": "1", "s": {2}, "t": (1,)}).to_json(default_mapping=mapping)
    DeepDiff([1], [None]).to_json(default_mapping={type: lambda x: "T:" + x.__name__})
    json_dumps({"k": {1, 2}, "ty": int, "b": b"ab", "t": (1, 2)}, default_mapping=mapping)
    json_dumps({"k": frozenset([1])}, default_mapping={frozenset: list, set: tuple})


def interference_one(ctx, k, bid, interfere=True):
    import logging
    logging.disable(logging.CRITICAL)
    from deepdiff import DeepDiff, Delta
    from deepdiff.serialization import json_dumps, json_loads
    name, t1, t2, kw = interference_cases()[k]
    case = {"interference": k, "bidirectional": bid}
    ctx.seen(("interference", k, bid), nontrivial=True)
    ctx.count("interference:cases")

    def dump_all():
        d = Delta(DeepDiff(t1, t2, **kw), bidirectional=bid)
        return d.dumps(), Delta(DeepDiff(t1, t2, **kw), bidirectional=bid, serializer=json_dumps).dumps()

    def behaviour(text):
        return [apply_delta(b_, Delta(text, deserializer=json_loads, bidirectional=bid)) for b_ in (t1, t2, [t1])]
    try:
        pk0, js0 = dump_all()
        beh0 = behaviour(js0)
    except Exception as e:  # noqa: not this stream's subject (covered by the main stream)
        ctx.count("interference:unbuildable:" + type(e).__name__)
        return
    if interfere:
        _unrelated_calls()
    try:
        pk1, js1 = dump_all()
    except Exception as e:  # noqa
        ctx.fail(dict(case, stage="dumps-after", error=type(e).__name__),
                 "after unrelated to_json / json_dumps calls with a default_mapping, dumping the same delta raises %s" % type(e).__name__)
        return
    if pk1 != pk0:
        ctx.fail(dict(case, stage="pickle-after"), "the pickle dump of the same delta changed after unrelated JSON calls")
    if json.loads(js1) != json.loads(js0):
        ctx.fail(dict(case, stage="json-after"),
                 "the JSON dump of the same delta (%s) changed after unrelated to_json / json_dumps calls with a default_mapping: %s -> %s" % (
                     name, js0[:160], js1[:160]))
        return
    try:
        beh1 = behaviour(js1)
    except Exception as e:  # noqa
        ctx.fail(dict(case, stage="load-after", error=type(e).__name__), "the JSON dump no longer loads after unrelated JSON calls")
        return
    if beh1 != beh0:
        ctx.fail(dict(case, stage="behaviour-after"),
                 "the JSON-persisted delta behaves differently after unrelated JSON calls (%s)" % name)


def interference_stream(ctx):
    n = len(interference_cases())
    for k in range(n):
        for bid in (False, True):
            interference_one(ctx, k, bid)
    ctx.note("interference", "%d deltas x bidirectional dumped (pickle and JSON) before and after unrelated in-process "
             "DeepDiff.to_json(default_mapping=...) / json_dumps(default_mapping=...) calls; the rest of the run happens after them" % n)


def exotic_stream(ctx):
    install_exotic()
    n = len(exotic_cases())
    for k in range(n):
        for bid in (False, True):
            exotic_one(ctx, k, bid)
    ctx.note("exotic_values", "numpy arrays and objects with an unusual __eq__ are outside the Coq payload model; "
             "%d hand-written deltas x bidirectional go through dumps()/dump(file)/reload with a direct oracle only" % n)


# ---------------------------------------------------------------------------
# class objects as VALUES x every combination of report categories (after seeded C14-10)
#
# The persisted form must not depend on WHICH report categories a delta holds, nor on where in it a value sits
# that only a hook of the restricted pickler / unpickler handles (type(None) travels as the persistent id
# "<<NoneType>>"; every other class as a global that find_class must let through).  This stream builds deltas
# from COMPONENTS - one per report category, each under its own key of a top-level dict - and puts a class object
# (every allow-listed name that can be a value) into the value position of every component, bare and wrapped at
# several depths / sizes, alone, in pairs, with and without a type_changes record next to it; both as DeepDiff
# makes them (mode "dd") and as a payload dict handed to Delta (mode "raw": the positions DeepDiff cannot reach,
# e.g. new_value / old_value of values_changed holding NoneType).  Each delta goes through dumps(), dump(BytesIO),
# dump(file on disk) and comes back from bytes, file object and path.
# ---------------------------------------------------------------------------

CV_BASELINE = ['builtins.range', 'builtins.complex', 'builtins.set', 'builtins.frozenset', 'builtins.slice', 'builtins.str',
               'builtins.bytes', 'builtins.list', 'builtins.tuple', 'builtins.int', 'builtins.float', 'builtins.dict',
               'builtins.bool', 'builtins.bin', 'builtins.None', 'datetime.datetime', 'datetime.time', 'datetime.timedelta',
               'decimal.Decimal', 'uuid.UUID', 'orderly_set.sets.OrderedSet', 'orderly_set.sets.OrderlySet',
               'orderly_set.sets.StableSetEq', 'deepdiff.helper.SetOrdered', 'collections.namedtuple',
               'collections.OrderedDict', 're.Pattern', 'deepdiff.helper.Opcode']
CV_WRAPS = ["bare", "list", "tuple", "dict", "deep", "frozenset", "big"]
CV_VALUE_COMPS = ["da", "dr", "ia", "ir", "vc", "sa", "sr", "xa", "xr", "op"]
CV_TC_COMPS = ["tcN", "tcP", "tcV"]
CV_CONTROLS = {"ctl:int": 7, "ctl:str": "s", "ctl:None": None, "ctl:float": 2.5}
_CV = {}
_NOINST = object()


def cv_values():
    """name -> object: every allow-listed name that can occur as a VALUE of a delta (classes; the two allow-listed
    functions; 'builtins.None' stands for the class type(None)), from the live SAFE_TO_IMPORT and a fixed copy of it"""
    if "values" in _CV:
        return _CV["values"]
    import importlib
    from deepdiff.serialization import SAFE_TO_IMPORT
    out = {}
    for name in CV_BASELINE + sorted(set(SAFE_TO_IMPORT) - set(CV_BASELINE)):
        if name == "builtins.None":
            out[name] = type(None)
            continue
        parts = name.split(".")
        for cut in range(len(parts) - 1, 0, -1):
            try:
                obj = importlib.import_module(".".join(parts[:cut]))
                for a in parts[cut:]:
                    obj = getattr(obj, a)
            except Exception:  # noqa
                continue
            if isinstance(obj, type) or callable(obj):
                out[name] = obj
            break
    _CV["values"] = out
    return out


def cv_instance(name):
    """a value whose class is the named one (DeepDiff reports instance -> class as values_changed), or _NOINST"""
    import collections
    import datetime
    import decimal
    import uuid
    return {"builtins.str": "x", "builtins.int": 1, "builtins.bool": True, "builtins.float": 1.5, "builtins.bytes": b"ab",
            "builtins.complex": 1j, "datetime.datetime": datetime.datetime(2020, 1, 2, 3, 4, 5), "datetime.time": datetime.time(1, 2),
            "datetime.timedelta": datetime.timedelta(1), "decimal.Decimal": decimal.Decimal("1.5"),
            "uuid.UUID": uuid.UUID(int=1)}.get(name, _NOINST)


def cv_wrap(kind, v):
    if kind == "bare":
        return v
    if kind == "list":
        return [v, 1]
    if kind == "tuple":
        return ("t", v)
    if kind == "dict":
        return {"k": v, "d": None}
    if kind == "deep":
        return {"f": [{"n": (v, 1)}, 2]}
    if kind == "frozenset":
        return frozenset({v, 1})
    if kind == "big":
        return [v if i == 30 else (i if i % 3 else "s%d" % i) for i in range(60)]
    raise ValueError(kind)


def cv_build(spec):
    """spec = {"value": name, "wrap": kind, "comps": [...], "mode": "dd"|"raw", "bid": bool}
    -> (t1, t2, DeepDiff kwargs, raw payload or None)"""
    from deepdiff.helper import Opcode
    name, kind, comps, mode, bid = spec["value"], spec["wrap"], spec["comps"], spec["mode"], spec["bid"]
    v = CV_CONTROLS[name] if name in CV_CONTROLS else cv_values()[name]
    other = str if v is not str else int
    W = cv_wrap(kind, v)
    try:
        hash(W)
        H = W
    except TypeError:
        H = (v, "h")
    inst = cv_instance(name)
    W0 = cv_wrap(kind, inst if (mode == "dd" and inst is not _NOINST) else (other if name not in CV_CONTROLS else "old"))
    nt = type(None)
    t1, t2, raw = {}, {}, {}

    def add(k, a, b, cat, entries):
        t1[k], t2[k] = a, b
        raw.setdefault(cat, {}).update(entries)
    for c in comps:
        if c == "da":
            add("da", {"x": 1}, {"x": 1, "n": W}, "dictionary_item_added", {"root['da']['n']": W})
        elif c == "dr":
            add("dr", {"x": 1, "n": W}, {"x": 1}, "dictionary_item_removed", {"root['dr']['n']": W})
        elif c == "ia":
            add("ia", [1, 2], [1, 2, W], "iterable_item_added", {"root['ia'][2]": W})
        elif c == "ir":
            add("ir", [1, 2, W], [1, 2], "iterable_item_removed", {"root['ir'][2]": W})
        elif c == "vc":
            add("vc", W0, W, "values_changed", {"root['vc']": dict({"new_value": W}, **({"old_value": W0} if bid else {}))})
        elif c == "sa":
            add("sa", {1, 2}, {1, 2, H}, "set_item_added", {"root['sa']": {H}})
        elif c == "sr":
            add("sr", {1, 2, H}, {1, 2}, "set_item_removed", {"root['sr']": {H}})
        elif c == "xa":
            add("xa", [1, 2, 2], [2, 1, W], "iterable_items_added_at_indexes", {"root['xa']": {2: W}})
        elif c == "xr":
            add("xr", [1, 2, W], [2, 1], "iterable_items_removed_at_indexes", {"root['xr']": {2: W}})
        elif c == "op":
            add("op", [1, 2, 3, 4], [W, 8, 1, 2, 3, 4], "_iterable_opcodes",
                {"root['op']": [Opcode("insert", 0, 0, 0, 2, [], [W, 8]), Opcode("equal", 0, 4, 2, 6, None, None)]})
        elif c == "tcN":
            add("tcN", None, 3, "type_changes",
                {"root['tcN']": dict({"old_type": nt, "new_type": int, "new_value": 3}, **({"old_value": None} if bid else {}))})
        elif c == "tcP":
            add("tcP", 1, "a", "type_changes",
                {"root['tcP']": dict({"old_type": int, "new_type": str, "new_value": "a"}, **({"old_value": 1} if bid else {}))})
        elif c == "tcV":
            add("tcV", 1.5, W, "type_changes",
                {"root['tcV']": dict({"old_type": float, "new_type": W if isinstance(W, type) else type(W), "new_value": W},
                                     **({"old_value": 1.5} if bid else {}))})
        else:
            raise ValueError(c)
    kw = {"ignore_order": True, "report_repetition": True} if (mode == "dd" and ("xa" in comps or "xr" in comps)) else {}
    return t1, t2, kw, (raw if mode == "raw" else None)


def cv_canon(o):
    """typed, order-insensitive (dicts, sets) canonical form that also carries class / function objects"""
    Opcode, SetOrdered = _helper()
    if isinstance(o, type):
        return ["G", o.__module__, o.__qualname__]
    if o is None or type(o) in (bool, int, str, bytes):
        return [type(o).__name__, o if type(o) is not bytes else o.decode("latin-1")]
    if type(o) is float:
        return ["float", repr(o)]
    if type(o) is Opcode:
        return ["Op"] + [cv_canon(x) for x in o]
    if type(o) is list or type(o) is tuple or type(o) is SetOrdered:
        return [type(o).__name__, [cv_canon(x) for x in o]]
    if type(o) is dict:
        return ["dict", sorted(([cv_canon(k), cv_canon(x)] for k, x in o.items()), key=repr)]
    if type(o) in (set, frozenset):
        return [type(o).__name__, sorted((cv_canon(x) for x in o), key=repr)]
    if callable(o) and hasattr(o, "__qualname__"):
        return ["FN", getattr(o, "__module__", None), o.__qualname__]
    return [type(o).__module__ + "." + type(o).__qualname__, repr(o)]


def cv_apply(base, delta, sub=False):
    import copy
    try:
        b = copy.deepcopy(base)
        return ["ok", cv_canon((b - delta) if sub else (b + delta))]
    except RecursionError:
        return ["raised", "RecursionError"]
    except Exception as e:  # noqa
        return ["raised", type(e).__name__]


def cv_class_positions(payload):
    """{category: {names of the class objects that occur somewhere inside it}}"""
    out = {}

    def walk(o, acc):
        if isinstance(o, type):
            acc.add("NoneType" if o is type(None) else "class")
        elif isinstance(o, dict):
            for k, x in o.items():
                walk(k, acc)
                walk(x, acc)
        elif isinstance(o, (list, tuple, set, frozenset)):
            for x in o:
                walk(x, acc)
    for cat, body in payload.items():
        acc = set()
        if cat == "type_changes" and isinstance(body, dict):     # old_type / new_type are not VALUE positions
            for rec in body.values():
                if isinstance(rec, dict):
                    walk({k: x for k, x in rec.items() if k not in ("old_type", "new_type")}, acc)
        else:
            walk(body, acc)
        out[cat] = acc
    return out


def _dotted(cls):
    return "%s.%s" % (cls.__module__, cls.__qualname__)


def _by_name(cls):
    """can the pickler write this class as a global (module + qualified name lead back to it)?"""
    import sys
    obj = sys.modules.get(getattr(cls, "__module__", None))
    try:
        for a in cls.__qualname__.split("."):
            obj = getattr(obj, a)
    except AttributeError:
        return False
    return obj is cls


def _tc_types(payload):
    """the objects under old_type / new_type of the type_changes records"""
    body = payload.get("type_changes") if isinstance(payload, dict) else None
    out = []
    if isinstance(body, dict):
        for rec in body.values():
            if isinstance(rec, dict):
                out += [rec[k] for k in ("old_type", "new_type") if k in rec]
    return out


def _datetimes(o, acc, depth=0):
    import datetime
    Opcode, SetOrdered = _helper()
    if isinstance(o, datetime.datetime):
        acc.append(o)
    elif isinstance(o, dict) and depth < 12:
        for k, x in o.items():
            _datetimes(k, acc, depth + 1)
            _datetimes(x, acc, depth + 1)
    elif (isinstance(o, (list, tuple, set, frozenset)) or type(o) is SetOrdered) and depth < 12:
        for x in o:
            _datetimes(x, acc, depth + 1)
    return acc


def cv_outside(spec, t1, t2, payload):
    """What of this delta lies outside 'deltas produced from pairs of nested values' / outside the default allow-list
    BY THE INPUT, and what DeepDiff added itself:
      fn_type    the value is an allow-listed FUNCTION (bin, namedtuple: not a data value; SAFE_TO_IMPORT names it so that
                 payloads referring to it load) and the payload holds its class - builtin_function_or_method / function,
                 which no pickler can write as a global - under old_type / new_type.  Such a delta need not dump.
      grants     the value is a CLASS whose own class is a metaclass other than `type` (SetOrdered: abc.ABCMeta) and the
                 payload holds that metaclass under old_type / new_type: like the class of any value outside the
                 allow-list it has to be named in safe_to_import (the rule of the out-of-model stream: only classes of
                 the values are granted, never builtins.type).
      tz_injected  t1 / t2 hold only NAIVE datetimes, the payload holds datetimes whose tzinfo is a datetime.timezone:
                 DeepDiff's datetime_normalize put an object of a class outside SAFE_TO_IMPORT into the delta (finding
                 C14-DATETIME-TZ)."""
    import datetime
    name = spec["value"]
    v = CV_CONTROLS[name] if name in CV_CONTROLS else cv_values().get(name)
    types_ = _tc_types(payload)
    out = {"fn_type": False, "grants": [], "tz_injected": False}
    if name not in CV_CONTROLS and v is not None and not isinstance(v, type) and callable(v):
        out["fn_type"] = any(t is type(v) for t in types_) and not _by_name(type(v))
    if isinstance(v, type) and type(v) is not type and any(t is type(v) for t in types_) and _by_name(type(v)):
        out["grants"] = [_dotted(type(v))]
    aware_in = [x for x in _datetimes([t1, t2], []) if x.tzinfo is not None]
    aware_out = [x for x in _datetimes(payload, []) if type(x.tzinfo) is datetime.timezone]
    out["tz_injected"] = bool(aware_out) and not aware_in
    return out


def cv_grant(safe, extra):
    """the safe_to_import argument `safe` (any of its shapes) with the names `extra` added"""
    if not extra:
        return safe
    if not safe:
        return list(extra)
    if isinstance(safe, str):
        return [safe] + list(extra)
    if isinstance(safe, (set, frozenset)):
        return type(safe)(set(safe) | set(extra))
    return type(safe)(list(safe) + list(extra))


def cv_one(ctx, spec, idx, out):
    """the direct oracle on one delta of the class-value stream: every way of persisting it, every way of reading it back"""
    import logging
    logging.disable(logging.CRITICAL)
    from deepdiff import DeepDiff, Delta
    bid = spec["bid"]
    case = {"classval": spec, "bidirectional": bid}
    try:
        t1, t2, kw, raw = cv_build(spec)
    except KeyError:
        ctx.count("classval:value-not-in-this-process")
        return
    try:
        def mk_orig():
            return Delta(raw if raw is not None else DeepDiff(t1, t2, **kw), bidirectional=bid)
        d = mk_orig()
        payload = d.diff
    except Exception as e:  # noqa: DeepDiff cannot diff these two (e.g. an instance against a container class)
        ctx.count("classval:unbuildable:" + type(e).__name__)
        return
    if not payload:
        ctx.count("classval:empty-diff")
        return
    try:
        pcanon = pv_canon(payload)
    except Unsupported:
        pcanon = None
    ctx.seen(("classval", repr(cv_canon(payload)), bid), nontrivial=True)
    ctx.count("classval:mode:" + spec["mode"])
    ctx.count("classval:wrap:" + spec["wrap"])
    has_tc = "type_changes" in payload
    for cat, kinds in cv_class_positions(payload).items():
        for k_ in sorted(kinds):
            ctx.count("classval:%s inside %s, %s a type_changes report" % (k_, cat, "with" if has_tc else "WITHOUT"))
    ctx.count("classval:categories=%d" % len(payload))
    case["categories"] = sorted(payload)
    want_p = cv_canon(payload)
    want_d = cv_canon(d.to_dict())

    # ---- the three ways of writing ------------------------------------------
    feat = cv_outside(spec, t1, t2, payload)
    try:
        b1 = d.dumps()
    except Exception as e:  # noqa
        if feat["fn_type"] and type(e).__name__ == "PicklingError":
            # outside the quantifier (a function is not a nested data value): no "must dump" demand; the functions stay in
            # every position whose delta dumps (all load-side checks below apply to them)
            ctx.count("classval:outside the quantifier: type change to an allow-listed FUNCTION, its class %s cannot be pickled (dumps raises PicklingError)"
                      % type(cv_values()[spec["value"]]).__name__)
            return
        ctx.fail(dict(case, path="pickle", stage="dumps", error=type(e).__name__), "Delta.dumps() raised %s" % type(e).__name__)
        return
    fn = os.path.join(ctx.scratch, "classval_%d.bin" % (idx % 5))
    try:
        buf = io.BytesIO()
        d.dump(buf)
        with open(fn, "wb") as f:
            d.dump(f)
        with open(fn, "rb") as f:
            on_disk = f.read()
    except Exception as e:  # noqa
        ctx.fail(dict(case, path="pickle", stage="dump(file)", error=type(e).__name__), "Delta.dump(file) raised %s" % type(e).__name__)
        return
    if buf.getvalue() != b1 or on_disk != b1:
        ctx.fail(dict(case, path="pickle", stage="dump(file)"), "dump(file) and dumps() wrote different bytes for the same delta")
    safe0 = SAFE_SHAPES[idx % len(SAFE_SHAPES)]
    case["safe_to_import"] = repr(safe0)
    safe = cv_grant(safe0, feat["grants"])
    tz_granted = False
    if feat["grants"]:
        ctx.count("classval:metaclass of the class value granted through safe_to_import: " + ", ".join(feat["grants"]))
        pcanon = None     # the model's default process does not have the grant
    if feat["tz_injected"]:
        # finding C14-DATETIME-TZ: the default load is judged first (and reported: known finding if exactly the predicted
        # refusal); the rest of the oracle then runs with the one name granted
        TZ = "datetime.timezone"
        r0 = P.real_load(b1, feat["grants"] or None)
        if r0["cls"] != "ok":
            last = r0["calls"][-1] if r0["calls"] else None
            forbidden = "%s.%s" % (last[0], last[1]) if last and not last[2] else None
            rg = P.real_load(b1, feat["grants"] + [TZ])
            ctx.fail(dict(case, path="pickle", stage="load", source="pickle_load", error=r0["exc"], forbidden=forbidden, tz_injected=True,
                          loads_when_granted=bool(rg["cls"] == "ok" and cv_canon(rg["result"]) == want_p)),
                     "Delta's own dump does not load: %s %s (naive datetimes in, datetime.timezone.utc in the delta)" % (r0["exc"], forbidden))
            ctx.count("classval:datetime.timezone injected by DeepDiff: default load refused")
            safe = cv_grant(safe, [TZ])
            tz_granted = True
        else:
            ctx.count("classval:datetime.timezone injected by DeepDiff: default load accepted")
    granted = (feat["grants"] + (["datetime.timezone"] if tz_granted else [])) or None

    def from_file():
        with open(fn, "rb") as f:
            return Delta(delta_file=f, bidirectional=bid, safe_to_import=safe)
    mk = {"bytes": lambda: Delta(b1, bidirectional=bid, safe_to_import=safe),
          "fileobj": lambda: Delta(delta_file=io.BytesIO(buf.getvalue()), bidirectional=bid, safe_to_import=safe),
          "file": from_file,
          "path": lambda: Delta(delta_path=fn, bidirectional=bid, safe_to_import=safe)}
    # ---- the ways of reading back ---------------------------------------------
    res = P.real_load(b1, granted)
    if res["cls"] != "ok":
        ctx.fail(dict(case, path="pickle", stage="load", source="pickle_load", error=res["exc"]),
                 "Delta's own dump does not load: %s (categories %s)" % (res["exc"], ", ".join(sorted(payload))))
        return
    if cv_canon(res["result"]) != want_p:
        ctx.fail(dict(case, path="pickle", stage="payload", source="pickle_load", loaded=repr(res["result"]), original=repr(payload)),
                 "pickle_load(delta.dumps()) differs from delta.diff")
    bases = [t1, t2, [t1]]
    wants = [cv_apply(b_, mk_orig()) for b_ in bases]
    want_sub = cv_apply(t2, mk_orig(), sub=True) if bid else None
    ctx.count("classval:behaviour:" + wants[0][0])
    for nm in ("bytes", "fileobj", "file", "path"):
        try:
            dx = mk[nm]()
        except Exception as e:  # noqa
            ctx.fail(dict(case, path="pickle", stage="load", source=nm, error=type(e).__name__),
                     "Delta's own dump does not load from %s: %s (categories %s)" % (nm, type(e).__name__, ", ".join(sorted(payload))))
            continue
        if cv_canon(dx.diff) != want_p:
            ctx.fail(dict(case, path="pickle", stage="payload", source=nm, loaded=repr(dx.diff), original=repr(payload)),
                     "the delta reloaded from %s carries a different payload" % nm)
        if cv_canon(dx.to_dict()) != want_d:
            ctx.fail(dict(case, path="pickle", stage="to_dict", source=nm), "to_dict() of the delta reloaded from %s differs" % nm)
        for bi, b_ in enumerate(bases if nm == "bytes" else bases[:1]):
            got = cv_apply(b_, mk[nm]())
            if got != wants[bi]:
                ctx.fail(dict(case, path="pickle", stage="behaviour", source=nm, base_index=bi, original=wants[bi], reloaded=got),
                         "the delta reloaded from %s behaves differently from the original on base #%d" % (nm, bi))
        if bid:
            got = cv_apply(t2, mk[nm](), sub=True)
            if got != want_sub:
                ctx.fail(dict(case, path="pickle", stage="behaviour-sub", source=nm, original=want_sub, reloaded=got),
                         "t2 - (delta reloaded from %s) differs from t2 - original delta" % nm)
        if nm == "bytes":
            try:
                b2 = dx.dumps()
                if cv_canon(Delta(b2, bidirectional=bid, safe_to_import=granted).diff) != want_p:
                    ctx.fail(dict(case, path="pickle", stage="second dump"), "dumping the reloaded delta again gives a different payload")
            except Exception as e:  # noqa
                ctx.fail(dict(case, path="pickle", stage="second dump", error=type(e).__name__),
                         "the reloaded delta cannot be dumped and loaded again: %s" % type(e).__name__)
    # ---- the JSON form, where JSON can carry the payload (the control values) --------------------------------
    if spec["value"] in CV_CONTROLS and (json_representable(payload) or json_setitems_form(payload)):
        cv_json(ctx, case, mk_orig, raw if raw is not None else DeepDiff(t1, t2, **kw), payload, bases, wants, want_sub, t2, bid)
    # ---- correspondence: the real bytes on the model VM (a sample; payloads inside the model's universe) --------
    share = "nt" if spec["value"] == "builtins.None" else "other"
    if pcanon is not None and spec.get("coq") and out.get("cv_vm_n:" + share, 0) < out.get("cv_vm_max", 0) * (2 if share == "nt" else 1) // 3:
        out["cv_vm_n:" + share] = out.get("cv_vm_n:" + share, 0) + 1
        try:
            expected = [pv_canon(res["result"]), [[m, n] for m, n, r in res["calls"] if r]]
            bs = P.coq_bytes(b1)
            out["vm"].append(("(let bs := %s in SL [sx_load_bytes default_world %s bs; sx_genops %s bs; sx_bool (negb (snd (bdecode %s bs)))])" % (
                                  bs, P.coq_c_dialect(b1), P.coq_g_dialect(b1), P.coq_c_dialect(b1)),
                              [expected, P.genops_obs(b1), True], dict(case, corr="vm", generation=1)))
            out["acc"].append(("((bdecode_ops (c_dialect no_text) %s), %s)" % (bs, pv_coq(payload)), False,
                               dict(case, corr="accepts", generation=1, shared=False)))
            ctx.count("classval:real dump also run on the model VM")
            if len(out["enc"]) < out["enc_max"] + out.get("cv_enc_max", 0) and spec["wrap"] != "big":
                out["enc"].append((pv_coq(payload), pcanon, case))
        except (Unsupported, ValueError):
            pass
    if pcanon is not None and spec["wrap"] != "big" and (spec.get("coq") or idx % 5 == 0):
        kind_ = "with" if _mentions_nonetype(payload) else "without"
        if out.get("cv_hook_n:" + kind_, 0) < out.get("cv_hook_max", 0) // 2:
            out["cv_hook_n:" + kind_] = out.get("cv_hook_n:" + kind_, 0) + 1
            hook_case(ctx, payload, case, out)


def _mentions_nonetype(o):
    Opcode, SetOrdered = _helper()
    if o is type(None):
        return True
    if isinstance(o, dict):
        return any(_mentions_nonetype(x) for x in o.values())
    if isinstance(o, (list, tuple)) or type(o) is SetOrdered:
        return any(_mentions_nonetype(x) for x in o)
    return False


def hook_case(ctx, payload, case, out):
    """The pickler side of the model (Pickle/PicklerHook.v).  The same payload written by CPython's pickle.Pickler, i.e.
    WITHOUT deepdiff's persistent_id hook, and given to deepdiff's restricted unpickler: (a) the model VM on those real
    bytes must reach the verdict of the real pickle_load (ForbiddenModule builtins.type as soon as the class type(None)
    occurs, the payload otherwise); (b) the model's own hook-less pickler (dump_with no_hook: the class by reduction)
    must predict the same verdict and the same failing name; (c) mentions_nonetype is the Python predicate.
    C14_plain_pickler_dump_refused / C14_plain_pickler_same_dump are the theorems about (b)."""
    import pickle
    try:
        pcoq = pv_coq(payload)
        buf = io.BytesIO()
        pickle.Pickler(buf, protocol=4, fix_imports=False).dump(payload)
        pb = buf.getvalue()
        rp = P.real_load(pb, None)
        resolved = [[m, n] for m, n, r in rp["calls"] if r]
        if rp["cls"] == "ok":
            real = [pv_canon(rp["result"]), resolved]
            predicted = pv_canon(payload)
        else:
            failing = [rp["calls"][-1][0], rp["calls"][-1][1]] if rp["calls"] and not rp["calls"][-1][2] else None
            real = [rp["cls"], resolved]
            predicted = [rp["cls"], failing]
        bs = P.coq_bytes(pb)
    except (Unsupported, ValueError):
        return
    expr = ("(let bs := %s in SL [sx_load_bytes default_world %s bs; "
            "match fst (vm_run default_world (dump_with no_hook %s)) with Done o => sx_opv (decode o) | Err e => SL [sx_err_class e; sx_err_name e] end; "
            "sx_bool (mentions_nonetype %s)])" % (bs, P.coq_c_dialect(pb), pcoq, pcoq))
    out.setdefault("hook", []).append((expr, [real, predicted, _mentions_nonetype(payload)], dict(case, corr="pickler-without-hook")))
    ctx.count("classval:written by pickle.Pickler (no persistent_id hook): " +
              ("ForbiddenModule" if rp["cls"] != "ok" else "loads") + (", holds type(None)" if _mentions_nonetype(payload) else ", no type(None)"))


def cv_json(ctx, case, mk_orig, src, payload, bases, wants, want_sub, t2, bid):
    """serializer=json_dumps / deserializer=json_loads on a JSON-representable delta of the stream: the payload comes back
    equal (set items as the lists of their members: setlist_py), behaves the same, and survives a second trip"""
    from deepdiff import Delta
    from deepdiff.serialization import json_dumps, json_loads
    ctx.count("classval:json")
    jcase = dict(case, path="json", has_opcodes="_iterable_opcodes" in payload, payload=repr(payload))
    try:
        text = Delta(src, bidirectional=bid, serializer=json_dumps).dumps()
    except Exception as e:  # noqa
        ctx.fail(dict(jcase, stage="dumps", error=type(e).__name__), "json_dumps raised %s on a JSON-representable delta" % type(e).__name__)
        return

    def mkj(t=text):
        return Delta(t, deserializer=json_loads, serializer=json_dumps, bidirectional=bid)
    try:
        dj = mkj()
    except Exception as e:  # noqa
        ctx.fail(dict(jcase, stage="load", error=type(e).__name__), "a JSON-serialised delta does not load again: %s (categories %s)" % (
            type(e).__name__, ", ".join(sorted(payload))))
        return
    want_p = setlist_py(payload)
    if not typed_payload_eq(dj.diff, want_p):
        ctx.fail(dict(jcase, stage="payload", loaded=repr(dj.diff), nonetype_only=_nonetype_only(want_p, dj.diff)),
                 "the JSON round trip changes the payload")
    for bi, b_ in enumerate(bases):
        got = cv_apply(b_, mkj())
        if got != wants[bi]:
            ctx.fail(dict(jcase, stage="behaviour", base_index=bi, original=wants[bi], reloaded=got),
                     "the delta reloaded from JSON behaves differently on base #%d" % bi)
    if bid:
        got = cv_apply(t2, mkj(), sub=True)
        if got != want_sub:
            ctx.fail(dict(jcase, stage="behaviour-sub", original=want_sub, reloaded=got), "t2 - (delta reloaded from JSON) differs from t2 - original delta")
    try:
        t3 = dj.dumps()
        if json.loads(t3) != json.loads(text):
            ctx.fail(dict(jcase, stage="second dump", nonetype_only=_nonetype_only(want_p, dj.diff) and not typed_payload_eq(dj.diff, want_p)),
                     "dumping the JSON-reloaded delta again gives different JSON")
    except Exception as e:  # noqa
        ctx.fail(dict(jcase, stage="second dump", error=type(e).__name__), "dumping the JSON-reloaded delta raised")


def cv_specs(thorough):
    """the enumeration: see the header of this section"""
    names = list(cv_values())
    nt = "builtins.None"
    singles = [[c] for c in CV_VALUE_COMPS]
    with_tc = [[c, t] for c in CV_VALUE_COMPS for t in CV_TC_COMPS]
    tc_only = [["tcV"], ["tcV", "tcN"], ["tcV", "tcP"]]
    pairs = [[a, b] for i, a in enumerate(CV_VALUE_COMPS) for b in CV_VALUE_COMPS[i + 1:]]
    big = [list(CV_VALUE_COMPS), CV_VALUE_COMPS + CV_TC_COMPS]
    specs = []
    n = [0]

    def put(value, wrap, comps, mode, bids=None, coq=False, both=True):
        if mode == "dd" and "op" in comps:     # DeepDiff takes the difflib path only for lists of strings / numbers
            if both:
                return
            mode = "raw"
        for bid in (bids if bids is not None else ((False, True) if thorough else (n[0] % 2 == 0,))):
            specs.append({"value": value, "wrap": wrap, "comps": comps, "mode": mode, "bid": bid, "coq": coq})
        n[0] += 1
    # type(None): the value only the persistent-id hook carries - every wrap x (alone, with each kind of type change)
    for wi, wrap in enumerate(CV_WRAPS):
        for si, comps in enumerate(singles + with_tc + tc_only):
            put(nt, wrap, comps, "raw", coq=(si + wi) % 4 == 0)
            if thorough or (si + wi) % 2 == 0:
                put(nt, wrap, comps, "dd", coq=(si + wi) % 8 == 0)
    for pi, comps in enumerate(pairs + big):
        for wrap in (CV_WRAPS if thorough else [CV_WRAPS[pi % len(CV_WRAPS)]]):
            put(nt, wrap, comps, "raw", coq=pi % 6 == 0)
            put(nt, wrap, comps, "dd")
    # every other allow-listed class / function: each position alone and next to a type change
    k = 0
    for name in names:
        if name == nt:
            continue
        for comps in singles + [[c, "tcP"] for c in CV_VALUE_COMPS] + [["tcV"]]:
            for wrap in (CV_WRAPS if thorough else [CV_WRAPS[k % len(CV_WRAPS)]]):
                put(name, wrap, comps, "raw" if (thorough or k % 3) else "dd", coq=k % 25 == 0, both=thorough)
                if thorough:
                    put(name, wrap, comps, "dd")
            k += 1
    # controls: ordinary values through the same combinations of categories (one category alone, each pair)
    for ci, name in enumerate(CV_CONTROLS):
        for si, comps in enumerate(singles + with_tc[::3] + pairs + big):
            if thorough or (si + ci) % 2 == 0:
                put(name, "bare" if si % 2 else "list", comps, "raw" if si % 3 else "dd", coq=si % 12 == 0, both=False)
    # quick slice: one representative of each kind of case that only the full product used to reach (NOTES, "The thorough tier
    # of the class-value stream"): a datetime as old_value (finding C14-DATETIME-TZ), a function / a class with a metaclass as
    # the bare new value of a type change; appended, so the indices of the cases above do not move
    if not thorough:
        for name, comps in (("datetime.datetime", ["vc"]), ("builtins.bin", ["tcV"]), ("collections.namedtuple", ["tcV"]),
                            ("deepdiff.helper.SetOrdered", ["tcV"])):
            if name in names:
                put(name, "bare", comps, "dd", bids=(False, True))
    return specs


def classvalue_stream(ctx, out):
    specs = cv_specs(ctx.thorough)
    out["cv_vm_max"] = 400 if ctx.thorough else 70
    out["cv_enc_max"] = 60 if ctx.thorough else 20
    out["cv_hook_max"] = 200 if ctx.thorough else 40
    for i, spec in enumerate(specs):
        cv_one(ctx, spec, i, out)
    ctx.note("class_values", "%d deltas (values: %d allow-listed classes / functions + %d ordinary controls; wraps %s; components %s; "
             "DeepDiff-made and raw payloads) written by dumps(), dump(BytesIO), dump(file) and read back from bytes, file object, "
             "on-disk file and path" % (len(specs), len(cv_values()), len(CV_CONTROLS), "/".join(CV_WRAPS),
                                        "/".join(CV_VALUE_COMPS + CV_TC_COMPS)))


# ---------------------------------------------------------------------------
# correspondence (b): the canonical encoder's output is a real pickle
# ---------------------------------------------------------------------------

def unescape(s):
    out, i = [], 0
    while i < len(s):
        if s[i] == "{":
            j = s.index("}", i)
            out.append(chr(int(s[i + 1:j])))
            i = j + 1
        else:
            out.append(s[i])
            i += 1
    return "".join(out)


def parse_shown(txt):
    progs, cur = [], []
    for line in txt.split("\n"):
        if line == "--":
            progs.append(cur)
            cur = []
            continue
        if not line:
            continue
        parts = line.split("\t")
        name = parts[0]
        if name in P.NOARG:
            cur.append((name,))
        elif name in P.INT_OPS:
            cur.append((name, int(parts[1])))
        elif name == "INTB":
            cur.append((name, parts[1] == "1"))
        elif name in ("FLOAT", "BINFLOAT"):
            v = parts[1]
            f = int(v[1:]) / 2 if v[0] == "h" else struct.unpack(">d", int(v[1:]).to_bytes(8, "big"))[0]
            cur.append((name, f))
        elif name in P.STR_OPS:
            cur.append((name, unescape(parts[1] if len(parts) > 1 else "")))
        elif name in P.BYTES_OPS:
            cur.append((name, unescape(parts[1] if len(parts) > 1 else "").encode("latin-1")))
        elif name in ("GLOBAL", "INST"):
            cur.append((name, unescape(parts[1]), unescape(parts[2])))
        else:
            raise ValueError(line)
    return progs


def coq_eval_big(ctx, name, header, expr, timeout=900):
    """ctx.coq_eval with a larger OCaml stack (printing a long string recurses)"""
    import re
    fn = os.path.join(ctx.scratch, "eval_%s.v" % name)
    with open(fn, "w") as f:
        f.write("From Coq Require Import List String ZArith NArith Bool.\nImport ListNotations.\nFrom DD Require Import Base.Sx.\n")
        f.write(header + "\nLocal Open Scope string_scope.\nEval vm_compute in (%s).\n" % expr)
    rc, out = core.sh("ulimit -s 4000000 2>/dev/null || ulimit -s unlimited 2>/dev/null; coqc -Q %s DD %s" % (core.THEORIES, fn),
                      timeout=timeout, cwd=ctx.scratch)
    m = re.search(r'"BEGIN\n(.*)END"', out, re.S)
    if rc != 0 or not m:
        ctx.break_("correspondence", {"name": name, "error": "coqc failed: " + out[-1500:]})
        return None
    return m.group(1).replace('""', '"')


def encoder_part(ctx, items):
    """items: (pv term, canonical payload, case)"""
    if not items:
        return
    from deepdiff.serialization import pickle_load
    hdr = "From DD Require Import Base.PyStr Base.Value Pickle.Vm Pickle.Codec Pickle.Bytes Pickle.PickleShow.\nLocal Open Scope Z_scope."
    chunk = 20
    n_ok = 0
    for i in range(0, len(items), chunk):
        part = items[i:i + chunk]
        txt = coq_eval_big(ctx, "c14_enc_%d" % (i // chunk), hdr,
                           '"BEGIN" ++ nl ++ show_dumps (map (fun v => if dump_ok v then dump_bytes v else [999%%N]) [%s]) ++ "END"'
                           % "; ".join(p for p, _c, _k in part))
        if txt is None:
            continue
        # the model's canonical dump as BYTES (Bytes.dump_bytes: the assembler under Codec.enc), handed as they are
        # to the real pickle_load
        # (dump_ok, the hypothesis of the C14_bytes_* theorems, is evaluated on each of these payloads: 999 marks a failure)
        try:
            progs = [bytes(int(x) for x in line.split()) for line in txt.split("\n") if line.strip()]
        except ValueError as e:
            ctx.break_("correspondence", {"name": "encoder", "error": "dump_ok is false for a generated payload (hypothesis of the "
                                          "C14_bytes_* theorems not met), or a byte outside 0..255 in dump_bytes: %s" % e})
            continue
        ctx.count("hypothesis dump_ok holds of the payload", len(progs))
        if len(progs) != len(part):
            ctx.break_("correspondence", {"name": "encoder", "error": "expected %d programs, got %d" % (len(part), len(progs))})
            continue
        for ops, (_p, canon, case) in zip(progs, part):
            ctx.corr_cases += 1
            try:
                got = pv_canon(pickle_load(ops))
            except Exception as e:  # noqa
                got = "raised " + type(e).__name__
            if got != canon:
                ctx.corr_mismatch += 1
                ctx.break_("correspondence", {"name": "encoder", "case": case, "model": "dump_bytes payload", "impl": repr(got)[:500],
                                              "meaning": "the real pickle_load does not decode the model's canonical encoding to the payload"})
            else:
                n_ok += 1
    ctx.count("corr_cases:canonical encodings loaded by the implementation", n_ok)


def accepts_part(ctx, items):
    """Which real dumps lie in the encoding class of C14_accepted_encodings_roundtrip.  Informational
    (a pickler that leaves the class - another protocol, say - is not a violation: the VM run above still
    checks its dumps).  On the unchanged tree every generated dump is inside the class, shared lists /
    dicts / sets fetched from the memo included."""
    if not items:
        return
    from concurrent.futures import ThreadPoolExecutor
    hdr = ("From DD Require Import Base.PyStr Base.Value Pickle.Vm Pickle.Codec Pickle.Bytes Pickle.Encodes Pickle.PickleShow.\n"
           "Local Open Scope Z_scope.")
    chunk = 40
    parts = [items[i:i + chunk] for i in range(0, len(items), chunk)]

    def one(k):
        return coq_eval_big(ctx, "c14_acc_%d" % k, hdr,
                            '"BEGIN" ++ nl ++ show_accepts [%s] ++ nl ++ "END"' % "; ".join(e for e, _s, _c in parts[k]))
    with ThreadPoolExecutor(max_workers=core.NCPU) as ex:
        outs = list(ex.map(one, range(len(parts))))
    acc = acc_shared = rej = 0
    examples = []
    for part, txt in zip(parts, outs):
        if txt is None:
            continue
        flags = txt.strip()
        if len(flags) != len(part):
            ctx.break_("correspondence", {"name": "accepts", "error": "expected %d flags, got %r" % (len(part), flags[:80])})
            continue
        for (expr, shared, case), fl in zip(part, flags):
            ctx.corr_cases += 1
            if fl == "T":
                acc += 1
                acc_shared += 1 if shared else 0
            else:
                rej += 1
                if len(examples) < 3:
                    examples.append(case)
    ctx.count("corr_cases:real dumps tested for the proved encoding class", acc + rej)
    ctx.note("proved_encoding_class", {"real_dumps": acc + rej, "accepted": acc,
                                       "accepted_that_fetch_a_shared_mutable_object": acc_shared,
                                       "outside_the_class": rej, "examples_outside": examples})


# ---------------------------------------------------------------------------
# the persisting side at statement level (Pickle/PersistModel.v): pickle_dump as a call, Delta.__init__'s choice of where
# self.diff comes from, the _deserializer choice, Delta.dump's way of calling the serializer, the defaults of the signatures.
# Correspondence + oracle on every run (persist_stream), and the two source ties:
#   unpickler  harness/translate/unpickler.py -> DDGen.PickleGen (the LOADING side; the same tie C15 registers: here because the
#              round-trip corollaries of `persist` are about the generated pickle_load);
#   persist    harness/translate/persist.py -> DDGen.PersistGen; coq/srctie/PersistGenEquiv.v proves the regenerated pickle_dump /
#              g_delta_source / ... equal to Pickle/PersistModel.v for all arguments and transfers the C14 round-trip theorems to
#              g_pickle_load (g_pickle_dump d) = d (core.source_tie_step)
# ---------------------------------------------------------------------------

SOURCE_TIES = [
    {"name": "unpickler", "translator": "unpickler", "gen_module": "PickleGen", "equiv": ["PickleGenEquiv"],
     "needs": ["Pickle.SrcPrimsFacts"],
     "sources": ["deepdiff/serialization.py", "deepdiff/delta.py", "deepdiff/helper.py"],
     "fragment": "the LOADING side (C15's source tie, unchanged): SAFE_TO_IMPORT, _RestrictedUnpickler.__init__ / find_class / persistent_load, "
                 "pickle_load, _RestrictedPickler.persistent_id - needed here because the corollaries of the tie `persist` are stated about the "
                 "generated pickle_load and the generated persistent_id"},
    {"name": "persist", "translator": "persist", "gen_module": "PersistGen", "equiv": ["PersistGenEquiv"],
     "needs": ["Pickle.PersistFacts", "Pickle.PersistShow", "Pickle.SrcPrimsFacts", "Pickle.BytesDeltaProofs"],
     "sources": ["deepdiff/serialization.py", "deepdiff/delta.py"],
     "fragment": "the DUMPING / persisting side: serialization.pickle_dump (body, defaults, co_varnames; persistent_id through the tie "
                 "`unpickler`), the literal JSON_CONVERTOR and json_convertor_default (mapping + closure), Delta.__init__ (defaults deserializer=pickle_load / serializer=pickle_dump, the "
                 "_deserializer choice, the if/elif chain that selects where self.diff comes from), Delta.dump / dumps / to_dict"}]

PERSIST_HDR = ("From DD Require Import Base.PyStr Base.Value Pickle.Vm Pickle.Codec Pickle.Bytes Pickle.PickleShow Pickle.PicklerHook "
               "Pickle.SrcPrims Pickle.PersistPrims Pickle.PersistModel Pickle.PersistShow.\nLocal Open Scope Z_scope.")
PERSIST_KINDS = ["None", "DeepDiff", "Mapping", "strings", "other"]
_PK = {"None": "KNone", "DeepDiff": "KDeepDiff", "Mapping": "KMapping", "strings": "KStrings", "other": "KOther"}


def persist_args():
    """every combination of arguments Delta.__init__'s source chain distinguishes, in the order of PersistShow.ALL_ARGS:
    (kind of diff, delta_path, delta_file, delta_diff, flat_dict_list, flat_rows_list given?)"""
    out = []
    for k in PERSIST_KINDS:
        for p in (False, True):
            for f in (False, True):
                for dd in (False, True):
                    for fd in (False, True):
                        for fr in (False, True):
                            out.append((k, p, f, dd, fd, fr))
    return out


def _coq_args(a):
    return "(mkArgs %s %s)" % (_PK[a[0]], " ".join(core.coq_bool(x) for x in a[1:]))


def _marker(tag):
    return {"values_changed": {"root['m']": {"new_value": tag}}}


def persist_source_case(ctx, a):
    """Delta(...) with exactly the arguments of `a`, each carrying a payload that names it: which one becomes Delta.diff, read how
    (the mode a path is opened in; whether safe_to_import reaches the deserializer).  Correspondence: PersistModel.delta_source.
    Oracle (the property): a delta persisted as bytes / to a path / to a file object, given alone, comes back with its payload."""
    kw, seen, opened = {}, [], []
    case = {"persist": "source", "args": list(a)}
    try:
        _persist_source_kwargs(ctx, a, kw)
    except Exception as e:  # noqa  (preparing the arguments uses pickle_dump)
        ctx.seen(("persist-source", a))
        ctx.fail(dict(case, stage="dump", error=type(e).__name__), "pickle_dump raised %s while the persisted forms of a payload were prepared" % type(e).__name__)
        return ("sx_source (delta_source %s)" % _coq_args(a), ["raises", type(e).__name__], case)
    return _persist_source_observe(ctx, a, kw, seen, opened, case)


def _persist_source_kwargs(ctx, a, kw):
    from deepdiff import DeepDiff
    from deepdiff.helper import FlatDeltaRow
    from deepdiff.serialization import pickle_dump
    k, p, f, dd, fd, fr = a
    if k == "DeepDiff":
        kw["diff"] = DeepDiff({"m": "a"}, {"m": "deepdiff"})
    elif k == "Mapping":
        kw["diff"] = _marker("mapping")
    elif k == "strings":
        kw["diff"] = pickle_dump(_marker("bytes"))
    elif k == "other":
        kw["diff"] = 5
    if p:
        fn = os.path.join(ctx.scratch, "persist_source.bin")
        with open(fn, "wb") as fh:
            pickle_dump(_marker("path"), file_obj=fh)
        kw["delta_path"] = fn
    if f:
        kw["delta_file"] = io.BytesIO(pickle_dump(_marker("file")))
    if dd:
        kw["delta_diff"] = _marker("delta_diff")
    if fd:
        kw["flat_dict_list"] = [{"path": ["m"], "action": "values_changed", "value": "flat_dicts"}]
    if fr:
        kw["flat_rows_list"] = [FlatDeltaRow(path=["m"], action="values_changed", value="flat_rows")]


def _persist_source_observe(ctx, a, kw, seen, opened, case):
    from deepdiff import Delta
    from deepdiff.serialization import pickle_load
    import deepdiff.delta as DM
    k, p, f, dd, fd, fr = a
    safe = {"verif_c14_mod.X"}

    def spy_load(content=None, file_obj=None, safe_to_import=None):
        seen.append(safe_to_import == safe)
        return pickle_load(content, file_obj, safe_to_import=safe_to_import)

    def spy_open(name, mode="r", *args, **kwargs):
        opened.append(mode)
        return open(name, mode, *args, **kwargs)
    DM.open = spy_open          # a module global of deepdiff.delta that shadows the builtin while the constructor runs
    try:
        try:
            d = Delta(deserializer=spy_load, safe_to_import=safe, **kw)
            tag = d.diff["values_changed"]["root['m']"]["new_value"]
            same_obj = {"mapping": "diff", "delta_diff": "delta_diff"}.get(tag)
            if tag == "deepdiff":
                obs = ["to_delta_dict"]
            elif same_obj:
                obs = ["as-is", same_obj] if d.diff is kw[same_obj] else ["copied", same_obj]
            elif tag == "bytes":
                obs = ["deserialize", ["arg", "diff"], bool(seen and seen[-1])]
            elif tag == "path":
                obs = ["deserialize", ["path", "delta_path", opened[-1] if opened else "?"], bool(seen and seen[-1])]
            elif tag == "file":
                obs = ["deserialize", ["file.read", "delta_file"], bool(seen and seen[-1])]
            else:
                obs = [tag, "flat_dict_list" if tag == "flat_dicts" else "flat_rows_list"]
            payload = d.diff
        except ValueError as e:
            obs, payload = ["ValueError", str(e)], None
        except AttributeError:
            obs, payload = ["unset"], None
        except Exception as e:  # noqa
            obs, payload = ["raises", type(e).__name__], None
    finally:
        del DM.open
    ctx.seen(("persist-source", a))
    given = [nm for nm, on in zip(("delta_path", "delta_file", "delta_diff", "flat_dict_list", "flat_rows_list"), a[1:]) if on]
    alone = {("strings", ()): "bytes", ("None", ("delta_path",)): "path", ("None", ("delta_file",)): "file"}.get((k, tuple(given)))
    if alone and (payload is None or not typed_payload_eq(payload, _marker(alone))):
        ctx.fail(dict(case, stage="load", source=alone, observed=repr(obs)),
                 "a delta persisted as %s and handed to Delta(...) alone does not come back with its payload" % alone)
    ctx.count("persist:source " + obs[0])
    return ("sx_source (delta_source %s)" % _coq_args(a), obs, case)


def _persist_fns():
    from deepdiff.serialization import pickle_load, pickle_dump
    import functools
    rec = []

    def load_with_safe(obj, safe_to_import=None):
        rec.append(("load", "kw" if safe_to_import is not None else "no-kw"))
        return pickle_load(obj, safe_to_import=safe_to_import)

    def load_plain(obj):
        rec.append(("load", "no-kw"))
        return pickle_load(obj)

    def dump_with_file(obj, file_obj=None):
        rec.append(("dump", "file_obj" if file_obj is not None else "no-kw"))
        return pickle_dump(obj, file_obj=file_obj)

    def dump_plain(obj):
        rec.append(("dump", "no-kw"))
        return pickle_dump(obj)
    loaders = [("with safe_to_import", load_with_safe), ("plain", load_plain), ("partial (no __code__)", functools.partial(load_with_safe)),
               ("pickle_load", pickle_load)]
    dumpers = [("with file_obj", dump_with_file), ("plain", dump_plain), ("pickle_dump", pickle_dump)]
    return rec, loaders, dumpers


def _coq_strs(names):
    return "[%s]" % "; ".join(core.coq_string(x) for x in names)


def persist_choice_cases(ctx):
    """the _deserializer choice and Delta.dump's way of calling the serializer, on callables with / without the parameter looked
    for, and the facts about the two signatures the defaults rely on"""
    import inspect
    from unittest import mock
    from deepdiff import DeepDiff, Delta
    import deepdiff.serialization as S
    rec, loaders, dumpers = _persist_fns()
    cases = []
    try:
        content = S.pickle_dump(_marker("bytes"))
    except Exception as e:  # noqa
        ctx.fail({"persist": "deserializer-choice", "stage": "dump", "error": type(e).__name__}, "pickle_dump raised %s" % type(e).__name__)
        return cases
    for nm, fn in loaders:
        del rec[:]
        case = {"persist": "deserializer-choice", "deserializer": nm}
        has_code = hasattr(fn, "__code__")
        names = list(fn.__code__.co_varnames) if has_code else []
        if fn is S.pickle_load:
            calls = []
            with mock.patch.object(S._RestrictedUnpickler, "__init__", autospec=True,
                                   side_effect=lambda self, *a, **k: calls.append(k.get("safe_to_import"))):
                try:
                    Delta(content, safe_to_import={"a.b"})
                except Exception:  # the patched constructor builds no unpickler
                    pass
            obs = "direct" if calls and calls[0] == {"a.b"} else "wrapped"
        else:
            try:
                d = Delta(content, deserializer=fn, safe_to_import={"a.b"})
                if not typed_payload_eq(d.diff, _marker("bytes")):
                    ctx.fail(dict(case, stage="payload"), "Delta(bytes, deserializer=%s) carries a different payload" % nm)
                obs = "direct" if rec and rec[-1] == ("load", "kw") else "wrapped"
            except Exception as e:  # noqa
                obs = "raises " + type(e).__name__
                ctx.fail(dict(case, stage="load", error=type(e).__name__), "Delta(bytes, deserializer=%s) raised %s" % (nm, type(e).__name__))
        ctx.seen(("persist-choice", nm))
        cases.append(("sx_choice (deserializer_choice %s %s)" % (core.coq_bool(has_code), _coq_strs(names)), obs, case))
    dd = DeepDiff({"m": 0}, {"m": 1})
    for nm, fn in dumpers:
        del rec[:]
        case = {"persist": "dump-mode", "serializer": nm}
        buf = io.BytesIO()
        buf.write(b"HDR")
        try:
            if fn is S.pickle_dump:
                calls = []
                real = S.pickle_dump

                def spy(obj, file_obj=None, protocol=4):
                    calls.append("file_obj" if file_obj is not None else "no-kw")
                    return real(obj, file_obj=file_obj, protocol=protocol)
                d = Delta(dd, serializer=spy)
                d.dump(buf)
                obs = ["serializer-keyword", "file_obj"] if calls == ["file_obj"] else ["write-dumps"]
            else:
                d = Delta(dd, serializer=fn)
                d.dump(buf)
                obs = ["serializer-keyword", "file_obj"] if rec == [("dump", "file_obj")] else ["write-dumps"]
            got = buf.getvalue()
            back = P.real_load(got[3:], None)
            if got[:3] != b"HDR" or back["cls"] != "ok" or not typed_payload_eq(back["result"], d.diff):
                ctx.fail(dict(case, stage="dump(file)"), "Delta.dump(file) with serializer=%s does not append a dump that loads to the payload" % nm)
        except Exception as e:  # noqa
            obs = ["raises", type(e).__name__]
            ctx.fail(dict(case, stage="dump(file)", error=type(e).__name__), "Delta.dump(file) with serializer=%s raised" % nm)
        names = list((spy if fn is S.pickle_dump else fn).__code__.co_varnames)
        ctx.seen(("persist-dump-mode", nm))
        cases.append(("sx_dump_mode (delta_dump_mode %s)" % _coq_strs(names), obs, case))
    sig = inspect.signature(Delta.__init__).parameters
    psig = inspect.signature(S.pickle_dump).parameters
    # of the co_varnames only what Delta looks for (the names of locals are free)
    cases.append(("SL [SA DEFAULT_DESERIALIZER; SA DEFAULT_SERIALIZER; SZ PICKLE_DUMP_PROTOCOL; sx_bool (str_in \"file_obj\" PICKLE_DUMP_VARNAMES); "
                  "sx_bool (str_in \"safe_to_import\" PICKLE_LOAD_VARNAMES); sx_bool (str_in \"safe_to_import\" PICKLE_DUMP_VARNAMES)]",
                  [getattr(sig["deserializer"].default, "__name__", "?"), getattr(sig["serializer"].default, "__name__", "?"),
                   psig["protocol"].default, "file_obj" in S.pickle_dump.__code__.co_varnames, "safe_to_import" in S.pickle_load.__code__.co_varnames,
                   "safe_to_import" in S.pickle_dump.__code__.co_varnames],
                  {"persist": "signatures"}))
    return cases


PERSIST_PAYLOADS = None


def persist_payloads():
    """a small fixed universe of payloads (every constructor of Codec.pv at least once, the class type(None) at several positions)"""
    global PERSIST_PAYLOADS
    if PERSIST_PAYLOADS is None:
        Opcode, SetOrdered = _helper()
        PERSIST_PAYLOADS = [
            {}, _marker("x"), {"values_changed": {"root[0]": {"new_value": None, "old_value": 2.5}}},
            {"type_changes": {"root['a']": {"old_type": type(None), "new_type": int, "new_value": 1, "old_value": None}}},
            {"iterable_item_added": {"root[1]": type(None), "root[2]": [type(None), (1, type(None))]}},
            {"set_item_added": {"root": {1, 2, "x"}}, "set_item_removed": {"root": set()}},
            {"dictionary_item_added": {"root['k']": (1, b"\x00\xff", frozenset({3}), {"n": [True, False]})}},
            {"_iterable_opcodes": {"root": [Opcode("insert", 0, 0, 0, 2, [], [9, type(None)])]}, "_numpy_paths": {}},
            {"values_changed": {"root['s']": {"new_value": "é中", "old_value": 2 ** 70}}},
            {"type_changes": {"root": {"old_type": list, "new_type": SetOrdered, "new_value": SetOrdered([1, 2])}}},
        ]
    return PERSIST_PAYLOADS


PERSIST_FILES = [("none", None, "WNone"), ("empty-file", b"", "(WFile [])"), ("file-with-header", b"HDR\x00", "(WFile [72; 68; 82; 0]%N)")]


def persist_dump_case(ctx, pi, fi):
    """serialization.pickle_dump as a call: bytes returned when no file object is given, None returned and the dump appended to the
    file object otherwise; either way what was written loads to the payload (oracle) and the model VM reads it (correspondence)"""
    from deepdiff.serialization import pickle_dump
    payload = persist_payloads()[pi]
    form, pre, fcoq = PERSIST_FILES[fi]
    case = {"persist": "pickle_dump", "payload_index": pi, "payload": repr(payload), "file": form}
    ctx.seen(("persist-dump", pi, fi))
    try:
        if pre is None:
            r = pickle_dump(payload)
            written, kept = r, True
            kind = "bytes" if isinstance(r, bytes) else "None" if r is None else type(r).__name__
            third = True
        else:
            buf = io.BytesIO()
            buf.write(pre)
            r = pickle_dump(payload, file_obj=buf)
            got = buf.getvalue()
            kept = got[:len(pre)] == pre
            written = got[len(pre):]
            kind = "bytes" if isinstance(r, bytes) else "None" if r is None else type(r).__name__
            third = "-" if r is None else (r == got)
    except Exception as e:  # noqa
        ctx.fail(dict(case, stage="dump", error=type(e).__name__), "pickle_dump raised %s" % type(e).__name__)
        return None
    back = P.real_load(written, None) if isinstance(written, bytes) and written else {"cls": "nothing written", "exc": None}
    if back["cls"] != "ok" or not typed_payload_eq(back["result"], payload):
        ctx.fail(dict(case, stage="load", error=back.get("exc"), returned=kind),
                 "what pickle_dump %s does not load to the payload" % ("returns" if pre is None else "writes into the file object"))
        return None
    if (pre is None) != (kind == "bytes") or not kept:
        ctx.fail(dict(case, stage="return", returned=kind, prefix_kept=kept),
                 "pickle_dump returns %s %s a file object%s" % (kind, "without" if pre is None else "with", "" if kept else " and overwrites what the file held"))
    ctx.count("persist:pickle_dump " + form)
    try:
        pcoq = pv_coq(payload)
        exp_load = [pv_canon(back["result"]), [[m, n] for m, n, r_ in back["calls"] if r_]]
    except Unsupported:
        return None
    bs = P.coq_bytes(written)
    pre_coq = "[]" if not pre else P.coq_bytes(pre)
    return ("SL [sx_dump_kind %s (pickle_dump_call %s %s PICKLE_DUMP_PROTOCOL); sx_load_bytes default_world %s %s]" % (
                pre_coq, pcoq, fcoq, P.coq_c_dialect(written), bs),
            [[kind, kept, third], exp_load], case)



PERSIST_PYCL = ["PcSet", "PcFrozenset", "PcSetOrdered", "PcType", "PcBytes", "PcListReverseIterator", "PcOther"]
PERSIST_MAPPINGS = [("none", None, "[]"), ("frozenset: list", "frozenset", '[("frozenset", JcFunc "list")]'),
                    ("set: sorted", "set", '[("set", JcFunc "sorted")]')]


def _pycl_samples():
    Opcode, SetOrdered = _helper()
    return {"PcSet": {1, 2}, "PcFrozenset": frozenset({1, 2}), "PcSetOrdered": SetOrdered([1, 2]), "PcType": int, "PcBytes": b"ab",
            "PcListReverseIterator": reversed([2, 1]), "PcOther": object()}


def persist_json_cases(ctx, only=None):
    """json_convertor_default(default_mapping)(obj) for a sample object of every class the payload universe can hand to json's
    default= hook: which converter is applied (by name; a lambda by its effect).  Correspondence: PersistModel.convertor over
    PersistModel.JSON_CONVERTOR_TABLE.  Oracle: a set / SetOrdered / class / bytes value is written by json_dumps (no TypeError)."""
    from deepdiff.serialization import json_convertor_default, json_dumps, JSON_CONVERTOR
    cases = []
    for mname, mkey, mcoq in PERSIST_MAPPINGS:
        dm = None if mkey is None else {frozenset: list} if mkey == "frozenset" else {set: sorted}
        conv = json_convertor_default(default_mapping=dm)
        table = dict(JSON_CONVERTOR)
        table.update(dm or {})
        for cname in PERSIST_PYCL:
            if only is not None and (mname, cname) not in only:
                continue
            obj = _pycl_samples()[cname]
            case = {"persist": "json-convertor", "default_mapping": mname, "class": cname}
            used = "-"
            for k_, v_ in table.items():
                if isinstance(obj, k_):
                    used = "<lambda>" if getattr(v_, "__name__", "") == "<lambda>" else getattr(v_, "__name__", "?")
                    break
            try:
                r = conv(obj)
                effect = ("list of the members" if isinstance(r, list) and sorted(r) == [1, 2] else "the class name" if r == "int"
                          else "the text" if r == "ab" else "other converter")
            except TypeError:
                effect = "TypeError"
            except Exception as e:  # noqa
                effect = "raises " + type(e).__name__
            if mkey is None and cname in ("PcSet", "PcSetOrdered", "PcType", "PcBytes"):
                try:
                    json_dumps({"k": obj})
                except Exception as e:  # noqa
                    ctx.fail(dict(case, path="json", stage="dumps", error=type(e).__name__),
                             "json_dumps raises %s on a %s value" % (type(e).__name__, cname[2:]))
            ctx.seen(("persist-json", mname, cname))
            ctx.count("persist:json_convertor_default " + effect)
            cases.append(("sx_conv_obs (convertor (convertor_mapping %s) %s)" % (mcoq, cname), [effect, used], case))
    return cases

def persist_stream(ctx, only=None):
    """only: {"source": [argument tuples], "dump": [(payload index, file index)], "choice": bool, "json": True | [(mapping, class)]} - the inputs a broken source tie
    points at; None: everything"""
    import logging
    logging.disable(logging.CRITICAL)
    cases = []
    for a in (persist_args() if only is None else only.get("source", [])):
        cases.append(persist_source_case(ctx, a))
    if only is None or only.get("choice"):
        cases += persist_choice_cases(ctx)
    if only is None or only.get("json"):
        cases += persist_json_cases(ctx, None if only is None or only.get("json") is True else only["json"])
    pairs = [(pi, fi) for pi in range(len(persist_payloads())) for fi in range(len(PERSIST_FILES))] if only is None else only.get("dump", [])
    for pi, fi in pairs:
        c = persist_dump_case(ctx, pi, fi)
        if c is not None:
            cases.append(c)
    ctx.coq_cases("c14_persist" if only is None else "c14_persist_tie", PERSIST_HDR, cases, shard=120,
                  label="persisting side, statement level: Delta's source selection, _deserializer choice, Delta.dump, pickle_dump as a call"
                        + ("" if only is None else " (inputs the broken source tie points at)"))
    return len(cases)


def _persist_tie_eval(ctx):
    """one Coq evaluation: where the definitions regenerated from the current source (DDGen.PersistGen) and Pickle/PersistModel.v differ"""
    import re as _re
    gen_dir = os.path.join(ctx.scratch, "srctie")
    ctx.ensure_built(PERSIST_HDR)
    rec, loaders, dumpers = _persist_fns()
    namelists = [[], ["obj"], ["obj", "file_obj"], ["obj", "safe_to_import"], ["content", "file_obj", "safe_to_import"],
                 ["obj", "file_obj", "protocol", "file_obj_passed"], ["file", "fileobj"], ["safe_to_import"], ["file_obj"]]
    dumps = [(pi, fi, pr) for pi in range(len(persist_payloads())) for fi in range(len(PERSIST_FILES)) for pr in (0, 1, 2)]
    protos = ["PICKLE_DUMP_PROTOCOL", "g_pickle_dump_protocol_default", "3"]
    values = []
    for p in persist_payloads():
        values.append(pv_coq(p))
    values += ["PNoneType", "(PAtom ANone)", "(PAtom (AStr %s))" % core.coq_pystr("<<NoneType>>"), "(PTuple [PNoneType])", "(PList [])",
               "(PType (s2p \"builtins\") (s2p \"int\"))"]
    L = ["From Coq Require Import List String ZArith NArith Bool.", "Import ListNotations.", "From DD Require Import Base.Sx.", PERSIST_HDR,
         "From DDGen Require Import PickleGen PersistGen.", "Local Open Scope string_scope.",
         "Definition PAYLOADS : list pv := [%s]." % "; ".join(pv_coq(p) for p in persist_payloads()),
         "Definition FILES : list wfile := [%s]." % "; ".join(f[2] for f in PERSIST_FILES),
         "Definition PROTOS : list Z := [%s]." % "; ".join(protos),
         "Definition DUMPS : list (pv * wfile * Z) := flat_map (fun p => flat_map (fun f => map (fun z => (p, f, z)) PROTOS) FILES) PAYLOADS.",
         "Definition NAMELISTS : list (list string) := [%s]." % "; ".join(_coq_strs(n) for n in namelists),
         "Definition CHOICES : list (bool * list string) := flat_map (fun b => map (fun l => (b, l)) NAMELISTS) [true; false].",
         "Definition VALUES : list pv := [%s]." % "; ".join(values),
         "Definition so (o : option pystr) : sx := match o with Some s => SL [sx_str s] | None => SL [] end.",
         "Definition MAPPINGS : list table := [%s]." % "; ".join(m[2] for m in PERSIST_MAPPINGS),
         "Definition JCASES : list (table * pycl) := flat_map (fun m => map (fun c => (m, c)) ALL_PYCL) MAPPINGS.",
         'Eval vm_compute in ("BEGIN" ++ nl ++ show_sx (SL ['
         "idx_diff (fun a => sx_source (g_delta_source a)) (fun a => sx_source (delta_source a)) ALL_ARGS; "
         "idx_diff (fun q => sx_choice (g_deserializer_choice (fst q) (snd q))) (fun q => sx_choice (deserializer_choice (fst q) (snd q))) CHOICES; "
         "idx_diff (fun l => sx_dump_mode (g_Delta_dump_mode l)) (fun l => sx_dump_mode (delta_dump_mode l)) NAMELISTS; "
         "idx_diff (fun q => sx_dump_res (g_pickle_dump (fst (fst q)) (snd (fst q)) (snd q))) "
         "(fun q => sx_dump_res (pickle_dump_call (fst (fst q)) (snd (fst q)) (snd q))) DUMPS; "
         "idx_diff (fun v => so (hook_of g_persistent_id v)) (fun v => so (persistent_id v)) VALUES; "
         "idx_diff (fun q => sx_conv (g_convertor (g_convertor_mapping (fst q)) (snd q))) (fun q => sx_conv (convertor (convertor_mapping (fst q)) (snd q))) JCASES; "
         "idx_diff (fun x => fst x) (fun x => snd x) [(SZ g_pickle_dump_protocol_default, SZ PICKLE_DUMP_PROTOCOL); "
         "(sx_wfile g_pickle_dump_file_obj_default, sx_wfile WNone); (SA g_Delta_default_deserializer, SA DEFAULT_DESERIALIZER); "
         "(SA g_Delta_default_serializer, SA DEFAULT_SERIALIZER); "
         '(sx_bool (str_in "file_obj" g_pickle_dump_co_varnames), sx_bool (str_in "file_obj" PICKLE_DUMP_VARNAMES)); '
         '(sx_bool (str_in "safe_to_import" g_pickle_load_co_varnames), sx_bool (str_in "safe_to_import" PICKLE_LOAD_VARNAMES)); '
         '(sx_bool (str_in "safe_to_import" g_pickle_dump_co_varnames), sx_bool false); '
         "(sx_dump_mode (g_Delta_dump_mode g_pickle_dump_co_varnames), sx_dump_mode (delta_dump_mode PICKLE_DUMP_VARNAMES)); "
         "(sx_choice (g_deserializer_choice true g_pickle_load_co_varnames), sx_choice (deserializer_choice true PICKLE_LOAD_VARNAMES))]"
         ']) ++ "END").']
    fn = os.path.join(ctx.scratch, "tie_c14_diff.v")
    with open(fn, "w") as f:
        f.write("\n".join(L) + "\n")
    rc, out = core.sh(["coqc", "-Q", core.THEORIES, "DD", "-Q", gen_dir, "DDGen", fn], timeout=900, cwd=ctx.scratch)
    m = _re.search(r'"BEGIN\s*\n(.*)END"', out, _re.S)
    if rc != 0 or not m:
        return None, out[-1500:]
    groups = _re.findall(r"\(([-0-9 \n]*)\)", m.group(1))
    nums = [[int(x) for x in g.split()] for g in groups]
    if len(nums) != 7:
        return None, "unexpected shape: " + m.group(1)[:300]
    keys = ["delta_source", "deserializer_choice", "Delta_dump_mode", "pickle_dump", "persistent_id", "json_convertor", "defaults_and_signatures"]
    return {"totals": {k_: n[0] for k_, n in zip(keys, nums)}, "idx": {k_: n[1:] for k_, n in zip(keys, nums)}, "dumps": dumps}, None


def on_source_tie_break(ctx, name, rec):
    """a source tie is not intact: look for a concrete input on which the definitions generated from the current source and the
    hand-written model differ, and judge it like any generated case (direct oracle -> ctx.fail, model / implementation
    disagreement -> correspondence break).  Never fails by itself."""
    out = {"status": rec.get("status")}
    if name == "unpickler":
        out["searched"] = ("the loading side is C15's fragment: its differencing search is on_source_tie_break of harness/props/c15.py "
                           "(./check C15); here the pickle streams of this run use their thorough-size budgets")
        return out
    if rec.get("status") in ("translator-rejected", "generated-model-does-not-compile") or \
            not os.path.exists(os.path.join(ctx.scratch, "srctie", "PersistGen.vo")):
        out["searched"] = ("nothing to compare (no generated definitions); the statement-level stream runs in full as on every run and the "
                           "dump / load streams of this run use their thorough-size budgets")
        return out
    diff, err = _persist_tie_eval(ctx)
    out["compared"] = {"argument combinations of Delta.__init__": 160, "callables x name lists": 18, "name lists": 9,
                       "payloads x file objects x protocols": len(persist_payloads()) * len(PERSIST_FILES) * 3, "values shown to persistent_id":
                       len(persist_payloads()) + 6, "default_mapping x classes handed to json's default hook": len(PERSIST_MAPPINGS) * len(PERSIST_PYCL), "defaults / signature facts": 9}
    if diff is None:
        out["error"] = "the differencing file did not evaluate: " + (err or "")
        return out
    out["differences"] = diff["totals"]
    args = persist_args()
    only = {"source": [args[i] for i in diff["idx"]["delta_source"][:12]],
            "choice": bool(diff["totals"]["deserializer_choice"] or diff["totals"]["Delta_dump_mode"] or diff["totals"]["defaults_and_signatures"]),
            "dump": sorted(set((diff["dumps"][i][0], diff["dumps"][i][1]) for i in diff["idx"]["pickle_dump"]))[:12]}
    if diff["totals"]["json_convertor"]:
        jc = [(m[0], c) for m in PERSIST_MAPPINGS for c in PERSIST_PYCL]
        only["json"] = [jc[i] for i in diff["idx"]["json_convertor"]]
    if diff["totals"]["persistent_id"] and not only["dump"]:
        only["dump"] = [(pi, fi) for pi in range(len(persist_payloads())) for fi in (0, 2)]
    out["first_differences"] = {"delta_source arguments (diff kind, delta_path, delta_file, delta_diff, flat_dict_list, flat_rows_list)": only["source"][:6],
                                "pickle_dump (payload index, file object)": [[pi, PERSIST_FILES[fi][0]] for pi, fi in only["dump"][:6]],
                                "json_convertor_default (default_mapping, class of the object)": [list(x) for x in (only.get("json") or [])[:6]]}
    b0, f0 = len(ctx.breaks), len(ctx.failures)
    if only["source"] or only["choice"] or only["dump"] or only.get("json"):
        out["judged_on_the_implementation"] = persist_stream(ctx, only)
    out["located_on_the_implementation"] = len(ctx.failures) > f0 or len(ctx.breaks) > b0
    return out


# ---------------------------------------------------------------------------
# known findings
# ---------------------------------------------------------------------------

def _m_k12(case):
    return (case.get("path") == "json" and case.get("stage") == "load" and case.get("error") == "TypeError"
            and case.get("has_opcodes") is True)


def _m_nonetype(case):
    return case.get("path") == "json" and case.get("stage") in ("payload", "second dump", "payload-relation") and case.get("nonetype_only") is True


def _m_datetime_tz(case):
    """clause: the default reload of the delta's own pickle dump is refused (stage load, ForbiddenModule); feature: the
    inputs held only naive datetimes and the payload holds datetime.timezone objects (tz_injected, computed on the live
    objects); prediction: the refused name is exactly datetime.timezone and with that ONE name granted the dump loads to
    the original payload.  A ForbiddenModule for any other name (builtins.type: seeded C14-10) never matches."""
    return (case.get("path") == "pickle" and case.get("stage") == "load" and case.get("error") == "ForbiddenModule"
            and case.get("forbidden") == "datetime.timezone" and case.get("tz_injected") is True
            and case.get("loads_when_granted") is True)


MATCHERS = {"K12": _m_k12, "C14-JSON-NONETYPE": _m_nonetype, "C14-DATETIME-TZ": _m_datetime_tz}


def fixed_witnesses(ctx):
    """the Coq _refuted witnesses, replayed on the implementation"""
    import logging
    logging.disable(logging.CRITICAL)
    from deepdiff import DeepDiff, Delta
    from deepdiff.serialization import json_dumps, json_loads
    rep = {}
    # K12 (fixed in c7b983b): C14_json_opcode_roundtrip - the delta with opcodes survives the JSON round trip
    t1, t2 = [1, 2, 3, 4], [9, 8, 1, 2, 3, 4]
    d = Delta(DeepDiff(t1, t2), serializer=json_dumps)
    text = d.dumps()
    back = "raises"
    try:
        dj = Delta(text, deserializer=json_loads)
        rep["K12"] = "loads, payload equal" if typed_payload_eq(dj.diff, d.diff) else "loads, payload differs"
        back = pv_canon(dj.diff)
        if not typed_payload_eq(dj.diff, d.diff) or apply_delta(t1, dj) != apply_delta(t1, Delta(DeepDiff(t1, t2))):
            ctx.fail({"path": "json", "stage": "payload", "has_opcodes": True, "t1": repr(t1), "t2": repr(t2), "witness": "coq"},
                     "a JSON-serialised delta with iterable opcodes comes back different")
    except TypeError:
        rep["K12"] = "TypeError"
        ctx.fail({"path": "json", "stage": "load", "error": "TypeError", "has_opcodes": True, "t1": repr(t1), "t2": repr(t2),
                  "witness": "coq"}, "a JSON-serialised delta with iterable opcodes does not load again: TypeError")
    ctx.evaluations += 1
    # NoneType
    d = Delta(DeepDiff({"a": None}, {"a": 1}), serializer=json_dumps)
    d2 = Delta(d.dumps(), deserializer=json_loads)
    same = d2.diff == d.diff
    rep["C14-JSON-NONETYPE"] = "equal" if same else "differs"
    if same:
        ctx.break_("correspondence", {"name": "refuted-witness", "detail": "C14_json_nonetype_refuted no longer reproduces"})
    else:
        ctx.fail({"path": "json", "stage": "payload", "nonetype_only": _nonetype_only(d.diff, d2.diff), "t1": "{'a': None}",
                  "t2": "{'a': 1}", "witness": "coq"}, "the JSON round trip changes the payload")
    ctx.evaluations += 1
    # C14-DATETIME-TZ (no Coq witness: datetimes are outside pv): the finding's witness on the implementation, recorded
    import datetime as _dt
    try:
        dz = Delta(DeepDiff({"a": _dt.datetime(2020, 1, 2)}, {"a": _dt.datetime(2021, 1, 2)}))
        try:
            Delta(dz.dumps())
            rep["C14-DATETIME-TZ"] = "loads"
        except Exception as e:  # noqa
            rep["C14-DATETIME-TZ"] = type(e).__name__
    except Exception as e:  # noqa
        rep["C14-DATETIME-TZ"] = "witness not buildable: " + type(e).__name__
    ctx.evaluations += 1
    ctx.note("refuted_witnesses_replayed", rep)
    pay = Delta(DeepDiff(t1, t2)).diff
    return [("SL [sx_ojv (to_json %s); sx_opv (json_roundtrip %s)]" % (pv_coq(pay), pv_coq(pay)),
             [json_canon(json.loads(text, object_pairs_hook=_Pairs)), back], {"corr": "json", "witness": "K12"})]


def run(ctx):
    # a source tie that is not intact (the model fragment regenerated from the current source is no longer proved equal to the
    # hand-written model) and whose differencing search located nothing on the implementation escalates the dump / load stream
    located = any(bool((r.get("search") or {}).get("located_on_the_implementation")) for r in ctx.source_ties.values())
    big = ctx.thorough or (ctx.tie_broken() and not located)
    if big and not ctx.thorough:
        ctx.note("escalated", "a source tie of C14 is not intact: the dump / load stream runs with its thorough-size budget")
    n = 2600 if big else 520
    out = {"vm": [], "enc": [], "json": [], "acc": [], "dlt": [], "jset": [], "enc_max": 600 if big else 160}
    interference_stream(ctx)       # first: everything below also runs after the unrelated calls
    persist_stream(ctx)
    for i in range(n):
        one_case(ctx, ctx.rng, i, out)
    classvalue_stream(ctx, out)
    exotic_stream(ctx)
    out["json"] += fixed_witnesses(ctx)
    hdr = "From DD Require Import Base.PyStr Base.Value Pickle.Vm Pickle.Codec Pickle.Bytes Pickle.PickleShow Pickle.JsonProofs Pickle.JsonNoneProofs Pickle.PicklerHook.\nLocal Open Scope Z_scope."
    ctx.coq_cases("c14_vm", hdr, out["vm"], shard=60, label="real dumps on the model VM")
    ctx.coq_cases("c14_hook", hdr, out.get("hook", []), shard=60, label="dumps of a pickler without the persistent_id hook: real verdict, model VM, model pickler")
    ctx.coq_cases("c14_json", hdr, out["json"], shard=120, label="json value + json round trip")
    accepts_part(ctx, out["acc"])
    from harness import deltacommon as DC
    ctx.coq_cases("c14_delta", DC.HDR[:-1] + " Pickle.Vm Pickle.Codec Pickle.Bytes Pickle.DeltaCodec Pickle.DeltaIOCodec Pickle.DeltaCodecShow.\nLocal Open Scope Z_scope.",
                  out["dlt"], shard=60, label="decoded dump read as a delta of the application model")
    ctx.coq_cases("c14_jsonsets", DC.HDR[:-1] + " Pickle.Vm Pickle.Codec Pickle.DeltaCodec Pickle.DeltaCodecShow.\nLocal Open Scope Z_scope.",
                  out["jset"], shard=60, label="JSON-persisted deltas with set items: payload relation and delta")
    encoder_part(ctx, out["enc"])
    if out["vm"]:
        ctx.sample({"case": out["vm"][0][2], "expected": out["vm"][0][1]})


def replay(ctx, data):
    import logging
    logging.disable(logging.CRITICAL)
    case = data.get("case", {})
    if "interference" in case:
        print("replay: interference case %d (%s), bidirectional=%s" % (
            case["interference"], interference_cases()[case["interference"]][0], case.get("bidirectional")))
        interference_one(ctx, case["interference"], case.get("bidirectional", False))
        return
    if "exotic" in case:
        install_exotic()
        print("replay: exotic value case %d (%s), bidirectional=%s" % (case["exotic"], case.get("what"), case.get("bidirectional")))
        exotic_one(ctx, case["exotic"], case.get("bidirectional", False))
        return
    if "persist" in case:
        print("replay: statement-level case %r" % (case,))
        if case["persist"] == "source":
            persist_stream(ctx, {"source": [tuple(case["args"])]})
        elif case["persist"] == "pickle_dump":
            fi = [i for i, f_ in enumerate(PERSIST_FILES) if f_[0] == case.get("file")][0]
            persist_stream(ctx, {"dump": [(case["payload_index"], fi)]})
        elif case["persist"] == "json-convertor":
            persist_stream(ctx, {"json": [(case["default_mapping"], case["class"])]})
        else:
            persist_stream(ctx, {"choice": True})
        for f_ in ctx.failures[:3]:
            print("replay: FAILS - %s" % f_["what"])
        return
    if "classval" in case:
        spec = case["classval"]
        t1, t2, kw, raw = cv_build(spec)
        print("replay: class-value case %r" % (spec,))
        print("replay: t1 = %r\nreplay: t2 = %r\nreplay: %s" % (t1, t2, ("raw payload = %r" % (raw,)) if raw is not None else "DeepDiff kwargs = %r" % (kw,)))
        idx = ([i for i, s_ in enumerate(SAFE_SHAPES) if repr(s_) == case.get("safe_to_import")] or [0])[0]
        cv_one(ctx, dict(spec, coq=False), idx, {"vm": [], "acc": [], "enc": [], "enc_max": 0})
        for f_ in ctx.failures[:3]:
            print("replay: FAILS - %s [%s]" % (f_["what"], ", ".join("%s=%s" % (k_, f_["case"].get(k_)) for k_ in ("stage", "source", "error") if k_ in f_["case"])))
        return
    if "t1" not in case:
        return run(ctx)
    from deepdiff import DeepDiff, Delta
    from deepdiff.serialization import json_dumps, json_loads
    t1, t2 = eval(case["t1"]), eval(case["t2"])   # literals written by this harness
    kw = {k_: (_by_id if v_ == "_by_id" else v_) for k_, v_ in case.get("diff_kwargs", {}).items()}
    bid, aiv = case.get("bidirectional", False), case.get("always_include_values", False)
    safe = eval(case.get("safe_to_import", "None"))
    dd = DeepDiff(t1, t2, **kw)
    d = Delta(dd, bidirectional=bid, always_include_values=aiv)
    ctx.evaluations += 1
    print("replay: payload = %r" % (d.diff,))
    if case.get("path") == "json":
        try:
            text = Delta(dd, bidirectional=bid, always_include_values=aiv, serializer=json_dumps).dumps()
            d2 = Delta(text, deserializer=json_loads, bidirectional=bid, always_include_values=aiv)
        except Exception as e:  # noqa
            print("replay: JSON path raised %s: %s" % (type(e).__name__, e))
            ctx.fail(dict(case), "a JSON-serialised delta does not load again: %s" % type(e).__name__)
            return
    else:
        try:
            src = case.get("source", "bytes")
            if src in OFFSET_SOURCES:
                d2 = positioned_loader(ctx, d, src, case.get("real_file", False), bid, aiv, safe)()
            elif src in ("file", "path"):
                fn = os.path.join(ctx.scratch, "replay_delta.bin")
                with open(fn, "wb") as f:
                    d.dump(f)
                if src == "path":
                    d2 = Delta(delta_path=fn, bidirectional=bid, always_include_values=aiv, safe_to_import=safe)
                else:
                    with open(fn, "rb") as f:
                        d2 = Delta(delta_file=f, bidirectional=bid, always_include_values=aiv, safe_to_import=safe)
            else:
                d2 = Delta(d.dumps(), bidirectional=bid, always_include_values=aiv, safe_to_import=safe)
        except Exception as e:  # noqa
            print("replay: pickle path raised %s: %s" % (type(e).__name__, e))
            ctx.fail(dict(case), "Delta's own dump does not load: %s" % type(e).__name__)
            return
    print("replay: reloaded payload = %r" % (d2.diff,))
    is_json = case.get("path") == "json"
    same_payload = typed_payload_eq(d2.diff, d.diff)
    bad = []
    if not same_payload and not case.get("set_items"):
        bad.append(("payload", "the reloaded payload differs from the original"))
    bases = [t1] + ([eval(case["base"])] if "base" in case else [])
    for b in bases:
        for sub_ in ([False, True] if bid else [False]):
            w, g = apply_delta(b, Delta(dd, bidirectional=bid, always_include_values=aiv), sub=sub_), apply_delta(b, _reload_for_replay(case, dd, d, bid, aiv, safe, ctx), sub=sub_)
            print("replay: base %r %s -> original %r / reloaded %r" % (b, "-" if sub_ else "+", w, g))
            if w != g:
                bad.append(("behaviour", "the reloaded delta behaves differently from the original"))
    for stage, what in bad[:1]:
        c2 = dict(case, stage=stage)
        if is_json and stage == "payload":
            c2["nonetype_only"] = _nonetype_only(d.diff, d2.diff)
        ctx.fail(c2, what)


def _reload_for_replay(case, dd, d, bid, aiv, safe, ctx):
    from deepdiff import Delta
    from deepdiff.serialization import json_dumps, json_loads
    if case.get("path") == "json":
        text = Delta(dd, bidirectional=bid, always_include_values=aiv, serializer=json_dumps).dumps()
        return Delta(text, deserializer=json_loads, bidirectional=bid, always_include_values=aiv)
    src = case.get("source", "bytes")
    if src in OFFSET_SOURCES:
        return positioned_loader(ctx, d, src, case.get("real_file", False), bid, aiv, safe)()
    if src in ("file", "path"):
        fn = os.path.join(ctx.scratch, "replay_delta.bin")
        with open(fn, "wb") as f:
            d.dump(f)
        if src == "path":
            return Delta(delta_path=fn, bidirectional=bid, always_include_values=aiv, safe_to_import=safe)
        with open(fn, "rb") as f:
            return Delta(delta_file=f, bidirectional=bid, always_include_values=aiv, safe_to_import=safe)
    return Delta(d.dumps(), bidirectional=bid, always_include_values=aiv, safe_to_import=safe)

"""C15 - loading a delta dump never resolves a global outside the allow-list.

proof:           coq/theories/Pickle/{Vm,PickleProofs,Bytes,BytesProofs}.v, Properties/C15.v
correspondence:  (i)  the DECISION of _RestrictedUnpickler.find_class on every
                      (module, attribute) pair of every module loaded in the
                      process (+ synthetic look-alikes), under several
                      safe_to_import arguments, against the model's membership test;
                 (ii) generated opcode programs (hand-assembled bytes, protocols
                      0-5, GLOBAL / STACK_GLOBAL / INST / OBJ / EXT forms, allowed /
                      forbidden / dotted / prefix-alike / join-alike names, nested in
                      lists, dicts, tuples, sets, reduce arguments, build states,
                      persistent ids; well-formed and mutated) run through the real
                      pickle_load and through the model VM inside Coq: outcome class,
                      failing name, resolved names in order, decoded value.
                 (iii) the same on raw BYTES: every program is handed to Coq as its byte string (Pickle/Bytes.v decodes it as
                      the C unpickler reads it, and as pickletools.genops reads it); dumps of CPython's pickler in all protocols;
                      mutated byte strings (bit flips, truncations, re-framing, spliced opcodes).
direct oracle:   independent of the model: find_class never RETURNS for a name whose
                 '{module}.{name}' is not in SAFE_TO_IMPORT | safe_to_import; a lookup of
                 such a name ends the load with ForbiddenModule; the forbidden sentinel
                 module is never touched (no attribute access, no call).
"""
import io
import os
import pickle
import pickletools
import struct
import sys
import types
from unittest import mock

from harness import core

THEOREM_FILE = "Properties/C15.v"
COQCHK = ["Properties.C15"]
RULE = ("(i) one case per (loaded module, safe_to_import configuration): all attribute names of the module plus synthetic "
        "look-alike names; (ii) one case per generated opcode program; a program is non-trivial when it performs at least "
        "one global lookup; distinct = distinct (configuration, byte string)")
TRUSTED = ["CPython's documented contract that every global named by GLOBAL / STACK_GLOBAL / INST / EXT-registry is obtained "
           "through Unpickler.find_class is modelled in Vm.v and exercised by the correspondence programs, not proved",
           "the byte layer Pickle/Bytes.v (opcode bytes, argument decoding, FRAME buffering) is a hand-written model of Modules/_pickle.c, "
           "tied to it by the byte-level correspondence (every program and >= 1100 mutated byte strings per quick run go to Coq as bytes) and "
           "cross-checked opcode by opcode against pickletools.genops; number text outside the canonical decimal forms and STRING escapes "
           "are oracles measured on the real unpickler",
           "calls are symbolic in the model: whether an allowed constructor raises is an oracle (call_ok / build_ok) that the "
           "harness measures by calling the real constructor on the same arguments",
           "source tie 'unpickler': harness/translate/unpickler.py (Python ast -> Gallina, fail closed) and the meaning Pickle/SrcPrims.v "
           "gives to the Python expression forms it accepts are trusted for the fragment SAFE_TO_IMPORT / _RestrictedUnpickler.__init__ / "
           "find_class / persistent_load / pickle_load / _RestrictedPickler.persistent_id only, in addition to - not instead of - the "
           "correspondence check"]
ASSUMPTIONS = ["the theorems quantify over every world (allow-list, sys.modules content, call/build oracles, extension registry); "
               "the guard of the _partial theorem is that copyreg's process-wide extension cache holds no forbidden global"]

# ---------------------------------------------------------------------------
# opcode tooling shared with C14: model-level ops <-> bytes <-> Coq terms
# ---------------------------------------------------------------------------

CODE = {o.name: o.code.encode("latin-1") for o in pickletools.opcodes}
NOARG = {"STOP", "POP", "POP_MARK", "DUP", "MARK", "MEMOIZE", "NONE", "NEWTRUE", "NEWFALSE", "EMPTY_LIST", "EMPTY_DICT",
         "EMPTY_TUPLE", "EMPTY_SET", "APPEND", "APPENDS", "SETITEM", "SETITEMS", "ADDITEMS", "TUPLE", "TUPLE1", "TUPLE2",
         "TUPLE3", "FROZENSET", "LIST", "DICT", "STACK_GLOBAL", "OBJ", "NEWOBJ", "NEWOBJ_EX", "REDUCE", "BUILD", "BINPERSID",
         "NEXT_BUFFER", "READONLY_BUFFER"}
INT_OPS = {"PROTO", "FRAME", "PUT", "BINPUT", "LONG_BINPUT", "GET", "BINGET", "LONG_BINGET", "INT", "BININT", "BININT1",
           "BININT2", "LONG", "LONG1", "LONG4", "EXT1", "EXT2", "EXT4"}
STR_OPS = {"UNICODE", "BINUNICODE", "SHORT_BINUNICODE", "BINUNICODE8", "PERSID", "STRING", "BINSTRING", "SHORT_BINSTRING"}
BYTES_OPS = {"BINBYTES", "SHORT_BINBYTES", "BINBYTES8", "BYTEARRAY8"}
MODELLED = NOARG | INT_OPS | STR_OPS | BYTES_OPS | {"INTB", "FLOAT", "BINFLOAT", "GLOBAL", "INST"}


def _unicode_text(s):
    s = s.replace("\\", "\\u005c").replace("\0", "\\u0000").replace("\n", "\\u000a").replace("\r", "\\u000d").replace("\x1a", "\\u001a")
    return s.encode("raw-unicode-escape")


def assemble(ops):
    """model-level ops (tuples) -> pickle bytes.  ("FRAME", None) gets the
    length of the rest of the stream."""
    out = []
    for op in ops:
        name = op[0]
        c = CODE["INT"] if name == "INTB" else CODE[name]
        if name in NOARG:
            out.append(c)
        elif name == "PROTO":
            out.append(c + bytes([op[1]]))
        elif name == "FRAME":
            out.append(("FRAME", op[1]))
        elif name in ("PUT", "GET"):
            out.append(c + str(op[1]).encode() + b"\n")
        elif name in ("BINPUT", "BINGET", "EXT1"):
            out.append(c + struct.pack("<B", op[1]))
        elif name in ("LONG_BINPUT", "LONG_BINGET"):
            out.append(c + struct.pack("<I", op[1]))
        elif name == "EXT2":
            out.append(c + struct.pack("<H", op[1]))
        elif name == "EXT4":
            out.append(c + struct.pack("<i", op[1]))
        elif name == "INT":
            out.append(c + str(op[1]).encode() + b"\n")
        elif name == "INTB":
            out.append(c + (b"01\n" if op[1] else b"00\n"))
        elif name == "BININT":
            out.append(c + struct.pack("<i", op[1]))
        elif name == "BININT1":
            out.append(c + struct.pack("<B", op[1]))
        elif name == "BININT2":
            out.append(c + struct.pack("<H", op[1]))
        elif name == "LONG":
            out.append(c + str(op[1]).encode() + b"L\n")
        elif name == "LONG1":
            b = pickle.encode_long(op[1])
            out.append(c + struct.pack("<B", len(b)) + b)
        elif name == "LONG4":
            b = pickle.encode_long(op[1])
            out.append(c + struct.pack("<i", len(b)) + b)
        elif name == "FLOAT":
            out.append(c + repr(op[1]).encode() + b"\n")
        elif name == "BINFLOAT":
            out.append(c + struct.pack(">d", op[1]))
        elif name == "UNICODE":
            out.append(c + _unicode_text(op[1]) + b"\n")
        elif name == "BINUNICODE":
            b = op[1].encode("utf-8", "surrogatepass")
            out.append(c + struct.pack("<I", len(b)) + b)
        elif name == "SHORT_BINUNICODE":
            b = op[1].encode("utf-8", "surrogatepass")
            out.append(c + struct.pack("<B", len(b)) + b)
        elif name == "BINUNICODE8":
            b = op[1].encode("utf-8", "surrogatepass")
            out.append(c + struct.pack("<Q", len(b)) + b)
        elif name == "BINBYTES":
            out.append(c + struct.pack("<I", len(op[1])) + op[1])
        elif name == "SHORT_BINBYTES":
            out.append(c + struct.pack("<B", len(op[1])) + op[1])
        elif name in ("BINBYTES8", "BYTEARRAY8"):
            out.append(c + struct.pack("<Q", len(op[1])) + bytes(op[1]))
        elif name == "STRING":
            out.append(c + repr(op[1].encode("ascii")).encode("ascii")[1:] + b"\n")
        elif name == "BINSTRING":
            out.append(c + struct.pack("<i", len(op[1])) + op[1].encode("ascii"))
        elif name == "SHORT_BINSTRING":
            out.append(c + struct.pack("<B", len(op[1])) + op[1].encode("ascii"))
        elif name in ("GLOBAL", "INST"):
            out.append(c + op[1].encode("utf-8") + b"\n" + op[2].encode("utf-8") + b"\n")
        elif name == "PERSID":
            out.append(c + op[1].encode("ascii") + b"\n")
        else:
            raise ValueError("assemble: unknown op %r" % (op,))
    # resolve frames from the back
    res = []
    tail = 0
    for piece in reversed(out):
        if isinstance(piece, tuple):
            n = tail if piece[1] is None else piece[1]
            piece = CODE["FRAME"] + struct.pack("<Q", n)
        res.append(piece)
        tail += len(piece)
    return b"".join(reversed(res))


def parse(data):
    """pickle bytes -> model-level ops via pickletools.genops; raises
    ValueError on an opcode outside the modelled subset."""
    ops = []
    for opc, arg, _pos in pickletools.genops(data):
        name = opc.name
        if name not in MODELLED:
            raise ValueError("opcode %s is outside the modelled subset" % name)
        if name in NOARG:
            ops.append((name,))
        elif name == "INT" and isinstance(arg, bool):
            ops.append(("INTB", arg))
        elif name in ("GLOBAL", "INST"):
            m, _, n = arg.partition(" ")
            ops.append((name, m, n))
        else:
            ops.append((name, arg))
    return ops


def fl_coq(f):
    t = f * 2
    if f == f and abs(t) != float("inf") and t == int(t) and abs(t) < 2 ** 53 and not (f == 0 and str(f)[0] == "-"):
        return "(FHalf %s)" % core.coq_Z(int(t))
    return "(FBits %s)" % core.coq_Z(int.from_bytes(struct.pack(">d", f), "big"))


def fl_canon(f):
    t = f * 2
    if f == f and abs(t) != float("inf") and t == int(t) and abs(t) < 2 ** 53 and not (f == 0 and str(f)[0] == "-"):
        return ["f", int(t)]
    return ["fb", int.from_bytes(struct.pack(">d", f), "big")]


def op_coq(op):
    name = op[0]
    if name in NOARG:
        return name
    if name in INT_OPS:
        return "%s %s" % (name, core.coq_Z(op[1] if op[1] is not None else 0))
    if name == "INTB":
        return "INTB %s" % core.coq_bool(op[1])
    if name in ("FLOAT", "BINFLOAT"):
        return "%s %s" % (name, fl_coq(op[1]))
    if name in STR_OPS:
        return "%s %s" % (name, core.coq_pystr(op[1]))
    if name in BYTES_OPS:
        return "%s %s" % (name, core.coq_pystr(op[1]))
    if name in ("GLOBAL", "INST"):
        return "%s %s %s" % (name, core.coq_pystr(op[1]), core.coq_pystr(op[2]))
    raise ValueError(op)


def prog_coq(ops):
    return "[" + "; ".join(op_coq(o) for o in ops) + "]"


# ---------------------------------------------------------------------------
# the byte layer (Pickle/Bytes.v): raw bytes, text-oracle tables, pickletools.genops as a second reader
# ---------------------------------------------------------------------------

import re as _re

TEXT_OPCODES = b"FILPSVgpci"
_CANON_INT = _re.compile(rb"0|-?[1-9][0-9]*|00|01")
_CANON_LONG = _re.compile(rb"(0|-?[1-9][0-9]*)L?")
_CANON_IDX = _re.compile(rb"[0-9]+")
_MAXSIZE = 2 ** 63 - 1


def coq_bytes(b):
    return "[" + ";".join(str(x) for x in b) + "]%N"


def candidate_lines(data):
    """Every line the readers can hand to a text decoder: it starts after a text opcode byte, after a newline,
    or where a frame ends (the C unpickler drops the rest of a frame and calls readline() on the file)."""
    n = len(data)
    starts = set()
    for i, b in enumerate(data):
        if b in TEXT_OPCODES or b == 10:
            starts.add(i + 1)
        elif b == 0x95 and i + 9 <= n:
            k = int.from_bytes(data[i + 1:i + 9], "little")
            if i + 9 + k <= n:
                starts.add(i + 9 + k)
    lines = set()
    for p in starts:
        j = data.find(b"\n", p)
        if j >= 0 and j - p <= 120:
            lines.add(bytes(data[p:j]))
    return lines


def _try(fn):
    try:
        return True, fn()
    except BaseException:  # noqa
        return False, None


def c_text_tables(lines):
    """What CPython's C unpickler makes of number / STRING text outside the forms Bytes.v decodes itself:
    measured by loading a one-opcode pickle.  -> dict kind -> [(line, value)]"""
    t = {"int": [], "long": [], "idx": [], "float": [], "string": []}
    for l in sorted(lines):
        if not _CANON_INT.fullmatch(l):
            ok, v = _try(lambda: pickle.loads(b"I" + l + b"\n."))
            if ok and isinstance(v, int):
                t["int"].append((l, v))
        if not _CANON_LONG.fullmatch(l):
            ok, v = _try(lambda: pickle.loads(b"L" + l + b"\n."))
            if ok and type(v) is int:
                t["long"].append((l, v))
        if not _CANON_IDX.fullmatch(l):
            # load_get / load_put: PyLong_FromString(s, NULL, 10) on the NUL-terminated line, then PyLong_AsSsize_t
            ok, v = _try(lambda: int(l.split(b"\0", 1)[0], 10))
            if ok and abs(v) <= _MAXSIZE:
                if v >= 0:     # confirm on the real unpickler: PUT v then GET v
                    ok2, r = _try(lambda: pickle.loads(b"K\x07p" + l + b"\n0g" + str(v).encode() + b"\n."))
                    if not (ok2 and r == 7):
                        continue
                t["idx"].append((l, v))
        ok, v = _try(lambda: pickle.loads(b"F" + l + b"\n."))
        if ok and isinstance(v, float):
            t["float"].append((l, v))
        if len(l) >= 2 and l[:1] == l[-1:] and l[:1] in (b"'", b'"') and (b"\\" in l or max(l) > 127):
            ok, v = _try(lambda: pickle.loads(b"S" + l + b"\n."))
            if ok and type(v) is str:
                t["string"].append((l, v))
    return t


def g_text_tables(lines):
    """The same for pickletools' readers (the genops dialect), plus escape-decoded names / persistent ids."""
    t = {"int": [], "long": [], "idx": [], "float": [], "string": [], "name": []}
    for l in sorted(lines):
        f = lambda: io.BytesIO(l + b"\n")  # noqa
        if not _CANON_INT.fullmatch(l):
            ok, v = _try(lambda: pickletools.read_decimalnl_short(f()))
            if ok:
                t["int"].append((l, v))
        if not _CANON_LONG.fullmatch(l):
            ok, v = _try(lambda: pickletools.read_decimalnl_long(f()))
            if ok:
                t["long"].append((l, int(v)))
        if not _CANON_IDX.fullmatch(l):
            ok, v = _try(lambda: pickletools.read_decimalnl_short(f()))
            if ok:
                t["idx"].append((l, int(v)))
        ok, v = _try(lambda: pickletools.read_floatnl(f()))
        if ok:
            t["float"].append((l, v))
        if len(l) >= 2 and l[:1] == l[-1:] and l[:1] in (b"'", b'"') and (b"\\" in l or max(l) > 127):
            ok, v = _try(lambda: pickletools.read_stringnl(f()))
            if ok:
                t["string"].append((l, v))
        if b"\\" in l or (l and max(l) > 127):
            ok, v = _try(lambda: pickletools.read_stringnl_noescape(f()))
            if ok:
                t["name"].append((l, v))
    return t


def _coq_table(entries, val):
    return "[" + "; ".join("(%s, %s)" % (coq_bytes(l), val(v)) for l, v in entries) + "]"


def coq_textw(t):
    return "(table_textw %s %s %s %s %s)" % (
        _coq_table(t["int"], lambda v: "IRBool %s" % core.coq_bool(v) if isinstance(v, bool) else "IRInt %s" % core.coq_Z(v)),
        _coq_table(t["long"], core.coq_Z), _coq_table(t["idx"], core.coq_Z),
        _coq_table(t["float"], fl_coq), _coq_table(t["string"], core.coq_pystr))


def coq_c_dialect(data):
    return "(c_dialect %s)" % coq_textw(c_text_tables(candidate_lines(data)))


def coq_g_dialect(data):
    t = g_text_tables(candidate_lines(data))
    return "(genops_dialect %s %s)" % (coq_textw(t), _coq_table(t["name"], core.coq_pystr))


def genops_obs(data):
    """["ok" | "raises", opcodes pickletools.genops produced] with arguments in canonical form"""
    ops = []
    try:
        for opc, arg, _pos in pickletools.genops(data):
            if arg is None:
                ops.append([opc.name])
            elif isinstance(arg, bool):
                # decimalnl_short reads "00" / "01" as False / True for GET and PUT as well: there it is the index 0 / 1
                ops.append([opc.name, arg if opc.name == "INT" else int(arg)])
            elif isinstance(arg, int):
                ops.append([opc.name, arg])
            elif isinstance(arg, float):
                ops.append([opc.name, fl_canon(arg)])
            elif isinstance(arg, str):
                ops.append([opc.name, arg])
            elif isinstance(arg, (bytes, bytearray)):
                ops.append([opc.name, bytes(arg).decode("latin-1")])
            else:
                raise TypeError("genops argument %r" % (arg,))
        return ["ok", ops]
    except Exception:  # noqa: ValueError and its relatives, OverflowError
        return ["raises", ops]


def real_obs(res, with_value):
    """[class, failing (module, name), resolved names in order, value] of a real load -> (observation, value compared?)"""
    failing = None
    if res["calls"] and not res["calls"][-1][2]:     # the exception came out of find_class
        failing = [res["calls"][-1][0], res["calls"][-1][1]]
    resolved = [[m, n] for m, n, r in res["calls"] if r]
    value, wv = None, False
    if with_value and res["cls"] == "ok":
        try:
            value = canon_real(res["result"], res["objs"])
            wv = True
        except LookupError:
            wv = False
    return [res["cls"], failing, resolved, value if wv else None], wv


def bytes_expr(data, world, obs, wv, exact, exc, noskip=None):
    """One Coq expression for a byte string: [what genops makes of it; the verdict of the machine run on the bytes as
    the C unpickler reads them, against the observation of the real load; (well-formed streams) no frame byte skipped]
    -> (expr, expected)"""
    parts = ["sx_genops %s bs" % coq_g_dialect(data),
             "sx_bytes_verdict %s %s %s (load_content %s cd bs) (%s)" % (
                 core.coq_bool(exact), core.coq_bool(wv), core.coq_string(exc or "ok"), world, core.sx(obs))]
    expected = [genops_obs(data), obs]
    if noskip is not None:
        parts.append("sx_bool (negb (snd (bdecode cd bs)))")
        expected.append(noskip)
    return "(let bs := %s in let cd := %s in SL [%s])" % (coq_bytes(data), coq_c_dialect(data), "; ".join(parts)), expected


# ---------------------------------------------------------------------------
# sentinels
# ---------------------------------------------------------------------------

BAD = "verif_sentinel_bad"      # never on any allow-list
OKM = "verif_sentinel_ok"       # allowed by some safe_to_import configurations
FLAGS = {"touched": [], "called": []}


class _BadModule(types.ModuleType):
    def __getattribute__(self, name):
        if not (name.startswith("__") and name.endswith("__")):
            FLAGS["touched"].append(name)
        return types.ModuleType.__getattribute__(self, name)


def _boom(*a, **k):
    FLAGS["called"].append("boom")
    return "boom-result"


class _BadCls:
    def __new__(cls, *a, **k):
        FLAGS["called"].append("Cls.__new__")
        return object.__new__(cls)

    def __init__(self, *a, **k):
        FLAGS["called"].append("Cls.__init__")


class Thing:
    """an allowed (in some configurations) plain class"""
    def __init__(self, *a):
        self.a = a


def make(*a):
    if a and a[0] == "raise":
        raise RuntimeError("make: asked to raise")
    return ("made",) + tuple(a)


def install_sentinels():
    bad = _BadModule(BAD)
    types.ModuleType.__setattr__(bad, "boom", _boom)
    types.ModuleType.__setattr__(bad, "Cls", _BadCls)
    types.ModuleType.__setattr__(bad, "value", 42)
    _BadCls.__module__ = BAD
    _BadCls.__qualname__ = "Cls"
    sys.modules[BAD] = bad
    ok = types.ModuleType(OKM)
    ok.Thing = Thing
    ok.make = make
    ok.const = object()
    Thing.__module__ = OKM
    Thing.__qualname__ = "Thing"
    sys.modules[OKM] = ok
    FLAGS["touched"].clear()
    FLAGS["called"].clear()


def remove_sentinels():
    sys.modules.pop(BAD, None)
    sys.modules.pop(OKM, None)


# safe_to_import configurations: (python argument, Coq safe_arg term)
def configs():
    s1 = [OKM + ".make", OKM + ".Thing"]
    s3 = [OKM + ".make", "verif_not_loaded_mod.X", OKM + ".const", OKM + ".missing", "builtins.len"]
    def it(l):
        return "(SafeIter [%s])" % "; ".join(core.coq_pystr(x) for x in l)
    return [
        ("none", None, "SafeNone"),
        ("set", set(s1), it(sorted(s1))),
        ("str", OKM + ".make", "(SafeStr %s)" % core.coq_pystr(OKM + ".make")),
        ("list", list(s3), it(s3)),
        ("frozenset", frozenset(s1), it(sorted(s1))),
        ("emptyset", set(), "(SafeIter [])"),
        ("emptystr", "", "(SafeStr [])"),
    ]


def effective_allow_py(arg):
    """The allow-list as documented: SAFE_TO_IMPORT plus what the caller passed
    (independent of the model; used by the direct oracle only)."""
    from deepdiff.serialization import SAFE_TO_IMPORT
    if not arg:
        return set(SAFE_TO_IMPORT)
    if isinstance(arg, (str, bytes)):
        return set(SAFE_TO_IMPORT) | {arg}
    return set(SAFE_TO_IMPORT) | set(arg)


# ---------------------------------------------------------------------------
# running the implementation with a spy on find_class
# ---------------------------------------------------------------------------

def real_load(data, safe=None, file_obj=None, both=False):
    """-> dict(cls, exc, calls=[(m, n, returned?)], result, objs={id: (m, n)});
    file_obj: load through pickle_load(file_obj=...) instead of pickle_load(content); both: pickle_load(data, file_obj)"""
    from deepdiff.serialization import _RestrictedUnpickler, pickle_load
    calls = []
    objs = {}
    orig = _RestrictedUnpickler.find_class

    def spy(self, m, n):
        calls.append([m, n, False])
        r = orig(self, m, n)
        calls[-1][2] = True
        objs.setdefault(id(r), []).append((m, n))
        return r
    out = {"result": None, "pids": []}
    orig_pl = _RestrictedUnpickler.persistent_load

    def spy_pl(self, pid):
        r = orig_pl(self, pid)
        out["pids"].append((pid, r))
        return r
    with mock.patch.object(_RestrictedUnpickler, "find_class", spy), \
            mock.patch.object(_RestrictedUnpickler, "persistent_load", spy_pl):
        try:
            if both:
                out["result"] = pickle_load(data, file_obj, safe_to_import=safe)
            elif file_obj is not None:
                out["result"] = pickle_load(file_obj=file_obj, safe_to_import=safe)
            else:
                out["result"] = pickle_load(data, safe_to_import=safe)
            out["cls"] = "ok"
            out["exc"] = None
        except BaseException as e:  # noqa
            out["exc"] = type(e).__name__
            out["cls"] = e.__class__.__name__ if type(e).__name__ in ("ForbiddenModule", "ModuleNotFoundError") and type(e).__module__ == "deepdiff.serialization" else "other"
    out["calls"] = calls
    out["objs"] = objs
    return out


def real_via(fn, kind):
    """like real_load, for a callable that loads through Delta(...)"""
    from deepdiff.serialization import _RestrictedUnpickler
    calls = []
    orig = _RestrictedUnpickler.find_class

    def spy(self, m, n):
        calls.append([m, n, False])
        r = orig(self, m, n)
        calls[-1][2] = True
        return r
    out = {}
    with mock.patch.object(_RestrictedUnpickler, "find_class", spy):
        try:
            fn(kind)
            out["exc"] = None
        except BaseException as e:  # noqa
            out["exc"] = type(e).__name__
    out["calls"] = calls
    return out


def canon_real(o, objs, depth=0):
    """canonical form of a real unpickled object, mirroring PickleShow.sx_obj;
    raises LookupError when the object is outside the data universe."""
    if o is None:
        return None
    if o is True or o is False:
        return ["b", o]
    if isinstance(o, int):
        return ["i", o]
    if isinstance(o, float):
        return fl_canon(o)
    if type(o) is str:
        return ["s", o]
    if type(o) is bytes:
        return ["y", o.decode("latin-1")]
    if o is type(None):
        return "NoneType"
    if id(o) in objs and not isinstance(o, (list, dict, set, tuple, frozenset)):
        names = set(objs[id(o)])
        if len(names) != 1:
            raise LookupError("ambiguous global")
        m, n = next(iter(names))
        return ["G", m, n]
    if depth > 50:
        raise LookupError("too deep")
    if type(o) is tuple:
        return ["T", [canon_real(x, objs, depth + 1) for x in o]]
    if type(o) is list:
        return ["L", [canon_real(x, objs, depth + 1) for x in o]]
    if type(o) is dict:
        return ["D", [[canon_real(k, objs, depth + 1), canon_real(v, objs, depth + 1)] for k, v in o.items()]]
    if type(o) is set:
        return ["S", core.sx_sorted([canon_real(x, objs, depth + 1) for x in o])]
    if type(o) is frozenset:
        return ["F", core.sx_sorted([canon_real(x, objs, depth + 1) for x in o])]
    raise LookupError("outside the data universe: %r" % type(o))


# ---------------------------------------------------------------------------
# world tables for the model
# ---------------------------------------------------------------------------

def splits(s):
    return [(s[:i], s[i + 1:]) for i, c in enumerate(s) if c == "."]


def kind_code(o):
    if o is None:
        return 3
    if isinstance(o, type):
        return 0
    if callable(o):
        return 1
    return 2


def lookup_tables(allow):
    """For every way an allow-list entry splits into (module, name): is the
    module loaded, does the attribute exist, what kind of object is it."""
    mods, found = set(), []
    for s in sorted(allow):
        if not isinstance(s, str):
            continue
        for m, n in splits(s):
            if m in sys.modules:
                mods.add(m)
                try:
                    o = getattr(sys.modules[m], n)
                except AttributeError:
                    continue
                found.append((m, n, kind_code(o)))
    return sorted(mods), found


def world_header(cfgs):
    from deepdiff.serialization import SAFE_TO_IMPORT
    lines = ["From DD Require Import Base.PyStr Pickle.Vm Pickle.Bytes Pickle.PickleShow Pickle.PickleProofs.", "Local Open Scope Z_scope."]
    for i, (_nm, arg, coq) in enumerate(cfgs):
        allow = effective_allow_py(arg)
        mods, found = lookup_tables(allow)
        lines.append("Definition ALLOW%d : list pystr := effective_allow %s." % (i, coq))
        lines.append("Definition MODS%d : list pystr := [%s]." % (i, "; ".join(core.coq_pystr(m) for m in mods)))
        lines.append("Definition FOUND%d : list (pystr * pystr * Z) := [%s]." % (
            i, "; ".join("(%s, %s, %d%%Z)" % (core.coq_pystr(m), core.coq_pystr(n), k) for m, n, k in found)))
    return "\n".join(lines)


# ---------------------------------------------------------------------------
# part (i): the decision on every (module, attribute) pair
# ---------------------------------------------------------------------------

LOOKALIKE = ["int", "in", "intx", "int ", " int", "Int", "INT", "", ".", "int.", ".int", "int.__add__", "datetime", "date",
             "datetime.now", "datetime.datetime", "Decimal", "Decimal.from_float", "OrderedDict", "OrderedDic",
             "OrderedDict.fromkeys", "Opcode", "Opcode._make", "Opcodes", "helper.Opcode", "sets.OrderedSet", "OrderedSet",
             "sets", "Pattern", "Pattern.x", "None", "none", "NoneType", "eval", "exec", "getattr", "__import__", "make",
             "make.x", "Thing", "boom", "Cls", "UUID", "uuid4", "namedtuple", "builtins.int", "x\nint", "int\n", "set", "se",
             "frozenset", "list", "lis", "lists", "bool", "bin", "bi", "range", "complex", "slice", "str", "bytes", "tuple",
             "float", "dict", "timedelta", "time", "tim", "SetOrdered", "SetOrdere", "StableSetEq", "OrderlySet", "\u00e9", "int\u0000"]
EXTRA_MODULES = ["", "builtin", "builtins", "builtins.", "Builtins", "builtins.int", "datetime", "datetime.datetime", "decimal",
                 "uuid", "orderly_set", "orderly_set.sets", "orderly_set.sets.OrderedSet", "deepdiff", "deepdiff.helper",
                 "deepdiff.helper.Opcode", "collections", "collection", "re", "r", "os", "subprocess", "posix", "nt",
                 BAD, OKM, "verif_not_loaded_mod", "verif_sentinel", "__main__", "copyreg", "_codecs"]


def decision_part(ctx, cfgs, max_modules=None):
    from deepdiff.serialization import _RestrictedUnpickler, ForbiddenModule
    mods = [m for m in sorted(sys.modules) if isinstance(m, str)]
    if max_modules is not None and len(mods) > max_modules:
        keep = set(ctx.rng.sample(mods, max_modules))
        keep.update(m for m in mods if m.split(".")[0] in ("builtins", "datetime", "decimal", "uuid", "orderly_set", "deepdiff",
                                                            "collections", "re", "os", "posix", "subprocess", "copyreg", BAD, OKM))
        mods = [m for m in mods if m in keep]
    names_of = {}
    for m in mods:
        try:
            ns = [n for n in dir(sys.modules[m]) if isinstance(n, str)]
        except Exception:
            ns = []
        names_of[m] = sorted(set(ns) | set(ctx.rng.sample(LOOKALIKE, 6)))
    for m in EXTRA_MODULES:
        names_of[m] = sorted(set(names_of.get(m, [])) | set(LOOKALIKE))
    cases = []
    total = 0
    for ci, (cname, arg, _coq) in enumerate(cfgs):
        u = _RestrictedUnpickler(io.BytesIO(b"N."), safe_to_import=arg)
        doc_allow = effective_allow_py(arg)
        for m, names in names_of.items():
            not_forbidden = []
            touched_before = len(FLAGS["touched"])
            for n in names:
                total += 1
                try:
                    u.find_class(m, n)
                    verdict = "resolved"
                except ForbiddenModule:
                    verdict = "forbidden"
                except BaseException as e:  # ModuleNotFoundError / AttributeError after passing the test
                    verdict = "passed:" + type(e).__name__
                member = ("%s.%s" % (m, n)) in doc_allow
                if verdict != "forbidden":
                    not_forbidden.append(n)
                # direct oracle (independent of the model)
                if verdict == "resolved" and not member:
                    ctx.fail({"kind": "decision", "config": cname, "safe_to_import": repr(arg), "module": m, "name": n,
                              "observed": verdict},
                             "find_class resolved %s.%s which is neither in SAFE_TO_IMPORT nor in safe_to_import" % (m, n))
                elif verdict != "forbidden" and not member:
                    ctx.fail({"kind": "decision", "config": cname, "safe_to_import": repr(arg), "module": m, "name": n,
                              "observed": verdict},
                             "find_class did not raise ForbiddenModule for the non-member %s.%s (%s)" % (m, n, verdict))
                elif verdict == "forbidden" and member:
                    ctx.fail({"kind": "decision", "config": cname, "safe_to_import": repr(arg), "module": m, "name": n,
                              "observed": verdict},
                             "find_class forbids %s.%s although it is on the allow-list" % (m, n))
            if m == BAD and len(FLAGS["touched"]) != touched_before:
                ctx.fail({"kind": "decision", "config": cname, "safe_to_import": repr(arg), "module": m,
                          "touched": FLAGS["touched"][touched_before:][:5]},
                         "find_class accessed attributes of a module no name of which is allowed")
            ctx.seen(("dec", cname, m), nontrivial=bool(not_forbidden))
            cases.append(("allowed_names ALLOW%d %s [%s]" % (ci, core.coq_pystr(m), "; ".join(core.coq_pystr(n) for n in names)),
                          not_forbidden, {"kind": "decision", "config": cname, "module": m, "n_names": len(names)}))
    ctx.count("decision:pairs", total)
    ctx.count("decision:modules", len(names_of))
    ctx.coq_cases("c15_decision", world_header(cfgs), cases, shard=120, label="decision(module x config)")
    return total


# ---------------------------------------------------------------------------
# part (ii): generated opcode programs
# ---------------------------------------------------------------------------

ALLOWED_G = [("builtins", "list"), ("builtins", "int"), ("builtins", "set"), ("builtins", "dict"), ("builtins", "tuple"),
             ("builtins", "str"), ("builtins", "range"), ("builtins", "bin"), ("builtins", "None"), ("builtins", "frozenset"),
             ("builtins", "complex"), ("builtins", "slice"), ("builtins", "bool"), ("builtins", "float"), ("builtins", "bytes"),
             ("collections", "OrderedDict"), ("collections", "namedtuple"), ("deepdiff.helper", "Opcode"),
             ("deepdiff.helper", "SetOrdered"), ("datetime", "timedelta"), ("datetime", "datetime"), ("datetime", "time"),
             ("decimal", "Decimal"), ("uuid", "UUID"), ("re", "Pattern"), ("orderly_set.sets", "OrderedSet"),
             ("orderly_set.sets", "StableSetEq")]
JOIN_ALIKE_G = [("orderly_set", "sets.OrderedSet"), ("deepdiff", "helper.Opcode"), ("deepdiff", "helper.SetOrdered"),
                ("orderly_set", "sets.StableSetEq")]
SOMETIMES_G = [(OKM, "make"), (OKM, "Thing"), (OKM, "const"), (OKM, "missing"), ("verif_not_loaded_mod", "X"), ("builtins", "len")]
FORBIDDEN_G = [(BAD, "boom"), (BAD, "Cls"), (BAD, "value"), (BAD, "nothing"), ("os", "getpid"), ("builtins", "id"),
               ("builtins", "getattr"), ("builtins", "eval"), ("builtins", "in"), ("builtins", "intx"), ("builtins", "int "),
               ("builtin", "sint"), ("datetime", "date"), ("datetime", "datetime.now"), ("builtins", "int.__add__"),
               ("collections", "OrderedDic"), ("collections", "OrderedDict.fromkeys"), ("deepdiff.helper", "Opcode._make"),
               ("decimal", "Decimal.from_float"), ("builtins", ""), ("", "builtins.int"), ("builtins.int", ""),
               ("re", "compile"), ("uuid", "uuid4"), ("deepdiff.helper", "np"), ("deepdiff", "helper"), ("builtins", "INT"),
               ("Builtins", "int"), ("copyreg", "_reconstructor"), ("_codecs", "encode"), ("builtins", "object"),
               ("collections", "deque"), ("orderly_set.sets", "OrderedSe"), ("orderly_set", "sets"), (BAD, "Cls.__init__")]
# persistent ids: only "<<NoneType>>" has a meaning; everything else must load as None
PID_POOL = ["<<FunctionType>>", "<<SimpleNamespace>>", "<<CodeType>>", "<<ModuleType>>", "<<MethodType>>", "<<new_class>>",
            "<<GenericAlias>>", "<<int>>", "<<eval>>", "<<object>>", "<<getattr>>", "<<boom>>", "<<Cls>>", "<<make>>", "<<Thing>>",
            "NoneType", "<NoneType>", "<<NoneType>> ", " <<NoneType>>", "<<nonetype>>", "<<NoneType", "types.FunctionType",
            "types.SimpleNamespace", "builtins.eval", "builtins.int", BAD + ".boom", "<<" + BAD + ".boom>>", "<<types.SimpleNamespace>>",
            "<<builtins.int>>", "<<>>", "", "other", "<<__class__>>", "<<__dict__>>", "<<EllipsisType>>", "<<NotImplementedType>>"]

# never used as a callee with arguments (harmless even if a mutant allowed them): only looked up
LOOKUP_ONLY = {("builtins", "eval"), ("builtins", "getattr")}


class Gen:
    """Random expression trees over pickle's object vocabulary and a tiny
    pickler with random opcode-form choices."""

    def __init__(self, rng, hostile):
        self.rng = rng
        self.hostile = hostile      # probability that a global is taken from the forbidden pool
        self.calls = True

    def atom(self):
        r = self.rng
        k = r.random()
        if k < 0.12:
            return ("none",)
        if k < 0.22:
            return ("bool", r.random() < 0.5)
        if k < 0.5:
            return ("int", r.choice([0, 1, 2, 3, 5, 255, 256, 65535, 65536, -1, -7, 2 ** 31 - 1, -2 ** 31, 2 ** 40, -2 ** 70, 10 ** 30]))
        if k < 0.6:
            return ("float", r.choice([0.5, 1.0, 1.5, -2.5, 0.0, 3.25, 1e300, 0.1]))
        if k < 0.9:
            return ("str", r.choice(["a", "b", "", "ab", "x y", "k1", "builtins", "int", "os", "<<NoneType>>", "new_value",
                                     "root['a']", "h\u00e9", "\u4e2d", "a\nb", "q\\u", "0", BAD, "boom"]))
        return ("bytes", r.choice([b"", b"a", b"ab\x00\xff", b"<<NoneType>>"]))

    def glob(self):
        r = self.rng
        k = r.random()
        if k < self.hostile:
            return ("global",) + r.choice(FORBIDDEN_G)
        if k < self.hostile + 0.08:
            return ("global",) + r.choice(JOIN_ALIKE_G)
        if k < self.hostile + 0.2:
            return ("global",) + r.choice(SOMETIMES_G)
        return ("global",) + r.choice(ALLOWED_G)

    def persid(self):
        r = self.rng
        k = r.random()
        if k < 0.25:
            return ("persid", ("str", "<<NoneType>>"))
        if k < 0.85:
            return ("persid", ("str", r.choice(PID_POOL)))
        return ("persid", r.choice([("int", 1), ("bytes", b"<<NoneType>>"), ("none",), self.hashable_node(1)]))

    def hashable_node(self, depth):
        r = self.rng
        k = r.random()
        if k < 0.6 or depth <= 0:
            a = self.atom()
            return a
        if k < 0.75:
            return self.glob()
        if k < 0.9:
            return ("tuple", [self.hashable_node(depth - 1) for _ in range(r.randint(0, 3))])
        return ("frozenset", [self.hashable_node(depth - 1) for _ in range(r.randint(0, 3))])

    def args_for(self, g):
        """argument tuples that make sense (or deliberately do not) for a callee"""
        r = self.rng
        m, n = g[1], g[2]
        table = {
            ("builtins", "list"): [[], [("tuple", [("int", 1), ("int", 2)])], [("int", 1)]],
            ("builtins", "tuple"): [[], [("list", [("int", 1)])]],
            ("builtins", "set"): [[], [("list", [("int", 1), ("int", 2)])], [("list", [("list", [])])]],
            ("builtins", "frozenset"): [[], [("list", [("int", 1)])]],
            ("builtins", "dict"): [[], [("list", [("tuple", [("str", "a"), ("int", 1)])])], [("int", 3)]],
            ("builtins", "int"): [[], [("int", 5)], [("str", "12")], [("str", "x")]],
            ("builtins", "str"): [[], [("int", 5)], [("bytes", b"a"), ("str", "ascii")]],
            ("builtins", "range"): [[("int", 1), ("int", 5)], []],
            ("builtins", "bin"): [[("int", 5)], []],
            ("builtins", "complex"): [[("int", 1), ("int", 2)], []],
            ("builtins", "slice"): [[("int", 1), ("int", 2)], []],
            ("builtins", "bool"): [[], [("int", 0)]],
            ("builtins", "float"): [[], [("str", "1.5")], [("str", "zz")]],
            ("builtins", "bytes"): [[], [("int", 2)]],
            ("collections", "OrderedDict"): [[], [("list", [])]],
            ("collections", "namedtuple"): [[("str", "P"), ("str", "x y")], []],
            ("deepdiff.helper", "Opcode"): [[("str", "insert"), ("int", 0), ("int", 0), ("int", 0), ("int", 1), ("none",), ("list", [("int", 1)])],
                                            [("str", "equal"), ("int", 0)], [("str", "delete"), ("int", 0), ("int", 1), ("int", 0), ("int", 0)]],
            ("deepdiff.helper", "SetOrdered"): [[], [("list", [("int", 1), ("int", 2)])]],
            ("datetime", "timedelta"): [[("int", 1)], [("int", 1), ("int", 2), ("int", 3)], [("str", "x")]],
            ("datetime", "datetime"): [[("int", 2020), ("int", 1), ("int", 2)], [("bytes", b"\x07\xe4\x01\x02\x03\x04\x05\x00\x00\x00")], []],
            ("datetime", "time"): [[], [("int", 1), ("int", 2)]],
            ("decimal", "Decimal"): [[("str", "1.5")], [("str", "zz")], []],
            ("uuid", "UUID"): [[("str", "12345678123456781234567812345678")], []],
            ("re", "Pattern"): [[]],
            ("orderly_set.sets", "OrderedSet"): [[], [("list", [("int", 1)])]],
            ("orderly_set.sets", "StableSetEq"): [[], [("list", [("int", 1)])]],
            (OKM, "make"): [[], [("int", 1)], [("str", "raise")]],
            (OKM, "Thing"): [[], [("int", 1), ("str", "a")]],
        }
        opts = table.get((m, n))
        if opts is None:
            return [self.atom() for _ in range(r.randint(0, 2))]
        return list(r.choice(opts))

    def node(self, depth):
        r = self.rng
        if depth <= 0:
            return self.atom() if r.random() < 0.8 else self.glob()
        k = r.random()
        if k < 0.2:
            return self.atom()
        if k < 0.32:
            return self.glob()
        if k < 0.42:
            return ("tuple", [self.node(depth - 1) for _ in range(r.randint(0, 4))])
        if k < 0.54:
            return ("list", [self.node(depth - 1) for _ in range(r.randint(0, 4))])
        if k < 0.66:
            return ("dict", [(self.hashable_node(1), self.node(depth - 1)) for _ in range(r.randint(0, 3))])
        if k < 0.71:
            return ("set", [self.hashable_node(1) for _ in range(r.randint(0, 3))])
        if k < 0.75:
            return ("frozenset", [self.hashable_node(1) for _ in range(r.randint(0, 3))])
        if k < 0.79:
            return self.persid()
        if not self.calls:
            return self.atom()
        g = self.glob()
        if (g[1], g[2]) in LOOKUP_ONLY:
            return g
        args = self.args_for(g)
        if r.random() < 0.25:   # bury something (possibly hostile) in the arguments
            args = args + [self.node(depth - 1)]
        form = r.random()
        if r.random() < 0.12:   # a persistent id in the position of a class / callable
            pn = self.persid()
            k2 = r.random()
            if k2 < 0.5:
                return ("reduce", pn, ("tuple", r.choice([[], [("int", 1)]])))
            if k2 < 0.75:
                return ("obj", pn, r.choice([[], [("str", "a")]]))
            return ("newobj", pn, ("tuple", []))
        if form < 0.35:
            callee = g if r.random() < 0.9 else self.node(depth - 1)
            argn = ("tuple", args) if r.random() < 0.93 else ("list", args)
            n = ("reduce", callee, argn)
        elif form < 0.55:
            n = ("newobj", g, ("tuple", args))
        elif form < 0.62:
            n = ("newobj_ex", g, ("tuple", args), ("dict", []))
        elif form < 0.8:
            n = ("inst", g[1], g[2], args)
        else:
            n = ("obj", g, args)
        if r.random() < 0.3:
            st = r.choice([("none",), ("dict", [(("str", "a"), self.node(depth - 1))]), ("list", [("int", 1), ("int", 2)]),
                           ("tuple", [("none",), ("dict", [(("str", "s"), ("int", 1))])]), self.node(depth - 1)])
            n = ("build", n, st)
        return n


class Emitter:
    def __init__(self, rng, proto):
        self.rng = rng
        self.p = proto
        self.ops = []
        self.memo_n = 0           # number of memo entries (MEMOIZE index)
        self.memoed = []          # (memo index, node) for immutable nodes that may be fetched again
        self.strict = rng.random() < 0.7   # keep to the opcode vocabulary of the protocol

    def P(self, minp):
        return self.p >= minp or not self.strict

    def maybe_memo(self, node):
        r = self.rng
        if r.random() < 0.35:
            k = r.random()
            if self.P(4) and k < 0.6:
                self.ops.append(("MEMOIZE",))
                idx = self.memo_n
            else:
                idx = self.memo_n + r.choice([0, 0, 3, 300])
                if self.P(1) and idx < 256 and k < 0.9:
                    self.ops.append(("BINPUT", idx))
                elif self.P(1) and r.random() < 0.5:
                    self.ops.append(("LONG_BINPUT", idx))
                else:
                    self.ops.append(("PUT", idx))
            self.memo_n += 1
            if node[0] in ("none", "bool", "int", "float", "str", "bytes", "global"):
                self.memoed.append((idx, node))

    def try_get(self, node):
        r = self.rng
        for idx, n in self.memoed:
            if n == node and r.random() < 0.5:
                if self.P(1) and idx < 256:
                    self.ops.append(("BINGET", idx))
                elif self.P(1) and r.random() < 0.5:
                    self.ops.append(("LONG_BINGET", idx))
                else:
                    self.ops.append(("GET", idx))
                return True
        return False

    def emit_str(self, s):
        r = self.rng
        b = s.encode("utf-8", "surrogatepass")
        if self.P(4) and len(b) < 256 and r.random() < 0.7:
            self.ops.append(("SHORT_BINUNICODE", s))
        elif self.P(1) and r.random() < 0.85:
            self.ops.append(("BINUNICODE", s))
        elif self.P(4) and r.random() < 0.3:
            self.ops.append(("BINUNICODE8", s))
        else:
            self.ops.append(("UNICODE", s))

    def emit_int(self, z):
        r = self.rng
        if self.P(1) and r.random() < 0.9:
            if 0 <= z < 256 and r.random() < 0.8:
                self.ops.append(("BININT1", z))
            elif 0 <= z < 65536 and r.random() < 0.8:
                self.ops.append(("BININT2", z))
            elif -2 ** 31 <= z < 2 ** 31 and r.random() < 0.8:
                self.ops.append(("BININT", z))
            elif self.P(2):
                self.ops.append(("LONG1", z) if r.random() < 0.8 else ("LONG4", z))
            else:
                self.ops.append(("LONG", z))
        else:
            self.ops.append(("INT", z) if r.random() < 0.6 else ("LONG", z))

    def emit_global(self, m, n):
        r = self.rng
        textual = "\n" not in m and "\n" not in n
        if textual and (not self.P(4) or r.random() < 0.5):
            self.ops.append(("GLOBAL", m, n))
        else:
            self.emit_str(m)
            self.maybe_memo(("str", m))
            self.emit_str(n)
            self.maybe_memo(("str", n))
            self.ops.append(("STACK_GLOBAL",))

    def items(self, nodes, single, batch):
        """emit container items either one by one or in MARK ... batches"""
        r = self.rng
        i = 0
        while i < len(nodes):
            if r.random() < 0.4:
                self.emit_item(nodes[i])
                self.ops.append((single,))
                i += 1
            else:
                k = r.randint(1, len(nodes) - i)
                self.ops.append(("MARK",))
                for x in nodes[i:i + k]:
                    self.emit_item(x)
                self.ops.append((batch,))
                i += k
        if not nodes and r.random() < 0.2:
            self.ops.append(("MARK",))
            self.ops.append((batch,))

    def emit_pair(self, pr):
        self.emit(pr[1])
        self.emit(pr[2])

    def emit_item(self, x):
        if x[0] == "pair":
            self.emit_pair(x)
        else:
            self.emit(x)

    def emit(self, node):
        r = self.rng
        t = node[0]
        if t in ("none", "bool", "int", "float", "str", "bytes", "global") and self.try_get(node):
            return
        if t == "none":
            self.ops.append(("NONE",))
        elif t == "bool":
            if self.P(2) and r.random() < 0.8:
                self.ops.append(("NEWTRUE",) if node[1] else ("NEWFALSE",))
            else:
                self.ops.append(("INTB", node[1]))
        elif t == "int":
            self.emit_int(node[1])
        elif t == "float":
            self.ops.append(("BINFLOAT", node[1]) if self.P(1) and r.random() < 0.8 else ("FLOAT", node[1]))
        elif t == "str":
            self.emit_str(node[1])
        elif t == "bytes":
            b = node[1]
            if len(b) < 256 and r.random() < 0.7:
                self.ops.append(("SHORT_BINBYTES", b))
            elif r.random() < 0.8:
                self.ops.append(("BINBYTES", b))
            else:
                self.ops.append(("BINBYTES8", b))
        elif t == "global":
            self.emit_global(node[1], node[2])
        elif t == "tuple":
            xs = node[1]
            if not xs and self.P(1) and r.random() < 0.8:
                self.ops.append(("EMPTY_TUPLE",))
            elif 1 <= len(xs) <= 3 and self.P(2) and r.random() < 0.8:
                for x in xs:
                    self.emit(x)
                self.ops.append(("TUPLE%d" % len(xs),))
            else:
                self.ops.append(("MARK",))
                for x in xs:
                    self.emit(x)
                self.ops.append(("TUPLE",))
        elif t == "list":
            xs = node[1]
            if not self.P(1) or r.random() < 0.15:
                k = r.randint(0, len(xs))
                self.ops.append(("MARK",))
                for x in xs[:k]:
                    self.emit(x)
                self.ops.append(("LIST",))
                self.maybe_memo(("list*",))
                self.items(xs[k:], "APPEND", "APPENDS")
            else:
                self.ops.append(("EMPTY_LIST",))
                self.maybe_memo(("list*",))
                self.items(xs, "APPEND", "APPENDS")
            return
        elif t == "dict":
            prs = [("pair", k, v) for k, v in node[1]]
            if not self.P(1) or r.random() < 0.15:
                k = r.randint(0, len(prs))
                self.ops.append(("MARK",))
                for x in prs[:k]:
                    self.emit_pair(x)
                self.ops.append(("DICT",))
                self.maybe_memo(("dict*",))
                self.items(prs[k:], "SETITEM", "SETITEMS")
            else:
                self.ops.append(("EMPTY_DICT",))
                self.maybe_memo(("dict*",))
                self.items(prs, "SETITEM", "SETITEMS")
            return
        elif t == "set":
            self.ops.append(("EMPTY_SET",))
            self.maybe_memo(("set*",))
            xs = node[1]
            i = 0
            while i < len(xs):
                k = r.randint(1, len(xs) - i)
                self.ops.append(("MARK",))
                for x in xs[i:i + k]:
                    self.emit(x)
                self.ops.append(("ADDITEMS",))
                i += k
            return
        elif t == "frozenset":
            self.ops.append(("MARK",))
            for x in node[1]:
                self.emit(x)
            self.ops.append(("FROZENSET",))
        elif t == "persid":
            pid = node[1]
            if pid[0] == "str" and pid[1].isascii() and "\n" not in pid[1] and r.random() < 0.4:
                self.ops.append(("PERSID", pid[1]))
            else:
                self.emit(pid)
                self.ops.append(("BINPERSID",))
        elif t == "reduce":
            self.emit(node[1])
            self.emit(node[2])
            self.ops.append(("REDUCE",))
        elif t == "newobj":
            self.emit(node[1])
            self.emit(node[2])
            self.ops.append(("NEWOBJ",))
        elif t == "newobj_ex":
            self.emit(node[1])
            self.emit(node[2])
            self.emit(node[3])
            self.ops.append(("NEWOBJ_EX",))
        elif t == "inst":
            self.ops.append(("MARK",))
            for x in node[3]:
                self.emit(x)
            self.ops.append(("INST", node[1], node[2]))
        elif t == "obj":
            self.ops.append(("MARK",))
            self.emit(node[1])
            for x in node[2]:
                self.emit(x)
            self.ops.append(("OBJ",))
        elif t == "build":
            self.emit(node[1])
            self.emit(node[2])
            self.ops.append(("BUILD",))
            return
        else:
            raise ValueError(node)
        self.maybe_memo(node)

    def program(self, node):
        r = self.rng
        if self.p >= 2 or r.random() < 0.2:
            self.ops.append(("PROTO", self.p))
        if self.p >= 4 and r.random() < 0.8:
            self.ops.append(("FRAME", None))
        self.emit(node)
        self.ops.append(("STOP",))
        return self.ops


# --- oracle evaluation of an expression tree (call_ok / build_ok tables) ------

class _Stop(Exception):
    pass


class _Inst:
    """symbolic mirror of the model's OInst"""
    def __init__(self, kind, callee, args):
        self.kind, self.callee, self.args, self.states = kind, callee, args, []


def py_build(inst, state):
    """CPython's load_build"""
    setstate = getattr(inst, "__setstate__", None)
    if setstate is not None:
        setstate(state)
        return
    slotstate = None
    if isinstance(state, tuple) and len(state) == 2:
        state, slotstate = state
    if state is not None:
        if not isinstance(state, dict):
            raise pickle.UnpicklingError("state is not a dictionary")
        d = inst.__dict__
        for k, v in state.items():
            d[k] = v
    if slotstate is not None:
        if not isinstance(slotstate, dict):
            raise pickle.UnpicklingError("slot state is not a dictionary")
        for k, v in slotstate.items():
            setattr(inst, k, v)


def py_instantiate(cls, args):
    if not args and isinstance(cls, type) and not hasattr(cls, "__getinitargs__"):
        return cls.__new__(cls)
    return cls(*args)


class Oracle:
    """Walks the tree in emission order with real objects (for the call
    outcomes) and symbolic canonical forms (the keys the model will ask
    for).  Stops at the first point where the real load would stop."""

    def __init__(self, allow):
        self.allow = allow
        self.call_fail = []
        self.build_fail = []

    def glob(self, m, n):
        if "%s.%s" % (m, n) not in self.allow:
            raise _Stop()
        if m not in sys.modules:
            raise _Stop()
        try:
            o = getattr(sys.modules[m], n)
        except AttributeError:
            raise _Stop()
        return o, (None if o is None else ["G", m, n])

    def ev(self, node):
        """-> (real object, canonical symbolic form)"""
        t = node[0]
        if t == "none":
            return None, None
        if t == "bool":
            return node[1], ["b", node[1]]
        if t == "int":
            return node[1], ["i", node[1]]
        if t == "float":
            return node[1], fl_canon(node[1])
        if t == "str":
            return node[1], ["s", node[1]]
        if t == "bytes":
            return node[1], ["y", node[1].decode("latin-1")]
        if t == "global":
            return self.glob(node[1], node[2])
        if t == "tuple":
            xs = [self.ev(x) for x in node[1]]
            return tuple(x[0] for x in xs), ["T", [x[1] for x in xs]]
        if t == "list":
            xs = [self.ev(x) for x in node[1]]
            return [x[0] for x in xs], ["L", [x[1] for x in xs]]
        if t == "dict":
            real, sym = {}, []
            for k, v in node[1]:
                rk, sk = self.ev(k)
                rv, sv = self.ev(v)
                try:
                    hash(rk)
                except TypeError:
                    raise _Stop()
                for e in sym:
                    if e[2] == rk:
                        e[1] = sv
                        break
                else:
                    sym.append([sk, sv, rk])
                real[rk] = rv
            return real, ["D", [[e[0], e[1]] for e in sym]]
        if t in ("set", "frozenset"):
            real, sym = [], []
            for x in node[1]:
                rx, sx_ = self.ev(x)
                try:
                    hash(rx)
                except TypeError:
                    raise _Stop()
                if not any(rx == q for q in real):
                    real.append(rx)
                    sym.append(sx_)
            sym = core.sx_sorted(sym)
            return (set(real), ["S", sym]) if t == "set" else (frozenset(real), ["F", sym])
        if t == "persid":
            rp, _sp = self.ev(node[1])
            return (type(None), "NoneType") if (type(rp) is str and rp == "<<NoneType>>") else (None, None)
        if t in ("reduce", "newobj", "newobj_ex", "inst", "obj"):
            if t == "inst":
                args = [self.ev(x) for x in node[3]]
                rc, sc = self.glob(node[1], node[2])
                rargs, sargs = tuple(a[0] for a in args), ["T", [a[1] for a in args]]
                kind = "inst"
            elif t == "obj":
                rc, sc = self.ev(node[1])
                args = [self.ev(x) for x in node[2]]
                rargs, sargs = tuple(a[0] for a in args), ["T", [a[1] for a in args]]
                kind = "obj"
            elif t == "newobj_ex":
                rc, sc = self.ev(node[1])
                ra, sa = self.ev(node[2])
                rk, sk = self.ev(node[3])
                if not isinstance(rc, type) or not isinstance(ra, tuple) or not isinstance(rk, dict):
                    raise _Stop()
                rargs, sargs = (ra, rk), ["T", [sa, sk]]
                kind = "newobj_ex"
            else:
                rc, sc = self.ev(node[1])
                rargs, sargs = self.ev(node[2])
                if not isinstance(rargs, tuple):
                    raise _Stop()
                if t == "newobj" and not isinstance(rc, type):
                    raise _Stop()
                kind = t
            try:
                if kind == "reduce":
                    res = rc(*rargs)
                elif kind == "newobj":
                    res = rc.__new__(rc, *rargs)
                elif kind == "newobj_ex":
                    res = rc.__new__(rc, *rargs[0], **rargs[1])
                else:
                    res = py_instantiate(rc, rargs)
            except Exception:
                self.call_fail.append([kind, sc, sargs])
                raise _Stop()
            return res, ["inst", kind, sc, sargs, []]
        if t == "build":
            ri, si = self.ev(node[1])
            rs, ss = self.ev(node[2])
            try:
                py_build(ri, rs)
            except Exception:
                self.build_fail.append([si, ss])
                raise _Stop()
            if isinstance(si, list) and si and si[0] == "inst":
                si = si[:4] + [si[4] + [ss]]
            return ri, si
        raise ValueError(node)


def has_calls(node):
    if not isinstance(node, tuple):
        return False
    if node[0] in ("reduce", "newobj", "newobj_ex", "inst", "obj", "build"):
        return True
    for x in node[1:]:
        if isinstance(x, tuple) and has_calls(x):
            return True
        if isinstance(x, list):
            for y in x:
                if isinstance(y, tuple) and (has_calls(y) or any(isinstance(z, tuple) and has_calls(z) for z in y)):
                    return True
    return False


INSERTABLE = [("MARK",), ("POP",), ("POP_MARK",), ("DUP",), ("TUPLE",), ("TUPLE1",), ("TUPLE2",), ("TUPLE3",), ("APPEND",),
              ("APPENDS",), ("SETITEM",), ("SETITEMS",), ("ADDITEMS",), ("LIST",), ("DICT",), ("FROZENSET",), ("EMPTY_LIST",),
              ("EMPTY_DICT",), ("EMPTY_SET",), ("EMPTY_TUPLE",), ("NONE",), ("BINGET", 0), ("BINGET", 1), ("BINGET", 7),
              ("MEMOIZE",), ("BINPUT", 1), ("STOP",), ("STACK_GLOBAL",), ("BINPERSID",), ("PROTO", 6), ("PROTO", 2),
              ("BININT1", 0), ("BININT1", 1), ("SHORT_BINUNICODE", "builtins"), ("SHORT_BINUNICODE", "int"),
              ("SHORT_BINUNICODE", "os"), ("SHORT_BINUNICODE", "getpid"), ("SHORT_BINUNICODE", BAD), ("SHORT_BINUNICODE", "boom"),
              ("PUT", -1), ("GET", 0), ("EXT1", 0), ("EXT1", 77), ("NEWTRUE",), ("BINFLOAT", 1.0)]


def mutate_ops(rng, ops):
    ops = list(ops)
    for _ in range(rng.randint(1, 3)):
        k = rng.random()
        if k < 0.3 and len(ops) > 1:
            del ops[rng.randrange(len(ops))]
        elif k < 0.5 and len(ops) > 1:
            i = rng.randrange(len(ops) - 1)
            ops[i], ops[i + 1] = ops[i + 1], ops[i]
        elif k < 0.6 and ops:
            i = rng.randrange(len(ops))
            ops.insert(i, ops[i])
        else:
            ops.insert(rng.randint(0, len(ops)), rng.choice(INSERTABLE))
    # a FRAME whose length we cannot honour any more is dropped (framing is outside the model)
    return [o for o in ops if o[0] != "FRAME"]


def coq_sx_lit(x):
    return "(" + core.sx(x) + ")"


def coq_world(ci, call_fail=(), build_fail=(), ext=None):
    cache, registry = ext or ([], [])
    return "(table_world ALLOW%d MODS%d FOUND%d [%s] [%s] [%s] [%s])" % (
        ci, ci, ci, "; ".join(coq_sx_lit(x) for x in call_fail), "; ".join(coq_sx_lit(x) for x in build_fail),
        "; ".join("(%s, OGlobal %s %s %s)" % (core.coq_Z(c), core.coq_pystr(m), core.coq_pystr(n), k) for c, m, n, k in cache),
        "; ".join("(%s, (%s, %s))" % (core.coq_Z(c), core.coq_pystr(m), core.coq_pystr(n)) for c, m, n in registry))


def direct_oracle(ctx, case, res, doc_allow, ext=None):
    """The property on one real load (independent of the model): find_class never returns for a non-member, the
    lookup of a non-member ends the load with ForbiddenModule and is the last lookup, the forbidden sentinel module
    is untouched, persistent ids produce nothing but NoneType / None."""
    for m, n, returned in res["calls"]:
        member = ("%s.%s" % (m, n)) in doc_allow
        if returned and not member:
            ctx.fail(dict(case, resolved=[m, n]), "pickle_load resolved the global %s.%s which is not on the allow-list" % (m, n))
        if not member and res["exc"] != "ForbiddenModule":
            ctx.fail(dict(case, looked_up=[m, n], outcome=res["exc"] or "ok"),
                     "a lookup of the forbidden global %s.%s did not end the load with ForbiddenModule" % (m, n))
    nm = [(m, n) for m, n, _r in res["calls"] if ("%s.%s" % (m, n)) not in doc_allow]
    if nm and (res["calls"][-1][0], res["calls"][-1][1]) != nm[0]:
        ctx.fail(dict(case, looked_up=list(nm[0])), "the load went on after the lookup of a forbidden global")
    if FLAGS["touched"] or FLAGS["called"]:
        ctx.fail(dict(case, touched=FLAGS["touched"][:5], called=FLAGS["called"][:5], ext=bool(ext)),
                 "a module none of whose names is allowed was touched while loading (attribute access: %r, calls: %r)" % (
                     FLAGS["touched"][:3], FLAGS["called"][:3]))
    # a persistent id is not a second way to name a global: only "<<NoneType>>" means anything
    for pid, got in res["pids"]:
        ctx.count("prog:persistent-id")
        want_nonetype = type(pid) is str and pid == "<<NoneType>>"
        if (want_nonetype and got is not type(None)) or (not want_nonetype and got is not None):
            ctx.fail(dict(case, persistent_id=repr(pid), produced=repr(got)),
                     "persistent_load(%r) produced %r: a persistent id resolved an object outside the allow-list mechanism" % (pid, got))


def program_case(ctx, ci, cfg, ops, call_fail, build_fail, with_value, tag, ext=None):
    """Run one program on the implementation (direct oracle) and build the
    correspondence case.  ext = (cache, registry) describing copyreg state."""
    cname, arg, _coq = cfg
    try:
        data = assemble(ops)
    except (struct.error, UnicodeEncodeError, OverflowError, ValueError):
        return None
    FLAGS["touched"].clear()
    FLAGS["called"].clear()
    res = real_load(data, arg)
    doc_allow = effective_allow_py(arg)
    case = dict(tag, config=cname, safe_to_import=repr(arg), bytes_hex=data.hex(), ops=[list(o) if not isinstance(o[-1], bytes) else [o[0], o[1].hex()] for o in ops])
    looked = bool(res["calls"])
    ctx.seen((cname, data), nontrivial=looked)
    direct_oracle(ctx, case, res, doc_allow, ext)
    # the same bytes through the public entry points Delta(bytes) / delta_path / delta_file
    if tag.get("via_delta"):
        from deepdiff import Delta
        import logging
        logging.disable(logging.CRITICAL)
        fn = os.path.join(ctx.scratch, "c15_payload.bin")
        with open(fn, "wb") as f:
            f.write(data)

        def via(kind):
            if kind == "bytes":
                return Delta(data, safe_to_import=arg)
            if kind == "path":
                return Delta(delta_path=fn, safe_to_import=arg)
            with open(fn, "rb") as f:
                return Delta(delta_file=f, safe_to_import=arg)
        for kind in ("bytes", "path", "file"):
            if kind == "bytes" and not data:
                continue
            FLAGS["touched"].clear()
            FLAGS["called"].clear()
            r2 = real_via(via, kind)
            ctx.count("prog:via-Delta-" + kind)
            if [c[:2] for c in r2["calls"]] != [c[:2] for c in res["calls"]] or \
                    (res["cls"] != "ok" and r2["exc"] != res["exc"]) or \
                    (res["cls"] == "ok" and r2["exc"] in ("ForbiddenModule", "ModuleNotFoundError")) or \
                    [c[2] for c in r2["calls"]] != [c[2] for c in res["calls"]]:
                ctx.fail(dict(case, entry=kind, pickle_load=[res["exc"], res["calls"]], delta=[r2["exc"], r2["calls"]]),
                         "Delta(%s) does not go through the same restricted load as pickle_load" % kind)
            if FLAGS["touched"] or FLAGS["called"]:
                ctx.fail(dict(case, entry=kind, touched=FLAGS["touched"][:5], called=FLAGS["called"][:5], ext=bool(ext)),
                         "Delta(%s) touched a module none of whose names is allowed" % kind)
    # ---- correspondence case: the BYTES go to the model (decoded by Pickle/Bytes.v as the C unpickler reads
    # them, then run on the machine); the same bytes decoded as pickletools.genops reads them -----------------
    obs, wv = real_obs(res, with_value)
    w = coq_world(ci, call_fail, build_fail, ext)
    expr, expected = bytes_expr(data, w, obs, wv, True, res["exc"], noskip=True)
    ctx.count("prog:outcome:" + res["cls"])
    ctx.count("bytes:genops:" + expected[0][0])
    return (expr, expected, case)


PROGRAM_BYTES = []


def programs_part(ctx, cfgs, n_programs):
    rng = ctx.rng
    cases = []
    for i in range(n_programs):
        ci = rng.randrange(len(cfgs))
        cfg = cfgs[ci]
        hostile = rng.choice([0.0, 0.15, 0.4])
        g = Gen(rng, hostile)
        mutated = rng.random() < 0.35
        g.calls = not mutated
        node = g.node(rng.choice([1, 2, 3, 4]))
        proto = rng.randrange(6)
        ops = Emitter(rng, proto).program(node)
        if len(ops) > 400:
            continue
        call_fail, build_fail = [], []
        if not mutated:
            orc = Oracle(effective_allow_py(cfg[1]))
            try:
                orc.ev(node)
            except _Stop:
                pass
            except RecursionError:
                continue
            call_fail, build_fail = orc.call_fail, orc.build_fail
        else:
            ops = mutate_ops(rng, ops)
        with_value = not has_calls(node)
        tag = {"kind": "program", "proto": proto, "mutated": mutated, "hostile": hostile, "via_delta": i % 6 == 0}
        c = program_case(ctx, ci, cfg, ops, call_fail, build_fail, with_value, tag)
        if c is None:
            continue
        if not mutated and len(PROGRAM_BYTES) < 400:
            PROGRAM_BYTES.append(bytes.fromhex(c[2]["bytes_hex"]))
        ctx.count("prog:proto%d" % proto)
        ctx.count("prog:mutated" if mutated else "prog:wellformed")
        ctx.count("prog:with_calls" if not with_value else "prog:data_and_globals")
        for o in ops:
            if o[0] in ("GLOBAL", "STACK_GLOBAL", "INST", "OBJ", "NEWOBJ", "NEWOBJ_EX", "REDUCE", "BUILD", "BINPERSID", "PERSID"):
                ctx.count("prog:op:" + o[0])
        if i < 3:
            ctx.sample({"config": cfg[0], "proto": proto, "ops": [list(map(repr, o)) for o in ops][:40], "expected": c[1]})
        cases.append(c)
    ctx.coq_cases("c15_programs", world_header(cfgs), cases, shard=150, label="programs")


# ---------------------------------------------------------------------------
# mutated BYTES: bit flips, truncations, deletions, spliced opcodes, on hand-assembled programs and on what
# CPython's pickler / Delta.dumps() write
# ---------------------------------------------------------------------------

def _le(n, k):
    return int(n).to_bytes(k, "little")


SPLICE = [b"c" + BAD.encode() + b"\nboom\n", b"cbuiltins\nint\n", b"cos\nsystem\n", b"\x8c\x02os", b"\x8c\x06system", b"\x8c\x08builtins",
          b"\x8c\x03int", b"\x93", b"R", b")", b"(", b"t", b"\x85", b"\x81", b"\x92", b"b", b"o", b"i" + BAD.encode() + b"\nCls\n",
          b"ibuiltins\nlist\n", b"\x95" + _le(0, 8), b"\x95" + _le(3, 8), b"\x95" + _le(40, 8), b"\x95" + _le(2 ** 63, 8),
          b"I01\n", b"I00\n", b"I7\n", b"I0x10\n", b"I 1\n", b"I-0\n", b"I017\n", b"L5L\n", b"L-12\n", b"L0x1fL\n", b"F1.5\n", b"Finf\n",
          b"F 1\n", b"F1e400\n", b"g0\n", b"g 1\n", b"p1\n", b"p007\n", b"p-1\n", b"S'a'\n", b"S\"os\"\n", b"S'a\\x41'\n", b"Sab\n",
          b"T\x02\x00\x00\x00os", b"T\xff\xff\xff\xffa", b"U\x02os", b"U\x01\xe9", b"Vos\n", b"V\\u0041b\n", b"V\\u00\n", b"X\x02\x00\x00\x00os",
          b"\x8d" + _le(2, 8) + b"os", b"\x8d" + _le(2 ** 63, 8), b"B\x01\x00\x00\x00a", b"C\x02ab", b"\x8e" + _le(1, 8) + b"a",
          b"\x96" + _le(2, 8) + b"ab", b"\x96" + _le(2 ** 40, 8), b"\x97", b"\x98", b"P<<NoneType>>\n", b"Pos.system\n", b"P\xe9\n", b"Q",
          b"\x82\x00", b"\x82\x05", b"\x83\x01\x00", b"\x84\xff\xff\xff\xff", b"\x8a\x02\x00\x01", b"\x8b\x01\x00\x00\x00\x7f",
          b"\x8b\xff\xff\xff\xff", b"\x80\x05", b"\x80\x06", b"\x94", b"h\x00", b"h\x01", b"q\x00", b"j\x00\x00\x00\x00", b"r\x01\x00\x00\x00",
          b"0", b"1", b"2", b".", b"N", b"\x88", b"\x89", b"]", b"}", b"\x8f", b"a", b"e", b"s", b"u", b"\x90", b"\x91", b"l", b"d",
          b"\x86", b"\x87", b"J\xff\xff\xff\x7f", b"K\x01", b"M\x01\x02", b"G\x3f\xf8\x00\x00\x00\x00\x00\x00", b"\xff", b"\x00", b"\n",
          # text lines with bytes >= 128: INST is ASCII-strict (load_inst), GLOBAL is UTF-8 (load_global)
          b"i\xe4\xb8\xad\nCls\n", b"ibuiltins\nl\xc3\xa9st\n", b"i" + BAD.encode() + b"\nb\xe9\n", b"c\xe4\xb8\xad\nCls\n",
          b"cbuiltins\nl\xc3\xa9st\n", b"c" + BAD.encode() + b"\nb\xe9\n", b"\xe4\xb8\xad", b"\xc3\xa9"]


def mutate_bytes(rng, data, others):
    b = bytearray(data)
    for _ in range(rng.choice([1, 1, 1, 2, 2, 3])):
        k = rng.random()
        if k < 0.14:
            # re-framing: an existing FRAME gets another length / a FRAME header is put somewhere, so that opcode
            # arguments, lines and payloads straddle the end of the frame (the C unpickler then drops what is left
            # of the frame buffer, or - for bytes payloads - reads on in the file)
            qs = [i for i, x in enumerate(b) if x == 0x95 and i + 9 <= len(b)]
            if qs and rng.random() < 0.6:
                q = rng.choice(qs)
            else:
                q = rng.randint(0, len(b))
                b[q:q] = b"\x95" + bytes(8)
            left = len(b) - q - 9
            n = rng.choice([0, 1, 2, 3, 4, 5, 7, 9, 12, 17, max(0, left - 1), max(0, left - 2), max(0, left // 2), left, left + 1])
            b[q + 1:q + 9] = _le(n, 8)
        elif k < 0.38 and b:
            b[rng.randrange(len(b))] ^= 1 << rng.randrange(8)
        elif k < 0.46 and b:
            del b[rng.randrange(len(b)):]
        elif k < 0.5 and b:
            i = rng.randrange(len(b))
            del b[i:i + rng.randint(1, 4)]
        elif k < 0.72:
            i = rng.randint(0, len(b))
            b[i:i] = rng.choice(SPLICE)
        elif k < 0.8 and b:
            b[rng.randrange(len(b))] = rng.randrange(256)
        elif k < 0.9 and others:
            o = rng.choice(others)
            i, j = sorted((rng.randint(0, len(o)), rng.randint(0, len(o))))
            p = rng.randint(0, len(b))
            b[p:p] = o[i:j]
        elif b:
            i, j = sorted((rng.randint(0, len(b)), rng.randint(0, len(b))))
            b[j:j] = b[i:j]
    return bytes(b[:600])


def resource_hungry(data):
    """a stream that makes the unpickler allocate (and zero) hundreds of megabytes: an explicit memo index above 2^20
    (the memo is an array grown to twice the index) or a bytes / bytearray length above 2^27.  Such streams are not
    generated (cost); the model itself stops with OutOfModel above MEMO_MAX = 2^26"""
    try:
        for opc, arg, _pos in pickletools.genops(data):
            if opc.name in ("PUT", "BINPUT", "LONG_BINPUT") and isinstance(arg, int) and arg > 2 ** 20:
                return True
    except Exception:  # noqa
        pass
    for i, b in enumerate(data):
        if b in (0x8e, 0x96) and i + 9 <= len(data) and 2 ** 27 < int.from_bytes(data[i + 1:i + 9], "little") < 2 ** 40:
            return True
    return False


class _MemLimit:
    """an address-space ceiling while a mutated stream is loaded (a flipped length or a flipped argument of an
    allow-listed constructor may ask for gigabytes); stderr is parked (CPython prints 'SystemError: deallocated
    bytearray object has exported buffers' as an unraisable error when a BYTEARRAY8 payload is cut short)"""
    def __enter__(self):
        import resource
        sys.stderr.flush()
        self.err = os.dup(2)
        self.null = os.open(os.devnull, os.O_WRONLY)
        os.dup2(self.null, 2)
        self.res = resource
        self.old = resource.getrlimit(resource.RLIMIT_AS)
        try:
            with open("/proc/self/statm") as f:
                cur = int(f.read().split()[0]) * os.sysconf("SC_PAGE_SIZE")
            resource.setrlimit(resource.RLIMIT_AS, (cur + (3 << 30), self.old[1]))
        except (OSError, ValueError):
            pass

    def __exit__(self, *a):
        try:
            self.res.setrlimit(self.res.RLIMIT_AS, self.old)
        except (OSError, ValueError):
            pass
        os.dup2(self.err, 2)
        os.close(self.err)
        os.close(self.null)


def real_dump_sources():
    """dumps of CPython's pickler, all protocols, and of Delta.dumps()"""
    import collections
    import datetime
    import decimal
    from deepdiff import DeepDiff, Delta
    from deepdiff.helper import Opcode, SetOrdered
    shared = [1, 2]
    objs = [{"a": [1, 2.5, -3, 2 ** 40, -2 ** 70], "b": ("xé中", b"\x00\xff", None, True), "s": {1, 2}, "f": frozenset([3]), "t": int},
            [shared, shared, {"k": shared}], (1, (2, (3, ()))), {"d": decimal.Decimal("1.5"), "t": datetime.timedelta(1, 5)},
            collections.OrderedDict([("a", 1)]), [Opcode("insert", 0, 0, 0, 1, None, [1]), SetOrdered([1, 2])], "plain", 10 ** 30,
            {"values_changed": {"root['a']": {"new_value": 2, "old_value": 1}}, "type_changes": {"root[1]": {"old_type": int, "new_type": str}}},
            [bytearray(b"ab"), 1.5, float("inf")], type(None), [list, dict, set, (str, bytes)]]
    # cyclic object graphs through the memo (the model unfolds them finitely: its VALUES differ, the observables of
    # this property - outcome, names resolved, in which order - must not)
    cyc1 = [1]
    cyc1.append(cyc1)
    cyc2 = {"k": int}
    cyc2["self"] = cyc2
    cyc3 = [str]
    cyc3.append((cyc3, {"back": cyc3}, float))
    cyc4 = collections.OrderedDict()
    cyc4["me"] = [cyc4, dict]
    objs += [cyc1, cyc2, cyc3, cyc4]
    out = []
    for o in objs:
        for p in range(6):
            try:
                out.append(pickle.dumps(o, protocol=p))
            except Exception:  # noqa
                pass
    pairs = [([1, 2, 3], [1, 4, 3, 5]), ({"a": 1, "b": {2, 3}}, {"a": "1", "b": {3, 4}, "c": None}), ((1, "x"), (1, "y", 2.5)),
             ({"k": [1, 2, 3, 4]}, {"k": [9, 8, 1, 2, 3, 4]}), ({"n": None}, {"n": 1})]
    for t1, t2 in pairs:
        for bid in (False, True):
            try:
                out.append(Delta(DeepDiff(t1, t2), bidirectional=bid).dumps())
                out.append(Delta(DeepDiff(t1, t2, ignore_order=True), bidirectional=bid).dumps())
            except Exception:  # noqa
                pass
    return out


def bytes_part(ctx, cfgs, n_streams, program_bytes):
    """(a) every real dump as it is: genops and the C-dialect decoder must agree, no frame byte is skipped, the load
    gives what the model computes; (b) mutated streams: decoding against genops (raises <-> no STOP reached), verdict of
    the machine on the raw bytes against pickle_load (full comparison when the model's run does not depend on a call /
    build oracle, otherwise the names resolved before the first call), direct oracle on all of them."""
    rng = ctx.rng
    cases = []
    dumps = real_dump_sources()
    ci0 = 0
    for k, data in enumerate(dumps):
        res = real_load(data, cfgs[ci0][1])
        case = {"kind": "bytes", "what": "real dump", "config": cfgs[ci0][0], "bytes_hex": data.hex()}
        ctx.seen(("bytes", cfgs[ci0][0], data), nontrivial=bool(res["calls"]))
        direct_oracle(ctx, case, res, effective_allow_py(cfgs[ci0][1]))
        obs, wv = real_obs(res, True)
        expr, expected = bytes_expr(data, coq_world(ci0), obs, wv, False, res["exc"], noskip=True)
        ctx.count("bytes:real-dump")
        cases.append((expr, expected, case))
    pool = dumps + program_bytes
    pending = []
    for i in range(n_streams):
        ci = rng.randrange(len(cfgs))
        cfg = cfgs[ci]
        src = rng.choice(dumps) if rng.random() < 0.45 else rng.choice(program_bytes or dumps)
        data = mutate_bytes(rng, src, pool)
        if resource_hungry(data):
            ctx.count("bytes:not-generated(resource-hungry)")
            continue
        FLAGS["touched"].clear()
        FLAGS["called"].clear()
        with _MemLimit():
            res = real_load(data, cfg[1])
        case = {"kind": "bytes", "what": "mutated", "config": cfg[0], "safe_to_import": repr(cfg[1]), "bytes_hex": data.hex()}
        ctx.seen(("bytes", cfg[0], data), nontrivial=bool(res["calls"]))
        direct_oracle(ctx, case, res, effective_allow_py(cfg[1]))
        obs, wv = real_obs(res, True)
        ctx.count("bytes:mutated")
        ctx.count("bytes:mutated:outcome:" + res["cls"])
        if res["calls"]:
            ctx.count("bytes:mutated:with-lookups")
        if i % 4 == 0 and data:
            # the same bytes through pickle_load(file_obj=<buffered on-disk file>): that reader has peek() and prefetches,
            # which the byte model does not follow (every Delta entry point reads the whole content first and goes through
            # BytesIO); the property itself is checked directly
            fn = os.path.join(ctx.scratch, "c15_stream.bin")
            with open(fn, "wb") as f:
                f.write(data)
            FLAGS["touched"].clear()
            FLAGS["called"].clear()
            with open(fn, "rb") as f, _MemLimit():
                res_f = real_load(None, cfg[1], file_obj=f)
            direct_oracle(ctx, dict(case, entry="pickle_load(file_obj=buffered file)"), res_f, effective_allow_py(cfg[1]))
            ctx.count("bytes:mutated:also-through-a-buffered-file")
            if [c[:2] for c in res_f["calls"]] != [c[:2] for c in res["calls"]]:
                ctx.count("bytes:mutated:buffered-file-reader-took-another-path(frame remainders are not dropped there)")
        pending.append((ci, data, res, obs, wv, case))
    # the call / build oracles of each mutated stream, measured on the real constructors
    oracles = oracle_pass(ctx, cfgs, [(ci, data) for ci, data, _r, _o, _w, _c in pending])
    for (ci, data, res, obs, wv, case), (call_fail, build_fail, exact, asked) in zip(pending, oracles):
        if asked:      # results of calls are symbolic in the model: outcome and names are compared, not the value
            obs, wv = obs[:3] + [None], False
        expr, expected = bytes_expr(data, coq_world(ci, call_fail, build_fail), obs, wv, exact, res["exc"])
        ctx.count("bytes:mutated:genops:" + expected[0][0])
        cases.append((expr, expected, case))
    ctx.coq_cases("c15_bytes", world_header(cfgs), cases, shard=120, label="raw bytes (real dumps, mutated streams)")


# ---------------------------------------------------------------------------
# measuring the call / build oracles of a mutated stream: the model (optimistic oracles) lists the calls it
# makes, in order; they are replayed on the real constructors until the first one that raises
# ---------------------------------------------------------------------------

def _unescape(s):
    out, i = [], 0
    while i < len(s):
        if s[i] == "{":
            j = s.index("}", i)
            out.append(chr(int(s[i + 1:j])))
            i = j + 1
        else:
            out.append(s[i])
            i += 1
    return "".join(out)


def parse_sxq(txt):
    """inverse of PickleShow.show_sxq: atoms <len:text> -> str (un-escaped), numbers -> int, (...) -> list"""
    pos = 0

    def item():
        nonlocal pos
        c = txt[pos]
        if c == "(":
            pos += 1
            out = []
            while txt[pos] != ")":
                if txt[pos] == " ":
                    pos += 1
                    continue
                out.append(item())
            pos += 1
            return out
        if c == "<":
            j = txt.index(":", pos)
            n = int(txt[pos + 1:j])
            t = txt[j + 1:j + 1 + n]
            assert txt[j + 1 + n] == ">", "bad atom"
            pos = j + 2 + n
            return _unescape(t)
        j = pos
        while j < len(txt) and (txt[j].isdigit() or txt[j] == "-"):
            j += 1
        v = int(txt[pos:j])
        pos = j
        return v
    r = item()
    assert pos == len(txt), "trailing text"
    return r


class _NoRebuild(Exception):
    pass


def _call(kind, rc, rargs):
    if kind == "reduce":
        return rc(*rargs)
    if kind == "newobj":
        return rc.__new__(rc, *rargs)
    if kind == "newobj_ex":
        return rc.__new__(rc, *rargs[0], **rargs[1])
    return py_instantiate(rc, rargs)


def rebuild(x):
    """a real object for a canonical form printed by the model (PickleShow.sx_obj)"""
    if x == "None":
        return None
    if x == "NoneType":
        return type(None)
    if not isinstance(x, list) or not x:
        raise _NoRebuild(repr(x))
    t = x[0]
    if t == "b":
        return x[1] == "T"
    if t == "i":
        return x[1]
    if t == "f":
        return x[1] / 2
    if t == "fb":
        return struct.unpack(">d", x[1].to_bytes(8, "big"))[0]
    if t == "s":
        return x[1]
    if t == "y":
        return x[1].encode("latin-1")
    if t == "ba":
        return bytearray(x[1].encode("latin-1"))
    if t == "T":
        return tuple(rebuild(y) for y in x[1])
    if t == "L":
        return [rebuild(y) for y in x[1]]
    if t == "D":
        return {rebuild(k): rebuild(v) for k, v in x[1]}
    if t == "S":
        return {rebuild(y) for y in x[1]}
    if t == "F":
        return frozenset(rebuild(y) for y in x[1])
    if t == "G":
        return getattr(sys.modules[x[1]], x[2])
    if t == "inst":
        o = _call(x[1], rebuild(x[2]), rebuild(x[3]))
        for st in x[4]:
            py_build(o, rebuild(st))
        return o
    raise _NoRebuild(repr(x)[:80])


def measure_oracles(queries):
    """queries: the parsed output of show_queries.  -> (call_fail, build_fail, exact?): the table entries of the first
    call / build that raises on the real constructors (everything after it is never asked); exact is False when a
    query could not be replayed (then the stream is compared up to its first call only)"""
    for q in queries:
        try:
            if q[0] == "ext_cached":
                continue
            if q[0] == "build":
                inst, st = rebuild(q[1]), rebuild(q[2])
            else:
                rc, rargs = rebuild(q[1]), rebuild(q[2])
        except BaseException:  # noqa: an argument that cannot be rebuilt
            return [], [], False
        try:
            if q[0] == "build":
                py_build(inst, st)
            else:
                _call(q[0], rc, rargs)
        except BaseException:  # noqa
            return ([], [[q[1], q[2]]], True) if q[0] == "build" else ([[q[0], q[1], q[2]]], [], True)
    return [], [], True


def coq_eval_big(ctx, name, header, expr, timeout=900):
    """ctx.coq_eval with a larger OCaml stack (printing a long string recurses)"""
    fn = os.path.join(ctx.scratch, "eval_%s.v" % name)
    with open(fn, "w") as f:
        f.write("From Coq Require Import List String ZArith NArith Bool.\nImport ListNotations.\nFrom DD Require Import Base.Sx.\n")
        f.write(header + "\nLocal Open Scope string_scope.\nEval vm_compute in (%s).\n" % expr)
    rc, out = core.sh("ulimit -s 4000000 2>/dev/null || ulimit -s unlimited 2>/dev/null; coqc -Q %s DD %s" % (core.THEORIES, fn),
                      timeout=timeout, cwd=ctx.scratch)
    m = _re.search(r'"BEGIN\n(.*)END"', out, _re.S)
    if rc != 0 or not m:
        ctx.break_("correspondence", {"name": name, "error": "coqc failed: " + out[-1500:]})
        return None
    return m.group(1).replace('""', '"')


def oracle_pass(ctx, cfgs, streams):
    """streams: [(ci, data)].  One Coq evaluation per chunk prints the call / build queries of every stream's run under
    optimistic oracles -> [(call_fail, build_fail, exact)] per stream"""
    from concurrent.futures import ThreadPoolExecutor
    hdr = world_header(cfgs)
    chunk = 80
    parts = [streams[i:i + chunk] for i in range(0, len(streams), chunk)]

    def one(k):
        body = " ++ ".join("show_queries %s %s %s" % (coq_world(ci), coq_c_dialect(data), coq_bytes(data)) for ci, data in parts[k])
        return coq_eval_big(ctx, "c15_queries_%d" % k, hdr, '"BEGIN" ++ nl ++ %s ++ "END"' % body)
    with ThreadPoolExecutor(max_workers=core.NCPU) as ex:
        outs = list(ex.map(one, range(len(parts))))
    res = []
    for part, txt in zip(parts, outs):
        lines = txt.split("\n")[:len(part)] if txt is not None else []
        if len(lines) != len(part):
            ctx.break_("correspondence", {"name": "oracle pass", "error": "expected %d lines, got %d" % (len(part), len(lines))})
            res += [([], [], False, True)] * len(part)
            continue
        for line in lines:
            try:
                q = parse_sxq(line)
            except Exception as e:  # noqa
                ctx.break_("correspondence", {"name": "oracle pass", "error": "unparsable query line: %r (%s)" % (line[:200], e)})
                res.append(([], [], False, True))
                continue
            if not q:
                res.append(([], [], True, False))
                ctx.count("bytes:mutated:no-call-asked")
                continue
            with _MemLimit():
                r = measure_oracles(q)
            ctx.count("bytes:mutated:oracles-measured" if r[2] else "bytes:mutated:oracles-not-replayable(compared up to the first call)")
            if r[0] or r[1]:
                ctx.count("bytes:mutated:a-call-or-build-raises")
            res.append(r + (True,))
    return res


# ---------------------------------------------------------------------------
# fixed programs: the documented attack shapes, and the extension-cache finding
# ---------------------------------------------------------------------------

def fixed_programs(ctx, cfgs):
    cases = []
    S = lambda s: ("SHORT_BINUNICODE", s)  # noqa
    progs = [
        [("GLOBAL", BAD, "boom"), ("STOP",)],
        [("PROTO", 4), S(BAD), S("boom"), ("STACK_GLOBAL",), ("STOP",)],
        [("MARK",), S("x"), ("INST", BAD, "boom"), ("STOP",)],
        [("GLOBAL", BAD, "boom"), ("MARK",), S("x"), ("TUPLE",), ("REDUCE",), ("STOP",)],
        [("MARK",), ("GLOBAL", BAD, "Cls"), S("x"), ("OBJ",), ("STOP",)],
        [("PROTO", 2), ("GLOBAL", BAD, "Cls"), ("EMPTY_TUPLE",), ("NEWOBJ",), ("STOP",)],
        [("PROTO", 4), ("GLOBAL", BAD, "Cls"), ("EMPTY_TUPLE",), ("EMPTY_DICT",), ("NEWOBJ_EX",), ("STOP",)],
        [("EMPTY_LIST",), ("EMPTY_DICT",), S("k"), ("MARK",), ("NONE",), ("GLOBAL", BAD, "boom"), ("TUPLE",), ("SETITEM",), ("APPEND",), ("STOP",)],
        [("GLOBAL", "builtins", "list"), ("MARK",), ("MARK",), ("GLOBAL", BAD, "boom"), ("LIST",), ("TUPLE",), ("REDUCE",), ("STOP",)],
        [("GLOBAL", "collections", "OrderedDict"), ("EMPTY_TUPLE",), ("REDUCE",), ("MARK",), S("a"), ("GLOBAL", BAD, "boom"), ("DICT",), ("BUILD",), ("STOP",)],
        [("GLOBAL", "orderly_set", "sets.OrderedSet"), ("STOP",)],
        [("GLOBAL", "builtins", "None"), ("STOP",)],
        [("GLOBAL", "builtins", "int"), ("GLOBAL", "builtins", "int"), ("TUPLE2",), ("STOP",)],
        [("GLOBAL", "copyreg", "_reconstructor"), ("STOP",)],
        [("EXT1", 0), ("STOP",)],
        [("EXT1", 201), ("STOP",)],
        [("PERSID", "<<FunctionType>>"), ("STOP",)],
        [("PROTO", 4), S("<<SimpleNamespace>>"), ("BINPERSID",), ("EMPTY_TUPLE",), ("REDUCE",), ("STOP",)],
        [("PERSID", "<<NoneType>>"), ("EMPTY_TUPLE",), ("REDUCE",), ("STOP",)],
        [("MARK",), ("PERSID", "<<ModuleType>>"), S("m"), ("OBJ",), ("STOP",)],
        [("PROTO", 2), S("<<" + BAD + ".boom>>"), ("BINPERSID",), ("EMPTY_TUPLE",), ("NEWOBJ",), ("STOP",)],
        [("PERSID", BAD + ".boom"), ("STOP",)],
        [("PROTO", 3), ("BINBYTES", b"<<NoneType>>"), ("BINPERSID",), ("STOP",)],
        # load_inst decodes its two lines with PyUnicode_DecodeASCII, load_global with UTF-8: a byte >= 128 in an INST line is
        # UnicodeDecodeError BEFORE find_class is asked (Bytes.c_iname), under GLOBAL the name is looked up (and refused)
        [("MARK",), ("INST", "\u4e2d", "Cls"), ("STOP",)],
        [("GLOBAL", "builtins", "complex"), ("POP",), ("MARK",), ("INST", BAD, "b\u00e9"), ("STOP",)],
        [("MARK",), ("INST", "builtins", "l\u00e9st"), ("STOP",)],
        [("MARK",), ("INST", "builtins", "list"), ("STOP",)],
        [("GLOBAL", "\u4e2d", "Cls"), ("STOP",)],
        [("GLOBAL", "builtins", "complex"), ("POP",), ("GLOBAL", BAD, "b\u00e9"), ("STOP",)],
    ]
    # calls of None (what every unknown persistent id is) raise TypeError: the oracle entries of those programs
    none_calls = [["reduce", None, ["T", []]], ["obj", None, ["T", [["s", "m"]]]]]
    for p in progs:
        has_call = any(o[0] in ("REDUCE", "OBJ", "NEWOBJ", "NEWOBJ_EX", "INST", "BUILD") for o in p)
        for ci in (0, 1):
            c = program_case(ctx, ci, cfgs[ci], p, none_calls if has_call else [], [], not has_call, {"kind": "fixed"})
            if c:
                cases.append(c)
    # ---- the extension registry / cache ------------------------------------
    import copyreg
    code_bad, code_ok = 0x7a01, 0x7a02
    copyreg.add_extension(BAD, "boom", code_bad)
    copyreg.add_extension("builtins", "list", code_ok)
    try:
        reg = [(code_bad, BAD, "boom"), (code_ok, "builtins", "list")]
        p_bad = [("PROTO", 2), ("EXT2", code_bad), ("EMPTY_TUPLE",), ("REDUCE",), ("STOP",)]
        p_ok = [("PROTO", 2), ("EXT2", code_ok), ("EXT2", code_ok), ("TUPLE2",), ("STOP",)]
        for p in (p_bad, p_ok):
            c = program_case(ctx, 0, cfgs[0], p, [], [], False, {"kind": "ext-registry"}, ext=([], reg))
            if c:
                cases.append(c)
            copyreg._extension_cache.pop(code_ok, None)
        # K-EXT: some unrelated, unrestricted load elsewhere in the process fills the cache
        pickle.loads(assemble([("PROTO", 2), ("EXT2", code_bad), ("STOP",)]))
        FLAGS["touched"].clear()
        c = program_case(ctx, 0, cfgs[0], p_bad, [], [], False, {"kind": "ext-cache"}, ext=([(code_bad, BAD, "boom", "GFunc")], reg))
        if c:
            cases.append(c)
            ctx.note("ext_cache_witness", {"expected_model_and_impl": c[1]})
            if c[1][1][0] != "ok":
                ctx.break_("correspondence", {"name": "ext-cache", "detail": "the known finding C15-EXT-CACHE no longer reproduces: "
                                              "the model (and the _refuted theorem) is out of date", "observed": c[1]})
    finally:
        copyreg._extension_cache.pop(code_bad, None)
        copyreg._extension_cache.pop(code_ok, None)
        copyreg.remove_extension(BAD, "boom", code_bad)
        copyreg.remove_extension("builtins", "list", code_ok)
    # the Coq witness of C15_no_forbidden_resolution_refuted, literally (os.getpid is harmless)
    import os
    copyreg.add_extension("os", "getpid", 201)
    try:
        wit = [("PROTO", 2), ("EXT1", 201), ("EMPTY_TUPLE",), ("REDUCE",), ("STOP",)]
        before = real_load(assemble(wit), None)
        pickle.loads(assemble([("PROTO", 2), ("EXT1", 201), ("STOP",)]))
        after = real_load(assemble(wit), None)
        ctx.evaluations += 1
        reproduced = before["cls"] == "ForbiddenModule" and after["cls"] == "ok" and after["result"] == os.getpid() and not after["calls"]
        ctx.note("refuted_witness_replayed", {"C15_no_forbidden_resolution_refuted": {
            "before_unrestricted_load": before["cls"], "after": after["cls"], "find_class_calls_after": after["calls"],
            "reproduced": reproduced}})
        if reproduced:
            ctx.fail({"kind": "ext-cache", "ext": True, "called": [], "witness": "coq", "bytes_hex": assemble(wit).hex(), "config": "none"},
                     "EXT served from the extension cache called os.getpid without find_class")
        else:
            ctx.break_("correspondence", {"name": "refuted-witness", "detail": "the Coq witness of C15_no_forbidden_resolution_refuted "
                                          "does not reproduce on the implementation any more: the model is out of date",
                                          "before": before["cls"], "after": after["cls"]})
        cases.append(("sx_result false (vm_run w_cached prog_cached)", [after["cls"], None, [[m, n] for m, n, r in after["calls"] if r], None],
                      {"kind": "refuted-witness"}))
    finally:
        copyreg._extension_cache.pop(201, None)
        copyreg.remove_extension("os", "getpid", 201)
    ctx.coq_cases("c15_fixed", world_header(cfgs), cases, shard=100, label="fixed programs")


# ---------------------------------------------------------------------------
# the converse clause: every dump Delta itself produces for supported value types loads
# ---------------------------------------------------------------------------

def own_dump_values():
    """one value of every type on the built-in allow-list that can occur in a delta (instances), and the
    allow-listed class / function objects themselves as values"""
    import collections
    import datetime
    import decimal
    import re
    import uuid
    import orderly_set
    from deepdiff.helper import Opcode, SetOrdered
    return [
        ("uuid.UUID", uuid.UUID("12345678123456781234567812345678"), True),
        ("decimal.Decimal", decimal.Decimal("1.5"), True),
        ("datetime.datetime", datetime.datetime(2020, 1, 2, 3, 4, 5), True),
        ("datetime.time", datetime.time(1, 2, 3), True),
        ("datetime.timedelta", datetime.timedelta(days=1, seconds=5), True),
        ("collections.OrderedDict", collections.OrderedDict([("a", 1), ("b", 2)]), False),
        ("builtins.frozenset", frozenset({1, "a"}), True),
        ("builtins.set", {1, 2}, False),
        ("builtins.range", range(1, 5), True),
        ("builtins.complex", complex(1, 2), True),
        ("builtins.slice", slice(1, 2), False),
        ("builtins.bytes", b"ab", True),
        ("builtins.tuple", (1, "x"), True),
        ("builtins.str/int/float/bool/list/dict", {"s": "x", "i": 1, "f": 1.5, "b": True, "l": [1], "d": {"k": None}}, False),
        ("deepdiff.helper.Opcode", Opcode("insert", 0, 0, 0, 1, None, [1]), False),
        ("deepdiff.helper.SetOrdered", SetOrdered([1, 2]), False),
        ("orderly_set.sets.OrderedSet", orderly_set.OrderedSet([1, 2]), False),
        ("orderly_set.sets.StableSetEq", orderly_set.StableSetEq([1, 2]), False),
        ("orderly_set.sets.OrderlySet", orderly_set.OrderlySet([1, 2]), False),
        ("class re.Pattern", re.Pattern, True), ("class uuid.UUID", uuid.UUID, True), ("class decimal.Decimal", decimal.Decimal, True),
        ("class datetime.datetime", datetime.datetime, True), ("class datetime.time", datetime.time, True),
        ("class datetime.timedelta", datetime.timedelta, True), ("class collections.OrderedDict", collections.OrderedDict, True),
        ("class builtins.range", range, True), ("class builtins.complex", complex, True), ("class builtins.slice", slice, True),
        ("class deepdiff.helper.Opcode", Opcode, True), ("class deepdiff.helper.SetOrdered", SetOrdered, True),
        ("class orderly_set.sets.OrderedSet", orderly_set.OrderedSet, True),
        ("function builtins.bin", bin, True), ("function collections.namedtuple", collections.namedtuple, True),
    ]


OWN_POSITIONS = ["dict-added", "list-added", "dict-removed", "type-change-to", "type-change-from", "set-member-added", "set-member-removed",
                 "value-in-changed-container"]


def own_dump_pair(v, hashable, pos):
    import copy
    c = copy.deepcopy
    if pos == "dict-added":
        return {"a": 1}, {"a": 1, "n": c(v)}
    if pos == "list-added":
        return [1], [1, c(v)]
    if pos == "dict-removed":
        return {"a": 1, "n": c(v)}, {"a": 1}
    if pos == "type-change-to":
        return {"k": 1}, {"k": c(v)}
    if pos == "type-change-from":
        return {"k": c(v)}, {"k": "s"}
    if pos == "set-member-added" and hashable:
        return {"s": {1}}, {"s": {1, v}}
    if pos == "set-member-removed" and hashable:
        return {"s": {1, v}}, {"s": {1}}
    if pos == "value-in-changed-container":
        return {"q": [c(v), 1]}, {"q": [c(v), 2, 3]}
    return None


def own_dump_one(ctx, vi, pos, bid):
    import logging
    logging.disable(logging.CRITICAL)
    from deepdiff import DeepDiff, Delta
    name, v, hashable = own_dump_values()[vi]
    if name.startswith(("class ", "function ")) and pos.startswith("type-change"):
        return      # the "type" of such a value is a metaclass / function type: not a supported value type
    pair = own_dump_pair(v, hashable, pos)
    if pair is None:
        return
    t1, t2 = pair
    case = {"kind": "own-dump", "value": vi, "type": name, "position": pos, "bidirectional": bid}
    try:
        d = Delta(DeepDiff(t1, t2), bidirectional=bid)
        data = d.dumps()
    except Exception as e:  # noqa: what cannot be diffed / pickled at all is not a dump Delta produces
        ctx.count("own-dump:unbuildable:" + type(e).__name__)
        return
    ctx.seen(("own", vi, pos, bid), nontrivial=True)
    ctx.count("own-dump:cases")
    case["bytes_hex"] = data.hex()
    try:
        d2 = Delta(data, bidirectional=bid)
    except BaseException as e:  # noqa
        ctx.fail(dict(case, error=type(e).__name__, message=str(e)[:120]),
                 "the dump Delta produced for a delta holding %s (%s) does not load: %s: %s" % (name, pos, type(e).__name__, str(e)[:100]))
        return
    try:
        same = d2.diff == d.diff
    except Exception:
        same = repr(d2.diff) == repr(d.diff)
    if not same:
        ctx.fail(dict(case, loaded=repr(d2.diff)[:300], original=repr(d.diff)[:300]),
                 "the reloaded payload of a delta holding %s (%s) differs" % (name, pos))
        return

    def res(dl):
        import copy
        try:
            return ("ok", repr(copy.deepcopy(t1) + dl))
        except Exception as e:  # noqa
            return ("raised", type(e).__name__)
    w_, g_ = res(Delta(DeepDiff(t1, t2), bidirectional=bid)), res(Delta(data, bidirectional=bid))
    if w_ != g_:
        ctx.fail(dict(case, original=w_, reloaded=g_), "the reloaded delta holding %s (%s) gives a different result" % (name, pos))


def own_dumps_part(ctx):
    vals = own_dump_values()
    for vi in range(len(vals)):
        for pos in OWN_POSITIONS:
            for bid in (False, True):
                own_dump_one(ctx, vi, pos, bid)
    ctx.note("own_dumps", "%d values (one per allow-listed type that can occur in a delta, and the allow-listed class / function "
             "objects themselves) x %d positions x bidirectional: dumps() must load with the default allow-list, carry the "
             "same payload and give the same result" % (len(vals), len(OWN_POSITIONS)))


# ---------------------------------------------------------------------------
# source tie: harness/translate/unpickler.py regenerates SAFE_TO_IMPORT, _RestrictedUnpickler.__init__ / find_class /
# persistent_load and pickle_load from the current source (DDGen.PickleGen); coq/srctie/PickleGenEquiv.v proves them
# equal to Vm.v / Bytes.v for all arguments and transfers the theorems of Properties/C15.v (core.source_tie_step)
# ---------------------------------------------------------------------------

SOURCE_TIES = [{"name": "unpickler", "translator": "unpickler", "gen_module": "PickleGen", "equiv": ["PickleGenEquiv"],
                "needs": ["Pickle.SrcPrimsFacts"],
                "sources": ["deepdiff/serialization.py", "deepdiff/delta.py", "deepdiff/helper.py"],
                "fragment": "serialization.py: the literal SAFE_TO_IMPORT, _RestrictedUnpickler.__init__ / find_class / persistent_load, "
                            "pickle_load, _RestrictedPickler.persistent_id (+ structural checks: the class subclasses pickle.Unpickler and overrides nothing else, no other "
                            "use of the pickle module in the package, helper.strings)"}]


def _pyv_of(arg):
    """a safe_to_import argument as a term of Pickle/SrcPrims.pyv"""
    def s(x):
        return "(VStr %s)" % core.coq_pystr(x)
    if arg is None:
        return "VNone"
    if isinstance(arg, str):
        return s(arg)
    k = {set: "VSet", frozenset: "VFrozenset", list: "VList", tuple: "VTuple"}[type(arg)]
    items = sorted(arg) if isinstance(arg, (set, frozenset)) else list(arg)
    return "(%s [%s])" % (k, "; ".join(s(x) for x in items))


def _hand_allow_list():
    txt = open(os.path.join(core.THEORIES, "Pickle", "Vm.v")).read()
    m = _re.search(r"Definition SAFE_TO_IMPORT : list pystr := map s2p \[(.*?)\]\.", txt, _re.S)
    return _re.findall(r'"([^"]*)"', m.group(1)) if m else []


def tie_pairs(cfgs):
    """(module, name) pairs on which the generated and the hand-written resolver are compared: every way of cutting every entry
    of both allow-lists (and of the safe_to_import configurations) at a dot, near-misses of them, the pairs the program
    generator uses, and the cross product of the decision stream's synthetic modules and look-alike names"""
    try:
        from deepdiff.serialization import SAFE_TO_IMPORT
        entries = set(x for x in SAFE_TO_IMPORT if isinstance(x, str))
    except Exception:  # noqa
        entries = set()
    entries |= set(_hand_allow_list())
    for _n, arg, _c in cfgs:
        try:
            entries |= set(x for x in effective_allow_py(arg) if isinstance(x, str))
        except Exception:  # noqa
            pass
    pairs = []
    for s in sorted(entries):
        pairs += splits(s)
        pairs += [(s, "x"), ("", s), (s.split(".")[0], s), (s, ""), (s.lower(), "x")]
        for m, n in splits(s):
            pairs += [(m, n + "x"), (m + "x", n), (m, n[:-1]), (m.upper(), n), (m, n.lower()), (n, m), (m + "." + n, n)]
    pairs += ALLOWED_G + JOIN_ALIKE_G + SOMETIMES_G + FORBIDDEN_G
    pairs += [(m, n) for m in EXTRA_MODULES for n in LOOKALIKE]
    seen, out = set(), []
    for p in pairs:
        if p not in seen:
            seen.add(p)
            out.append(p)
    return out


def global_payload(m, n):
    """the shortest pickle that asks find_class for (m, n)"""
    enc = lambda s: s.encode("utf-8", "surrogatepass")    # noqa: E731
    plain = all(s and "\n" not in s and all(32 <= ord(c) < 127 for c in s) for s in (m, n))
    if plain:
        return [("GLOBAL", m, n), ("STOP",)]
    if len(enc(m)) < 256 and len(enc(n)) < 256:
        return [("PROTO", 4), ("SHORT_BINUNICODE", m), ("SHORT_BINUNICODE", n), ("STACK_GLOBAL",), ("STOP",)]
    return [("PROTO", 4), ("BINUNICODE", m), ("BINUNICODE", n), ("STACK_GLOBAL",), ("STOP",)]


TIE_PIDS = ["<<NoneType>>", "<<NoneType>", "<NoneType>>", "<<nonetype>>", "NoneType", "", "<<NoneType>> ", "<<NoneType>>x"] + PID_POOL[:12]


def _coq_pyv_content(kind, data):
    if kind == "none":
        return "VNone"
    if kind == "bytes":
        return "(VBytes %s)" % coq_bytes(data)
    if kind == "str":
        return "(VStr %s)" % core.coq_pystr(data.decode("ascii"))
    raise ValueError(kind)


def tie_loads():
    """(content kind, content bytes, file bytes or None) variants of the arguments of pickle_load"""
    sel = ALLOWED_G[:5] + SOMETIMES_G + FORBIDDEN_G[:5] + JOIN_ALIKE_G[:2]
    out = [("bytes", b"", None), ("str", b"", None), ("none", b"", None), ("none", b"", b""), ("bytes", b"N.", None), ("str", b"N.", None),
           ("none", b"", b"N."), ("bytes", b"", b"N."), ("str", b"", b"N.")]
    for m, n in sel:
        p = assemble([("GLOBAL", m, n), ("STOP",)])
        out += [("bytes", p, None), ("str", p, None), ("none", b"", p), ("bytes", b"", p), ("bytes", p, b"N."), ("bytes", b"N.", p)]
    return out


TIE_HEADER_DEFS = r"""
Definition proc_of (mods : list pystr) (found : list (pystr * pystr * Z)) : process :=
  fun m => if mem_str m mods then
             Some (fun n => match find (fun t => pystr_eqb (fst (fst t)) m && pystr_eqb (snd (fst t)) n) found with
                            | Some t => Some (gk (snd t)) | None => None end)
           else None.
Definition tie_env (mods : list pystr) (found : list (pystr * pystr * Z)) : env :=
  mkEnv (proc_of mods found) (fun _ _ _ => true) (fun _ _ => true) [] (fun _ => None) (c_dialect no_text).
"""
H_LOAD_DEF = r"""
(* the hand-written model's reading of pickle_load(content, file_obj): Bytes.load_content on the (UTF-8 encoded) content
   when it is non-empty, otherwise the machine on the file object's bytes, otherwise the ValueError *)
Inductive tie_arg := TNone | TBytes (b : list N) | TStr (s : pystr).
Definition h_load (w : world) (content : tie_arg) (file : option (list N)) : result :=
  let d := c_dialect no_text in
  let b := match content with TNone => [] | TBytes b => b | TStr s => utf8_enc s end in
  match b, file with
  | [], Some f => bytes_run w d f
  | _, _ => load_content w d b
  end.
"""


def _tie_eval(ctx, cfgs, pairs, loads, pids):
    """one Coq evaluation: the indices on which generated and hand-written definitions differ.
    -> {"fc": {ci: [i]}, "load": {ci: [i]}, "pid": [i]} or None when the evaluation itself failed"""
    gen_dir = os.path.join(ctx.scratch, "srctie")
    ctx.ensure_built("From DD Require Import Pickle.PickleShow Pickle.PickleProofs Pickle.SrcPrims.")
    L = ["From Coq Require Import List String ZArith NArith Bool.", "Import ListNotations.", "From DD Require Import Base.Sx.",
         world_header(cfgs).replace("Pickle.PickleProofs.", "Pickle.PickleProofs Pickle.SrcPrims."),
         "From DDGen Require Import PickleGen.", TIE_HEADER_DEFS, H_LOAD_DEF]
    L.append("Definition PAIRS : list (pystr * pystr) := [%s]." % "; ".join(
        "(%s, %s)" % (core.coq_pystr(m), core.coq_pystr(n)) for m, n in pairs))
    L.append("Definition fcz (r : option fc_res) : Z := match r with Some (FCResolved k) => gk_code k | Some FCForbidden => 10 "
             "| Some FCNoModule => 11 | Some FCNoAttr => 12 | None => (-1) end.")
    L.append("Definition idx_diff {A : Type} (f g : A -> sx) (l : list A) : list sx :=\n"
             "  let all := (fix go (i : Z) (l : list A) : list sx := match l with [] => [] | x :: r => if sx_eqb (f x) (g x) then go (i + 1) r "
             "else SZ i :: go (i + 1) r end) 0 l in SZ (Z.of_nat (List.length all)) :: firstn 60 all.")
    L.append("Definition rz (r : option result) : sx := match r with Some x => SL [sx_result true x; sx_result_fine x] | None => SA \"none\" end.")

    def targ(kind, data):
        return "TNone" if kind == "none" else "(TBytes %s)" % coq_bytes(data) if kind == "bytes" else "(TStr %s)" % core.coq_pystr(data.decode("ascii"))
    L.append("Definition LOADS : list ((pyv * pyv) * (tie_arg * option (list N))) := [%s]." % "; ".join(
        "((%s, %s), (%s, %s))" % (_coq_pyv_content(k, d), "VNone" if f is None else "(VFile %s)" % coq_bytes(f),
                                  targ(k, d), "None" if f is None else "(Some %s)" % coq_bytes(f)) for k, d, f in loads))

    def cobj(p):
        return "(OStr %s)" % core.coq_pystr(p)
    L.append("Definition PIDS : list obj := [%s]." % "; ".join(
        [cobj(p) for p in pids] + ["ONone", "(OInt 0)", "(OBytes %s)" % core.coq_pystr("<<NoneType>>"), "(OTuple [%s])" % cobj("<<NoneType>>"),
                                  "ONoneType", "(OBool true)"]))
    parts = []
    for ci, (_nm, arg, _coq) in enumerate(cfgs):
        L.append("Definition ARG%d : pyv := %s." % (ci, _pyv_of(arg)))
        L.append("Definition W%d : world := table_world ALLOW%d MODS%d FOUND%d [] [] [] []." % (ci, ci, ci, ci))
        parts.append("SL (idx_diff (fun q => SZ (fcz (fc_of (g_find_class (proc_of MODS%d FOUND%d) (g_init_allow (Some ARG%d)) (fst q) (snd q))))) "
                     "(fun q => SZ (fcz (Some (find_class W%d (fst q) (snd q))))) PAIRS)" % (ci, ci, ci, ci))
        parts.append("SL (idx_diff (fun q => rz (result_of (g_pickle_load (tie_env MODS%d FOUND%d) (fst (fst q)) (snd (fst q)) ARG%d))) "
                     "(fun q => rz (Some (h_load W%d (fst (snd q)) (snd (snd q))))) LOADS)" % (ci, ci, ci, ci))
    parts.append("SL (idx_diff (fun p => sx_obj (g_persistent_load p)) (fun p => sx_obj (persistent_load p)) PIDS)")
    popt = "(fun o : option pystr => match o with Some s => SL [sx_str s] | None => SL [] end)"
    pid_dump = ("SL (idx_diff (fun p => %s (g_persistent_id p)) (fun p => %s (match p with ONoneType => Some NONE_TYPE_PID | _ => None end)) PIDS)"
                % (popt, popt))
    # the keyword absent: __init__ without safe_to_import (the default of kwargs.pop)
    parts.append("SL (idx_diff (fun q => SZ (fcz (fc_of (g_find_class (proc_of MODS0 FOUND0) (g_init_allow None) (fst q) (snd q))))) "
                 "(fun q => SZ (fcz (Some (find_class W0 (fst q) (snd q))))) PAIRS)")
    L.append("Local Open Scope string_scope.")
    parts.append(pid_dump)
    L.append('Eval vm_compute in ("BEGIN" ++ nl ++ show_sx (SL [%s]) ++ "END").' % "; ".join(parts))
    fn = os.path.join(ctx.scratch, "tie_c15_diff.v")
    with open(fn, "w") as f:
        f.write("\n".join(L) + "\n")
    rc, out = core.sh("ulimit -s 4000000 2>/dev/null || ulimit -s unlimited 2>/dev/null; coqc -Q %s DD -Q %s DDGen %s" % (
        core.THEORIES, gen_dir, fn), timeout=900, cwd=ctx.scratch)
    m = _re.search(r'"BEGIN\s*\n(.*)END"', out, _re.S)
    if rc != 0 or not m:
        return None, out[-1500:]
    groups = _re.findall(r"\(([-0-9 \n]*)\)", m.group(1))
    nums = [[int(x) for x in g.split()] for g in groups]       # each group: total number of differences, then the first 60 indices
    res = {"fc": {}, "load": {}, "pid": [], "fc_absent": [], "totals": {"find_class": 0, "pickle_load": 0, "persistent_load": 0}}
    for ci in range(len(cfgs)):
        res["fc"][ci] = nums[2 * ci][1:]
        res["load"][ci] = nums[2 * ci + 1][1:]
        res["totals"]["find_class"] += nums[2 * ci][0]
        res["totals"]["pickle_load"] += nums[2 * ci + 1][0]
    res["pid"] = nums[2 * len(cfgs)][1:]
    res["totals"]["persistent_load"] = nums[2 * len(cfgs)][0]
    res["fc_absent"] = nums[2 * len(cfgs) + 1][1:]
    res["totals"]["find_class"] += nums[2 * len(cfgs) + 1][0]
    res["pid_dump"] = nums[2 * len(cfgs) + 2][1:]
    res["totals"]["persistent_id"] = nums[2 * len(cfgs) + 2][0]
    return res, None


def tie_converse(ctx, case, res, doc_allow):
    """the converse clause on one real load: a lookup of an allow-listed name must not be answered with ForbiddenModule"""
    for m, n, returned in res["calls"]:
        if ("%s.%s" % (m, n)) in doc_allow and not returned and res["exc"] == "ForbiddenModule":
            ctx.fail(dict(case, converse=True, looked_up=[m, n]),
                     "pickle_load forbids %s.%s although it is on the allow-list (SAFE_TO_IMPORT | safe_to_import)" % (m, n))


def tie_decision_case(ctx, ci, cfg, m, n):
    """one (module, name) pair judged like a case of the decision stream: direct oracle + correspondence case"""
    from deepdiff.serialization import _RestrictedUnpickler, ForbiddenModule
    cname, arg, _coq = cfg
    u = _RestrictedUnpickler(io.BytesIO(b"N."), safe_to_import=arg)
    try:
        u.find_class(m, n)
        verdict = "resolved"
    except ForbiddenModule:
        verdict = "forbidden"
    except BaseException as e:  # noqa
        verdict = "passed:" + type(e).__name__
    member = ("%s.%s" % (m, n)) in effective_allow_py(arg)
    case = {"kind": "decision", "config": cname, "safe_to_import": repr(arg), "module": m, "name": n, "observed": verdict,
            "found_by": "source tie: generated and hand-written find_class differ on this pair"}
    ctx.seen(("tie-dec", cname, m, n), nontrivial=verdict != "forbidden")
    if verdict == "resolved" and not member:
        ctx.fail(case, "find_class resolved %s.%s which is neither in SAFE_TO_IMPORT nor in safe_to_import" % (m, n))
    elif verdict != "forbidden" and not member:
        ctx.fail(case, "find_class did not raise ForbiddenModule for the non-member %s.%s (%s)" % (m, n, verdict))
    elif verdict == "forbidden" and member:
        ctx.fail(case, "find_class forbids %s.%s although it is on the allow-list" % (m, n))
    return ("allowed_names ALLOW%d %s [%s]" % (ci, core.coq_pystr(m), core.coq_pystr(n)), [n] if verdict != "forbidden" else [],
            {"kind": "decision", "config": cname, "module": m, "name": n, "source_tie": True})


def tie_load_case(ctx, ci, cfg, kind, data, fbytes):
    """one (content, file_obj) variant through the real pickle_load: direct oracle, converse clause, correspondence with h_load"""
    cname, arg, _coq = cfg
    content = None if kind == "none" else data if kind == "bytes" else data.decode("ascii")
    FLAGS["touched"].clear()
    FLAGS["called"].clear()
    res = real_load(content, arg, file_obj=None if fbytes is None else io.BytesIO(fbytes), both=True)
    doc_allow = effective_allow_py(arg)
    case = {"kind": "tie-load", "config": cname, "safe_to_import": repr(arg), "content_kind": kind, "content_hex": data.hex(),
            "file_hex": None if fbytes is None else fbytes.hex(),
            "found_by": "source tie: generated pickle_load and the hand-written model differ on these arguments"}
    ctx.seen(("tie-load", cname, kind, data, fbytes), nontrivial=bool(res["calls"]))
    direct_oracle(ctx, case, res, doc_allow)
    tie_converse(ctx, case, res, doc_allow)
    obs, wv = real_obs(res, True)
    targ = "TNone" if kind == "none" else "(TBytes %s)" % coq_bytes(data) if kind == "bytes" else "(TStr %s)" % core.coq_pystr(data.decode("ascii"))
    expr = "sx_result %s (h_load %s %s %s)" % (core.coq_bool(wv), coq_world(ci), targ,
                                               "None" if fbytes is None else "(Some %s)" % coq_bytes(fbytes))
    return (expr, obs, case)


def on_source_tie_break(ctx, name, rec):
    """the tie is not intact: look for a concrete input on which the definitions generated from the current source and the
    hand-written model differ, and judge it like any generated case (direct oracle -> ctx.fail, model / implementation
    disagreement -> correspondence break).  Never fails by itself."""
    out = {"status": rec.get("status")}
    if rec.get("status") in ("translator-rejected", "generated-model-does-not-compile") or \
            not os.path.exists(os.path.join(ctx.scratch, "srctie", "PickleGen.vo")):
        out["searched"] = ("nothing to compare (no generated definitions); the decision, program and byte streams of this run use "
                           "their thorough-size budgets")
        return out
    install_sentinels()
    try:
        cfgs = configs()
        pairs = tie_pairs(cfgs)
        loads = tie_loads()
        pids = list(TIE_PIDS)
        diff, err = _tie_eval(ctx, cfgs, pairs, loads, pids)
        out["compared"] = {"find_class pairs x configurations": len(pairs) * (len(cfgs) + 1), "pickle_load argument variants x configurations":
                           len(loads) * len(cfgs), "persistent ids": len(pids) + 6}
        if diff is None:
            out["error"] = "the differencing file did not evaluate: " + (err or "")
            return out
        out["differences"] = diff["totals"]
        cases, first = [], []
        header = world_header(cfgs) + "\n" + H_LOAD_DEF
        budget = 6          # differing inputs judged on the implementation, per definition and configuration
        for ci, idxs in sorted(diff["fc"].items()):
            for i in idxs[:budget]:
                m, n = pairs[i]
                first.append({"definition": "find_class", "config": cfgs[ci][0], "module": m, "name": n})
                cases.append(tie_decision_case(ctx, ci, cfgs[ci], m, n))
                c = program_case(ctx, ci, cfgs[ci], global_payload(m, n), [], [], True,
                                 {"kind": "program", "proto": 0, "mutated": False, "hostile": 0.0, "source_tie": True})
                if c is not None:
                    tie_converse(ctx, c[2], real_load(bytes.fromhex(c[2]["bytes_hex"]), cfgs[ci][1]), effective_allow_py(cfgs[ci][1]))
                    cases.append(c)
        for i in diff["fc_absent"][:budget]:
            m, n = pairs[i]
            first.append({"definition": "find_class after __init__ without safe_to_import", "module": m, "name": n})
            cases.append(tie_decision_case(ctx, 0, cfgs[0], m, n))
        for ci, idxs in sorted(diff["load"].items()):
            for i in idxs[:budget]:
                k, d, f = loads[i]
                first.append({"definition": "pickle_load", "config": cfgs[ci][0], "content_kind": k, "content_hex": d.hex(),
                              "file_hex": None if f is None else f.hex()})
                cases.append(tie_load_case(ctx, ci, cfgs[ci], k, d, f))
        for i in diff["pid"][:budget]:
            if i < len(pids):
                p = pids[i]
                first.append({"definition": "persistent_load", "pid": p})
                plain = p and all(32 <= ord(c) < 127 for c in p)
                ops = [("PERSID", p), ("STOP",)] if plain else [("PROTO", 4), ("SHORT_BINUNICODE", p), ("BINPERSID",), ("STOP",)]
                for ops_ in (ops, [("PROTO", 4), ("SHORT_BINUNICODE", p), ("BINPERSID",), ("STOP",)]):
                    c = program_case(ctx, 0, cfgs[0], ops_, [], [], True,
                                     {"kind": "program", "proto": 0, "mutated": False, "hostile": 0.0, "source_tie": True})
                    if c is not None:
                        cases.append(c)
            else:
                first.append({"definition": "persistent_load", "pid": "non-str object #%d" % (i - len(pids))})
        if diff.get("pid_dump"):
            # the dumping side: judged by the own-dumps stream of run() (448 dumps incl. NoneType at type-change positions)
            first.append({"definition": "persistent_id", "objects": ["index %d of the id / object pool" % i for i in diff["pid_dump"][:6]],
                          "judged_by": "the own-dumps stream of this run"})
        out["first_differences"] = first[:12]
        out["judged_on_the_implementation"] = len(cases)
        b0 = len(ctx.breaks)
        if cases:
            ctx.coq_cases("c15_source_tie", header, cases, shard=150, label="source tie: inputs on which generated and hand-written model differ")
        # a differing input that is a property failure or a model / implementation disagreement was found: the ordinary
        # machinery reports it; otherwise run() escalates its streams
        out["located_on_the_implementation"] = bool(ctx.failures) or len(ctx.breaks) > b0
        return out
    finally:
        remove_sentinels()


# ---------------------------------------------------------------------------
# known findings
# ---------------------------------------------------------------------------

def _m_ext_cache(case):
    return case.get("kind") == "ext-cache" and case.get("ext") is True and (
        "boom" in case.get("called", []) or case.get("witness") == "coq")


MATCHERS = {"C15-EXT-CACHE": _m_ext_cache}


def run(ctx):
    install_sentinels()
    try:
        cfgs = configs()
        # allow-list text: the model's SAFE_TO_IMPORT is the implementation's
        from deepdiff.serialization import SAFE_TO_IMPORT
        ctx.coq_cases("c15_allowlist", world_header(cfgs),
                      [("SL (sx_sort (map sx_str SAFE_TO_IMPORT))", core.sx_sorted(sorted(SAFE_TO_IMPORT)), {"kind": "allow-list"})],
                      label="SAFE_TO_IMPORT")
        mods, found = lookup_tables(set(SAFE_TO_IMPORT))
        ctx.coq_cases("c15_defaultworld", world_header(cfgs),
                      [("sx_default_world", [core.sx_sorted(mods), core.sx_sorted([[m, n, k] for m, n, k in found])],
                        {"kind": "default-world"})], label="default world tables")
        # a source tie that is not intact (the model fragment regenerated from the current source is no longer proved equal to
        # the hand-written model) escalates the streams that exercise that fragment to their thorough-size budgets
        tie_rec = ctx.source_ties.get("unpickler") or {}
        located = bool((tie_rec.get("search") or {}).get("located_on_the_implementation"))
        big = ctx.thorough or (ctx.tie_broken("unpickler") and not located)
        if big and not ctx.thorough:
            ctx.note("escalated", "source tie 'unpickler' not intact: decision / program / byte streams run with thorough-size budgets")
        decision_part(ctx, cfgs if big else cfgs[:4], max_modules=None if big else 400)
        fixed_programs(ctx, cfgs)
        own_dumps_part(ctx)
        programs_part(ctx, cfgs, 12000 if big else 2400)
        bytes_part(ctx, cfgs, 8000 if big else 1200, PROGRAM_BYTES)
    finally:
        remove_sentinels()


def replay(ctx, data):
    install_sentinels()
    try:
        case = data.get("case", {})
        cfgs = configs()
        if case.get("kind") == "own-dump":
            print("replay: own dump of a delta holding %s at position %s, bidirectional=%s" % (
                case.get("type"), case.get("position"), case.get("bidirectional")))
            own_dump_one(ctx, case["value"], case["position"], case.get("bidirectional", False))
        elif case.get("kind") == "decision":
            from deepdiff.serialization import _RestrictedUnpickler, ForbiddenModule
            cfg = [c for c in cfgs if c[0] == case["config"]][0]
            u = _RestrictedUnpickler(io.BytesIO(b"N."), safe_to_import=cfg[1])
            m, n = case["module"], case.get("name", "")
            try:
                u.find_class(m, n)
                verdict = "resolved"
            except ForbiddenModule:
                verdict = "forbidden"
            except BaseException as e:  # noqa
                verdict = "passed:" + type(e).__name__
            member = ("%s.%s" % (m, n)) in effective_allow_py(cfg[1])
            print("replay: find_class(%r, %r) under safe_to_import=%r -> %s; member of the allow-list: %s" % (m, n, cfg[1], verdict, member))
            ctx.evaluations += 1
            if (verdict != "forbidden") != member:
                ctx.fail(case, "find_class decision differs from allow-list membership for %s.%s" % (m, n))
        elif case.get("kind") == "tie-load":
            cfg = [c for c in cfgs if c[0] == case["config"]][0]
            data = bytes.fromhex(case["content_hex"])
            content = None if case["content_kind"] == "none" else data if case["content_kind"] == "bytes" else data.decode("ascii")
            fb = None if case.get("file_hex") is None else io.BytesIO(bytes.fromhex(case["file_hex"]))
            FLAGS["touched"].clear()
            FLAGS["called"].clear()
            res = real_load(content, cfg[1], file_obj=fb, both=True)
            print("replay: pickle_load(content=%r, file_obj=%s, safe_to_import=%r): outcome=%s find_class calls=%r" % (
                content, "None" if fb is None else "BytesIO(%r)" % bytes.fromhex(case["file_hex"]), cfg[1], res["exc"] or "ok", res["calls"]))
            ctx.evaluations += 1
            direct_oracle(ctx, case, res, effective_allow_py(cfg[1]))
            tie_converse(ctx, case, res, effective_allow_py(cfg[1]))
        elif "bytes_hex" in case:
            cfg = [c for c in cfgs if c[0] == case["config"]][0]
            FLAGS["touched"].clear()
            FLAGS["called"].clear()
            if str(case.get("entry", "")).startswith("pickle_load(file_obj"):
                fn = os.path.join(ctx.scratch, "c15_stream.bin")
                with open(fn, "wb") as f:
                    f.write(bytes.fromhex(case["bytes_hex"]))
                with open(fn, "rb") as f:
                    res = real_load(None, cfg[1], file_obj=f)
                case = dict(case)
                case.pop("entry")
            else:
                res = real_load(bytes.fromhex(case["bytes_hex"]), cfg[1])
            print("replay: outcome=%s find_class calls=%r persistent ids=%r sentinel touched=%r called=%r" % (
                res["exc"] or "ok", res["calls"], res["pids"], FLAGS["touched"], FLAGS["called"]))
            ctx.evaluations += 1
            for pid, got in res["pids"]:
                want_nonetype = type(pid) is str and pid == "<<NoneType>>"
                if (want_nonetype and got is not type(None)) or (not want_nonetype and got is not None):
                    ctx.fail(case, "persistent_load(%r) produced %r" % (pid, got))
            allow = effective_allow_py(cfg[1])
            if case.get("entry"):
                from deepdiff import Delta
                import logging
                logging.disable(logging.CRITICAL)
                data = bytes.fromhex(case["bytes_hex"])
                fn = os.path.join(ctx.scratch, "c15_payload.bin")
                with open(fn, "wb") as f:
                    f.write(data)

                def via(kind):
                    if kind == "bytes":
                        return Delta(data, safe_to_import=cfg[1])
                    if kind == "path":
                        return Delta(delta_path=fn, safe_to_import=cfg[1])
                    with open(fn, "rb") as f:
                        return Delta(delta_file=f, safe_to_import=cfg[1])
                r2 = real_via(via, case["entry"])
                print("replay: Delta(%s): outcome=%s find_class calls=%r" % (case["entry"], r2["exc"] or "ok", r2["calls"]))
                if [c[:2] for c in r2["calls"]] != [c[:2] for c in res["calls"]] or (res["cls"] != "ok" and r2["exc"] != res["exc"]) \
                        or (res["cls"] == "ok" and r2["exc"] in ("ForbiddenModule", "ModuleNotFoundError")) \
                        or [c[2] for c in r2["calls"]] != [c[2] for c in res["calls"]]:
                    ctx.fail(case, "Delta(%s) does not go through the same restricted load as pickle_load" % case["entry"])
            if case.get("converse"):
                tie_converse(ctx, case, res, allow)
            bad = [(m, n) for m, n, r in res["calls"] if "%s.%s" % (m, n) not in allow]
            if any(r for m, n, r in res["calls"] if "%s.%s" % (m, n) not in allow) or (bad and res["exc"] != "ForbiddenModule") \
                    or FLAGS["touched"] or FLAGS["called"]:
                ctx.fail(case, "the load resolved / touched a forbidden global")
        else:
            run(ctx)
    finally:
        remove_sentinels()

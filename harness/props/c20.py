"""C20 - CLI: `deep diff A B --create-patch` then `deep patch A <patch>` reproduces
B in A; --backup keeps the previous content in A.bak; a failure while writing
leaves A with its original content and no stray backup.

proof:           coq/theories/Cli/{FsModel,FsProofs}.v, Properties/C20.v
correspondence:  the real CLI (click.testing.CliRunner on deepdiff.commands.diff /
                 patch) in a fresh temp directory, on generated pairs of JSON
                 documents, with / without --backup and --debug, with faults
                 injected by monkeypatching at every primitive step of the
                 patch command (open / read / close of the inputs, Delta.__add__,
                 os.rename, open(A,'w'), json_dumps, write, close, the restoring
                 os.rename, os.remove) - single faults at every point, pairs and
                 triples of faults, Exception and KeyboardInterrupt kinds;
                 observables: content of A, A.bak, B, the patch file, exit status
                 / propagating exception.  A second stream calls
                 save_content_to_path directly from degenerate initial states
                 (A missing, A.bak already there, unserialisable content).
                 The model (Cli/FsModel.v) is evaluated in Coq on the same
                 schedule (ctx.coq_cases).
direct oracle:   the statement on the real CLI: after a fault-free run A loads equal
                 to B, backup kept iff --backup (with the original bytes); after a
                 single Exception-fault up to and including close A has its
                 original bytes, no A.bak, non-zero exit; in every scenario the
                 original bytes survive in A or A.bak.
"""
import builtins
import copy
import io
import json
import multiprocessing as mp
import os
import random
import shutil
import sys
import tempfile

from harness import core

THEOREM_FILE = "Properties/C20.v"
COQCHK = ["Properties.C20"]
RULE = ("one case = one invocation of the real `deep patch` (or of save_content_to_path) under one fault schedule; "
        "pairs of JSON documents are generated (nested dict/list/str/int/float/bool/null, depth <= 4; B = edit script on A: "
        "key added/removed, value/type change, list insert/delete/append, nested edit, root replacement; or independent; or identical); "
        "fault schedules: none, every single fault point x {Exception, KeyboardInterrupt} x {--backup} x {--debug}, "
        "pairs (all, for a subset of document pairs) and random triples; document pools include member names beginning/ending with one kind of quote character, non-ASCII / astral / unpaired-surrogate text in values and names, 400-digit integers and out-of-range floats (1e999 = inf) with int<->float changes whose constructor call overflows; a separate-process stream runs the CLI under LC_ALL=C PYTHONUTF8=0 on documents with non-ASCII text; plus a round-trip-only stream (fault-free diff -> patch through the real CLI, 900 quick / 6000 thorough pairs): scalar lists related by insert/delete/replace/move/dup/rotate edit scripts (values.gen_atom_list_pair, JSON alphabets keeping 1/true/1.0 apart) and 'inserts in front of an unchanged run + deletes behind it', planted under 0-2 dict/list levels; non-trivial = a fault fired or A != B; "
        "distinct = distinct (A text, B text, flags, schedule)")
TRUSTED = [
    "the file system is modelled abstractly (path -> option content) with POSIX semantics: os.rename is atomic, replaces an existing regular file, "
    "raises when the source is missing; a failing rename/remove changes nothing; directories, symlinks, permissions, hard links, concurrent writers and Windows "
    "(os.rename onto an existing file raises there) are not modelled",
    "buffering inside the file object is abstracted: what is on disk at A after a failing open/write/close is an unconstrained parameter of the fault",
    "only the json file type of _save_content is modelled (yaml/toml/csv/pickle branches have the same shape but are not covered)",
    "the clause 'patch reproduces B': for JSON documents the C01 premise is discharged (C20_patch_reproduces_json_docs, guards wf + alias-free + no '__' keys); "
    "still premises: the C01 oracle conditions, conv_json_ok (list(x)/dict(x) on JSON values), unpickle(pickle d) = d (C14, not connected) and the JSON dump/load round trip; "
    "path rendering/parsing (C09) is outside the Delta model",
]
ASSUMPTIONS = [
    "keys starting with '__' are ignored by `deep diff` by default (ignore_private_variables): generated documents avoid them",
    "nan/inf and ints beyond 64 bit are outside the generated universe (non-standard JSON / serialiser dependent)",
    "fault injection is by monkeypatching builtins.open, os.rename/os.replace, os.remove/os.unlink, deepdiff.serialization.json_dumps, Delta.__add__ "
    "and the file object's read/write/close; a rewrite of the save path that uses other primitives would need the injector extended",
]

STEPS = ["load_delta", "load_doc", "apply", "backup", "open", "dumps", "write", "close", "restore", "remove"]
COQ_STEP = {"load_delta": "SLoadDelta", "load_doc": "SLoadDoc", "apply": "SApply", "backup": "SBackup",
            "open": "SOpen", "dumps": "SDumps", "write": "SWrite", "close": "SClose",
            "restore": "SRestore", "remove": "SRemove"}
# (step, variant): how the fault is produced
POINTS = [("load_delta", "open"), ("load_doc", "open"), ("load_doc", "read"), ("load_doc", "close"),
          ("apply", "call"), ("backup", "call"), ("open", "nocreate"), ("open", "created"),
          ("dumps", "call"), ("write", "nothing"), ("write", "half"),
          ("close", "after"), ("close", "garbage"), ("close", "vanish"),
          ("restore", "call"), ("remove", "call")]
SAVE_STEPS_UP_TO_CLOSE = {"backup", "open", "dumps", "write", "close"}
PRE_STEPS = {"load_delta", "load_doc", "apply"}
ESC = "\U0001d1c0"


# --------------------------------------------------------------------------
# generated documents
# --------------------------------------------------------------------------

PLAIN_KEYS = ["a", "b", "c", "d", "k1", "key 2", "x.y", "a'b", 'a"b', "a]b", "[0]", "1", "", "é", "root", "A", "id",
              "old_type", "new_type", "values_changed", "old_value", "new_value", "new_path",
              # member names that begin / end with ONE kind of quote character (both kinds in one key = finding K5)
              '15"', "users'", "'90s", '"q', "'", '"', "'a'", '"a"', "it's", 'say "hi"',
              # non-ASCII, astral and unpaired-surrogate names (json.loads accepts "\ud83d")
              "caf\u00e9", "\u65e5\u672c", "\U0001F600", "\ud83d", "x\udc00"]
HOSTILE_KEYS = ["q'\"", "k" + ESC]
STRS = ["", "x", "abc", "abd", "line1\nline2\nline3", "line1\nline2\nline4", "int", "str", "NoneType", "é中", "a'b", "True", "1", " ",
        "caf\u00e9", "\U0001F600 \u65e5\u672c", "\ud83d", "\udc00x", "a\ud800b", 'q"', "'q"]
HUGE = 10 ** 400 + 12345            # float(HUGE) raises OverflowError
INF = float("inf")                  # what json.loads gives for 1e999; int(INF) raises OverflowError


def gen_scalar(rng):
    r = rng.random()
    if r < 0.3:
        return rng.choice([0, 1, 2, 3, -1, 7, 10, 255, -1000, 2 ** 31, 2 ** 53 + 1, -2 ** 63, HUGE, -HUGE, 10 ** 400])
    if r < 0.45:
        return rng.choice([0.0, 1.0, 1.5, -2.5, 0.1, 0.30000000000000004, 1e100, 1e-100, 3.141592653589793, INF, -INF, 1e308])
    if r < 0.55:
        return rng.choice([True, False])
    if r < 0.63:
        return None
    return rng.choice(STRS)


def gen_key(rng, hostile):
    if hostile and rng.random() < 0.5:
        return rng.choice(HOSTILE_KEYS)
    return rng.choice(PLAIN_KEYS)


def gen_doc(rng, depth, hostile=False, root=False):
    r = rng.random()
    if root and r < 0.25:
        r = 0.25 + 0.7 * rng.random()          # the root is a scalar only rarely
    if depth <= 0 or r < 0.25:
        return gen_scalar(rng)
    if r < 0.65:
        d = {}
        for _ in range(rng.randint(0, 4)):
            d[gen_key(rng, hostile)] = gen_doc(rng, depth - 1, hostile)
        return d
    return [gen_doc(rng, depth - 1, hostile) for _ in range(rng.randint(0, 5))]


def positions(doc, path=()):
    """all container positions (paths to dicts / lists)"""
    out = []
    if isinstance(doc, dict):
        out.append(path)
        for k, v in doc.items():
            out += positions(v, path + (k,))
    elif isinstance(doc, list):
        out.append(path)
        for i, v in enumerate(doc):
            out += positions(v, path + (i,))
    return out


def get_at(doc, path):
    for p in path:
        doc = doc[p]
    return doc


def edit_once(rng, doc, hostile):
    """one edit on a deep copy; returns (new_doc, kind)"""
    doc = copy.deepcopy(doc)
    pos = positions(doc)
    if not pos or rng.random() < 0.07:
        return gen_doc(rng, 2, hostile), "root_replaced"
    c = get_at(doc, rng.choice(pos))
    if isinstance(c, dict):
        op = rng.choice(["add", "remove", "change", "type", "nest"])
        if op == "add" or not c:
            c[gen_key(rng, hostile) + rng.choice(["", "", "_n"])] = gen_doc(rng, 2, hostile)
            return doc, "key_added"
        k = rng.choice(list(c))
        if op == "remove":
            del c[k]
            return doc, "key_removed"
        if op == "change":
            c[k] = gen_scalar(rng)
            return doc, "value_changed"
        if op == "type":
            if isinstance(c[k], (int, float)) and not isinstance(c[k], bool) and rng.random() < 0.5:
                # int <-> float, including values the other type cannot hold
                c[k] = rng.choice([1.5, 2.0, INF]) if isinstance(c[k], int) else rng.choice([3, HUGE, 0])
                return doc, "number_type_changed"
            c[k] = rng.choice([[c[k]], {"w": c[k]}, str(c[k]), None, [], {}])
            return doc, "type_changed"
        c[k] = gen_doc(rng, 2, hostile)
        return doc, "subtree_replaced"
    op = rng.choice(["insert", "delete", "append", "change", "type", "swap"])
    if op == "insert" or not c:
        c.insert(rng.randint(0, len(c)), gen_doc(rng, 1, hostile))
        return doc, "list_insert"
    i = rng.randrange(len(c))
    if op == "delete":
        del c[i]
        return doc, "list_delete"
    if op == "append":
        c.append(gen_doc(rng, 1, hostile))
        return doc, "list_append"
    if op == "change":
        c[i] = gen_scalar(rng)
        return doc, "list_item_changed"
    if op == "type":
        if isinstance(c[i], (int, float)) and not isinstance(c[i], bool) and rng.random() < 0.5:
            c[i] = rng.choice([1.5, 2.0, INF]) if isinstance(c[i], int) else rng.choice([3, HUGE, 0])
            return doc, "number_type_changed"
        c[i] = rng.choice([[c[i]], {"w": c[i]}, None])
        return doc, "type_changed"
    j = rng.randrange(len(c))
    c[i], c[j] = c[j], c[i]
    return doc, "list_swap"


def gen_pair(rng):
    hostile = rng.random() < 0.06
    a = gen_doc(rng, rng.choice([1, 2, 3, 4]), hostile, root=rng.random() < 0.93)
    r = rng.random()
    if r < 0.08:
        return a, copy.deepcopy(a), ["identical"]
    if r < 0.2:
        return a, gen_doc(rng, rng.choice([1, 2, 3]), hostile, root=True), ["independent"]
    b, kinds = a, []
    for _ in range(rng.choice([1, 1, 2, 3, 5])):
        b, k = edit_once(rng, b, hostile)
        kinds.append(k)
    return a, b, kinds


# JSON-representable alphabets for planted scalar-list edits (1 / True / 1.0 are equal for difflib: kept apart)
LIST_ALPHABETS = [["a", "b", "c", "d"], [1, 2, 3, 4], ["a", 2, None, 2.5], ["x", "y"], [True, False, None, "t"],
                  ["p", "q", "a", "b", "c", "x"], [0.5, 1.5, "a", 7], ["a", "b"], [0, 3, "0", "3"]]


def plant_json(rng, depth, a, b):
    """wrap (a, b) identically into `depth` JSON dict/list levels (the difference sits below a common path)"""
    for _ in range(depth):
        if rng.random() < 0.5:
            pre = [gen_scalar(rng) for _ in range(rng.randint(0, 2))]
            post = [gen_scalar(rng) for _ in range(rng.randint(0, 1))]
            a, b = copy.deepcopy(pre) + [a] + copy.deepcopy(post), copy.deepcopy(pre) + [b] + copy.deepcopy(post)
        else:
            key = rng.choice(["l", "k", "k2", "1", "old_value", "new_value", "a.b"])
            a, b = {key: a, "z": 0}, {key: b, "z": 0}
    return a, b


def gen_list_pair(rng):
    """scalar lists related by insert/delete/replace/move/dup/rotate edits (harness.values.gen_atom_list_pair),
    planted under 0-2 container levels: the shapes on which DeepDiff keeps the difflib opcodes"""
    from harness import values
    x, y, kinds = values.gen_atom_list_pair(rng, maxlen=rng.choice([4, 6, 8, 12]), alphabet=rng.choice(LIST_ALPHABETS))
    if rng.random() < 0.35:
        # inserts in front of an unchanged run and deletes behind it (removed t1 index = added t2 index, not adjacent)
        alpha = rng.choice(LIST_ALPHABETS)
        run = [rng.choice(alpha) for _ in range(rng.randint(1, 5))]
        x = list(run)
        for _ in range(rng.randint(1, 2)):
            x.insert(rng.randint(1, len(x)), "DEL%d" % rng.randrange(3))
        y = ["INS%d" % i for i in range(rng.randint(1, 3))] + list(run)
        if rng.random() < 0.3:
            y.append("TAIL")
        kinds = ["front_inserts_back_deletes"]
    a, b = plant_json(rng, rng.choice([0, 1, 1, 2]), x, y)
    return a, b, ["list:" + k for k in (kinds or ["none"])]


NUMBER_LEAVES = [(HUGE, 1.5), (-HUGE, 2.0), (10 ** 400, 0.5), (INF, 3), (-INF, 0), (INF, HUGE), (1.5, HUGE), (3, INF), (HUGE, INF),
                 ([HUGE, 1], [2.5, 1]), ([INF, "a"], [7, "a"]), ({"v": HUGE}, {"v": 1e308}), (1e308, HUGE), (HUGE, "s"), (INF, None)]


def gen_number_pair(rng):
    """int <-> float changes whose constructor call (float(old) / int(old)) overflows, planted under 0-2 levels"""
    x, y = copy.deepcopy(rng.choice(NUMBER_LEAVES))
    a, b = plant_json(rng, rng.choice([0, 1, 1, 2]), x, y)
    return a, b, ["number:overflowing_type_change"]


FIXED_PAIRS = [
    ({"l": ["a", "x", "b", "c"]}, {"l": ["p", "q", "a", "b", "c"]}),       # added t2 index == removed t1 index, not adjacent
    ({"old_value": 1, "new_value": [1, 2]}, {"old_value": 2, "new_value": [2], "new_path": "x"}),
    ({"a": 1, "b": [1, 2, 3]}, {"a": 2, "b": [1, 3], "c": None}),
    ({"a": 1}, [1, 2]),
    ([1, 2, 3], {"a": 1}),
    (1, 2),
    ({}, []),
    ({"a": [1, 2, 3, 4]}, {"a": [9, 8, 1, 2, 3, 4]}),
    ({"a": {"1": [1, {"b": 2}]}}, {"a": {"1": [1, {"b": 3}], "z": "line1\nline2"}}),
    ({"old_type": "int", "new_type": "str"}, {"old_type": "int", "new_type": "float", "x": 1}),   # C20-TYPEHOOK
    ({"old_type": 1, "new_type": {}}, {"old_type": 1, "new_type": {}, "x": 1}),                    # C20-TYPEHOOK (valid JSON fails to load)
    ({"q'\"": 1}, {"q'\"": 2}),                                                                       # C20-K5
    ({"k" + ESC: 1}, {"k" + ESC: 2}),                                                                # C20-K6
    # serialisation of the patched document: unpaired surrogate, non-ASCII and astral text in values and names
    ({"a": "x", "l": ["y"]}, {"a": "\ud83d", "caf\u00e9": "\U0001F600", "l": ["y", "\u65e5\u672c\udc00"], "\ud83d": 1}),
    # member names beginning / ending with one kind of quote character, on the path of a difference
    ({'15"': 1, "users'": [1], "'90s": {"x": 1}, '"q': 0, "'a'": [0]}, {'15"': 2, "users'": [1, 2], "'90s": {"x": 2}, '"q': None, "'a'": [0, {"'": 1}]}),
    # number type changes whose constructor call overflows: float(10**400), int(inf)
    ({"n": HUGE, "m": INF, "l": [HUGE, 1], "k": -INF}, {"n": 1.5, "m": 3, "l": [2.5, 1], "k": 0}),
    ({"n": 1.5, "m": 3}, {"n": HUGE, "m": INF}),
]


_INF_RE = None


def json_src(doc, **kw):
    """JSON source text of a document; infinities are written as the (syntactically valid) out-of-range
    numbers 1e999 / -1e999 rather than Python's Infinity token"""
    global _INF_RE
    import re
    if _INF_RE is None:
        _INF_RE = re.compile(r'(?<![\w"\\])(-?)Infinity(?![\w"])')
    return _INF_RE.sub(lambda m: m.group(1) + "1e999", json.dumps(doc, **kw))


def a_text_of(doc, rng):
    """A's bytes: never the canonical json.dumps text (so 'original bytes' and
    'rewritten with the same document' are distinguishable)."""
    style = rng.randrange(3)
    if style == 0:
        return json_src(doc, indent=1) + "\n "
    if style == 1:
        return json_src(doc, separators=(",", ":")) + "\n \n"
    t = " " + json_src(doc, ensure_ascii=False, indent=3) + "\n "
    try:
        t.encode("utf-8")
        return t
    except UnicodeEncodeError:          # unpaired surrogates can only be written as \uXXXX escapes
        return " " + json_src(doc, indent=3) + "\n "


# --------------------------------------------------------------------------
# fault injection
# --------------------------------------------------------------------------

class InjectedFault(OSError):
    pass


class InjectedInterrupt(KeyboardInterrupt):
    pass


_REAL = {"open": builtins.open, "rename": os.rename, "replace": os.replace, "remove": os.remove, "unlink": os.unlink}


def read_text(path):
    try:
        with _REAL["open"](path, "r", encoding="utf-8", newline="") as f:
            return f.read()
    except FileNotFoundError:
        return None
    except (IsADirectoryError, UnicodeDecodeError) as e:
        return "<unreadable:%s>" % type(e).__name__


class Injector:
    """plan: {step: (kind, variant)}; kind 'exc' | 'base'."""

    def __init__(self, A, P, plan):
        self.A, self.bak, self.P = A, A + ".bak", P
        self.plan = dict(plan)
        self.fired = {}      # step -> text on disk at A right after the failing step (None = absent)
        self.tags = {}       # id(exception) -> (kind, step)
        self.keep = []
        self.trace = []      # steps in the order the implementation attempts them
        self.nat = {}        # step -> (kind, text at A) for failures the OS / library produced by itself

    # -- exceptions ------------------------------------------------------
    def tag(self, e, step):
        if id(e) not in self.tags:
            self.tags[id(e)] = ("exc" if isinstance(e, Exception) else "base", step)
            self.keep.append(e)

    def due(self, step, variant=None):
        if not self.trace or self.trace[-1] != step:
            self.trace.append(step)
        p = self.plan.get(step)
        if p is None or step in self.fired:
            return None
        if variant is not None and p[1] != variant:
            return None
        return p

    def fire(self, step):
        kind = self.plan[step][0]
        self.fired[step] = read_text(self.A)
        e = InjectedFault("injected fault at %s" % step) if kind == "exc" else InjectedInterrupt("injected interrupt at %s" % step)
        self.tag(e, step)
        raise e

    def natural(self, step, f, *a, **k):
        try:
            return f(*a, **k)
        except BaseException as e:
            self.tag(e, step)
            self.nat.setdefault(step, ("exc" if isinstance(e, Exception) else "base", read_text(self.A)))
            raise

    # -- patched primitives -----------------------------------------------
    def _path(self, p):
        try:
            return os.fspath(p) if isinstance(p, (str, os.PathLike)) else None
        except TypeError:
            return None

    def rename(self, src, dst, *a, **k):
        s, d = self._path(src), self._path(dst)
        if s == self.A and d == self.bak:
            step = "backup"
        elif s == self.bak and d == self.A:
            step = "restore"
        else:
            return _REAL["rename"](src, dst, *a, **k)
        if self.due(step):
            self.fire(step)
        return self.natural(step, _REAL["rename"], src, dst, *a, **k)

    def remove(self, p, *a, **k):
        if self._path(p) != self.bak:
            return _REAL["remove"](p, *a, **k)
        if self.due("remove"):
            self.fire("remove")
        return self.natural("remove", _REAL["remove"], p, *a, **k)

    def open(self, file, mode="r", *a, **k):
        p = self._path(file)
        if p == self.P:
            if self.due("load_delta"):
                self.fire("load_delta")
            return _REAL["open"](file, mode, *a, **k)
        if p != self.A:
            return _REAL["open"](file, mode, *a, **k)
        if any(c in mode for c in "wax+"):
            if self.due("open"):
                if self.plan["open"][1] == "created":
                    _REAL["open"](file, mode, *a, **k).close()
                self.fire("open")
            return _WProxy(self.natural("open", _REAL["open"], file, mode, *a, **k), self)
        if self.due("load_doc", "open"):
            self.fire("load_doc")
        return _RProxy(_REAL["open"](file, mode, *a, **k), self)

    def json_dumps(self, *a, **k):
        if self.due("dumps"):
            self.fire("dumps")
        return self.natural("dumps", self._real_json_dumps, *a, **k)

    def delta_add(self, dself, other):
        if self.due("apply"):
            self.fire("apply")
        return self._real_add(dself, other)

    # -- install / remove ---------------------------------------------------
    def __enter__(self):
        import deepdiff.serialization as ser
        import deepdiff.delta as dl
        self._ser, self._dl = ser, dl
        self._real_json_dumps = ser.json_dumps
        self._real_add = dl.Delta.__add__
        inj = self
        builtins.open = self.open
        io.open = self.open
        os.rename = self.rename
        os.replace = self.rename
        os.remove = self.remove
        os.unlink = self.remove
        ser.json_dumps = self.json_dumps
        dl.Delta.__add__ = lambda dself, other: inj.delta_add(dself, other)
        return self

    def __exit__(self, *exc):
        builtins.open = _REAL["open"]
        io.open = _REAL["open"]
        os.rename = _REAL["rename"]
        os.replace = _REAL["replace"]
        os.remove = _REAL["remove"]
        os.unlink = _REAL["unlink"]
        self._ser.json_dumps = self._real_json_dumps
        self._dl.Delta.__add__ = self._real_add
        return False


class _Proxy:
    def __init__(self, real, inj):
        self._real, self._inj, self._closed = real, inj, False

    def __enter__(self):
        return self

    def __exit__(self, *a):          # io.IOBase.__exit__ is `self.close()`
        self.close()

    def __iter__(self):
        return iter(self._real)

    def __getattr__(self, n):
        return getattr(self._real, n)


class _RProxy(_Proxy):
    def read(self, *a):
        if self._inj.due("load_doc", "read"):
            self._inj.fire("load_doc")
        return self._real.read(*a)

    def close(self):
        if self._closed:
            return self._real.close()
        self._closed = True
        self._real.close()
        if self._inj.due("load_doc", "close"):
            self._inj.fire("load_doc")


class _WProxy(_Proxy):
    def write(self, s):
        inj = self._inj
        if inj.due("write"):
            if inj.plan["write"][1] == "half":
                self._real.write(s[:len(s) // 2])
                self._real.flush()
            inj.fire("write")
        return inj.natural("write", self._real.write, s)

    def close(self):
        inj = self._inj
        if self._closed:
            return self._real.close()
        self._closed = True
        if inj.due("close"):
            v = inj.plan["close"][1]
            self._real.close()
            if v == "garbage":
                with _REAL["open"](inj.A, "w") as f:
                    f.write("GARB")
            elif v == "vanish":
                _REAL["remove"](inj.A)
            inj.fire("close")
        return inj.natural("close", self._real.close)


# --------------------------------------------------------------------------
# running one scenario on the real CLI
# --------------------------------------------------------------------------

def _quiet():
    import logging
    logging.disable(logging.CRITICAL)


def run_diff(a_text, b_text, work):
    """`deep diff A B --create-patch` -> (exit_code, stdout bytes, exception repr)"""
    from click.testing import CliRunner
    from deepdiff.commands import diff
    d = tempfile.mkdtemp(dir=work)
    A, B = os.path.join(d, "a.json"), os.path.join(d, "b.json")
    with open(A, "w", encoding="utf-8", newline="") as f:
        f.write(a_text)
    with open(B, "w", encoding="utf-8", newline="") as f:
        f.write(b_text)
    r = CliRunner().invoke(diff, [A, B, "--create-patch"])
    out = r.stdout_bytes
    ok = read_text(A) == a_text and read_text(B) == b_text
    shutil.rmtree(d, ignore_errors=True)
    return r.exit_code, out, (repr(r.exception) if r.exception else None), ok


def run_patch(a_text, b_text, delta_bytes, keep, debug, plan, prebak, work):
    """One `deep patch` invocation in a fresh directory.  Returns the raw observation."""
    from click.testing import CliRunner
    from deepdiff.commands import patch
    d = tempfile.mkdtemp(dir=work)
    A, B, P = os.path.join(d, "a.json"), os.path.join(d, "b.json"), os.path.join(d, "delta.pickle")
    with open(A, "w", encoding="utf-8", newline="") as f:
        f.write(a_text)
    with open(B, "w", encoding="utf-8", newline="") as f:
        f.write(b_text)
    with open(P, "wb") as f:
        f.write(delta_bytes)
    if prebak == "dir":
        os.mkdir(A + ".bak")
        with open(os.path.join(A + ".bak", "x"), "w") as f:
            f.write("x")
    elif prebak:
        with open(A + ".bak", "w") as f:
            f.write("BAK0")
    args = [A, P] + (["--backup"] if keep else []) + (["--debug"] if debug else [])
    inj = Injector(A, P, plan)
    escaped = None
    with inj:
        try:
            r = CliRunner().invoke(patch, args)
        except BaseException as e:       # a BaseException that click does not convert
            r, escaped = None, e
    if r is None:
        cli = ["exc", inj.tags.get(id(escaped), (None, "untagged:" + type(escaped).__name__))[1]]
        output = ""
    else:
        output = r.output
        e = r.exception
        if e is None or isinstance(e, SystemExit):
            cli = ["exit", r.exit_code]
        else:
            cli = ["exc", inj.tags.get(id(e), (None, "untagged:" + type(e).__name__))[1]]
    with _REAL["open"](P, "rb") as f:
        p_same = f.read() == delta_bytes
    obs = {"A": read_text(A), "bak": read_text(A + ".bak"), "B": read_text(B), "P_same": p_same,
           "cli": cli, "fired": dict(inj.fired), "nat": dict(inj.nat), "output": output[-300:], "trace": list(inj.trace),
           "others": sorted(x for x in os.listdir(d) if x not in ("a.json", "a.json.bak", "b.json", "delta.pickle"))}
    shutil.rmtree(d, ignore_errors=True)
    return obs


def run_save_direct(a0, b0, content_ok, keep, plan, work):
    """save_content_to_path called directly from a possibly degenerate initial state."""
    from deepdiff.serialization import save_content_to_path, json_dumps
    d = tempfile.mkdtemp(dir=work)
    A, B = os.path.join(d, "a.json"), os.path.join(d, "b.json")
    if a0:
        with open(A, "w") as f:
            f.write("OLD-A")
    if b0:
        with open(A + ".bak", "w") as f:
            f.write("BAK0")
    with open(B, "w") as f:
        f.write("OTHER")
    content = {"n": [1, 2, {"x": None}]} if content_ok else {"n": object()}
    new_text = json_dumps(content) if content_ok else None
    inj = Injector(A, os.path.join(d, "nope"), plan)
    outcome = ["done"]
    with inj:
        try:
            save_content_to_path(content, A, file_type="json", keep_backup=keep)
        except BaseException as e:
            kind, step = inj.tags.get(id(e), ("exc" if isinstance(e, Exception) else "base", "untagged:" + type(e).__name__))
            outcome = ["raised", kind, step]
    obs = {"A": read_text(A), "bak": read_text(A + ".bak"), "B": read_text(B), "outcome": outcome,
           "fired": dict(inj.fired), "nat": dict(inj.nat), "new_text": new_text, "trace": list(inj.trace)}
    shutil.rmtree(d, ignore_errors=True)
    return obs


# --------------------------------------------------------------------------
# model terms
# --------------------------------------------------------------------------

def dumps_placement(trace):
    """where the implementation serialises, read off the call trace of a fault-free run"""
    if "dumps" not in trace:
        return None
    i = trace.index("dumps")
    if "backup" in trace and i < trace.index("backup"):
        return "DFirst"
    if "open" in trace and i < trace.index("open"):
        return "DBeforeOpen"
    return "DInside"


def coq_zlist(l):
    return "[" + "; ".join(core.coq_Z(x) for x in l) + "]"


def coq_opt_content(c):
    return "None" if c is None else "(Some %s)" % coq_zlist(c)


def coq_sched(plan, fired, code, nat=None):
    """the schedule given to the model: the planned faults (with the debris observed on disk when they fired)
    plus the failures the OS / library produced by itself (e.g. rename onto a directory)"""
    items = []
    nat = nat or {}
    for step in STEPS:
        if step in fired or (step in plan and step not in nat):
            kind = plan[step][0]
            disk = code(fired[step]) if step in fired else None
        elif step in nat:
            kind, disk = nat[step][0], code(nat[step][1])
        else:
            continue
        items.append("(%s, %s %s)" % (COQ_STEP[step], "fx" if kind == "exc" else "fb", coq_opt_content(disk)))
    return "[" + "; ".join(items) + "]"


def sx_file(c):
    return None if c is None else ["Some", list(c)]


def make_coder(table):
    """text -> integer content of the model; `table` maps known texts to codes."""
    def code(text):
        if text is None:
            return None
        if text == "":
            return []
        if text in table:
            return table[text]
        return [-99]
    return code


# --------------------------------------------------------------------------
# one document pair: all scenarios (runs in a worker process)
# --------------------------------------------------------------------------

def doc_eq(x, y):
    return x == y


# ---- the hypothesis of C20_patch_reproduces_json_docs, computed on the Python side ----

def atoms_py(doc):
    out = []
    if isinstance(doc, dict):
        for k, v in doc.items():
            out.append(k)
            out += atoms_py(v)
    elif isinstance(doc, list):
        for v in doc:
            out += atoms_py(v)
    else:
        out.append(doc)
    return out


def in_universe(doc):
    """representable in Base/Value.v: JSON containers, str keys, str/int/bool/None, half-integer floats"""
    for a in atoms_py(doc):
        if a is None or isinstance(a, (bool, str)) or (isinstance(a, int) and abs(a) < 10 ** 30):
            continue
        if isinstance(a, float) and a == a and abs(a) < 1e15 and (a * 2) == int(a * 2):
            continue
        return False
    return True


def json_guard_py(a, b):
    """alias-free (no two atoms that are == but not of the same type) and no '__' key; None = outside the universe"""
    if not (in_universe(a) and in_universe(b)):
        return None
    atoms = atoms_py(a) + atoms_py(b)
    for i, x in enumerate(atoms):
        for y in atoms[i + 1:]:
            if type(x) is not type(y) and x is not None and y is not None and not isinstance(x, str) and not isinstance(y, str) and x == y:
                return False
    for doc in (a, b):
        for k in keys_of(doc):
            if k.startswith("__"):
                return False
    return True


def keys_path_ok_py(a, b):
    """document-level guard of C20_patch_reproduces_json_docs_pickled: no key with both quote characters, none ending in U+1D1C0"""
    return all(not ("'" in k and '"' in k) and not k.endswith(ESC) for doc in (a, b) for k in keys_of(doc))


def payload_case(a, b, tag):
    """(coq expr, expected, tag): [keys_path_okb a && keys_path_okb b ; keys ok -> delta_okb d && wfp (pv_of_delta d)]
    for d = the model delta of (a, b) under the CLI's configuration with the oracle values recorded here
    (difflib opcodes, unified diffs, constructor calls)"""
    from deepdiff import DeepDiff
    from harness import values as V, diffcommon as D, deltacommon as DC
    tree = DeepDiff(copy.deepcopy(a), copy.deepcopy(b), view="tree")
    conv = DC.conv_table(DC.type_change_pairs(tree))
    ops = D.coq_ops_table(D.opcode_table(a, b))
    ta, tb = V.to_coq(a), V.to_coq(b)
    expr = ("(let d := mk_delta_json hatom_deep (tbl_udiff %s) (tbl_ops %s) %s (tbl_conv %s) %s %s in "
            "let k := keys_path_okb %s && keys_path_okb %s in "
            "SL [sx_bool k; sx_bool (implb k (delta_okb d && wfp (pv_of_delta d))); "
            "sx_bool (forallb (fun r : path * list opcode => ops_ok2 0 0 (snd r)) %s)])") % (
        D.coq_udiff_table(D.udiff_table(a, b)), ops, D.coq_cfg(False, 0.33, True), conv, ta, tb, ta, tb, ops)
    return (expr, [keys_path_ok_py(a, b), True, True],
            dict(tag, hypothesis="keys_path_okb (= Python guard); keys_path_okb -> delta_okb && wfp (theorem, recomputed); ops_sorted2 on the recorded difflib opcodes"))


# ---- the direct oracle: the property statement on the implementation, no reference to the model ----

def oracle_reference(a_text, b_text, keep, o):
    """fault-free run: [(clause, what)] for every clause of the statement that fails"""
    from deepdiff.serialization import json_loads
    out = []
    b_loaded = json_loads(b_text)
    try:
        loaded = json_loads(o["A"]) if o["A"] is not None else None
        load_err = None if o["A"] is not None else "A is missing"
    except Exception as e:
        loaded, load_err = None, repr(e)
    if o["cli"] != ["exit", 0]:
        out.append(("reproduces", "fault-free `deep patch` did not exit 0: %r %s" % (o["cli"], o["output"])))
    elif load_err or not doc_eq(loaded, b_loaded):
        out.append(("reproduces", "after diff --create-patch / patch, A does not load equal to B (A now: %.200r)" % (o["A"],)))
    if keep and o["bak"] != a_text:
        out.append(("backup", "--backup: A.bak does not hold the previous content of A (%.100r)" % (o["bak"],)))
    if not keep and o["bak"] is not None:
        out.append(("backup", "without --backup a stray A.bak remains"))
    if o["B"] != b_text or not o["P_same"] or o["others"]:
        out.append(("frame", "`deep patch` touched B, the patch file or created another file"))
    return out, loaded, load_err


def oracle_faulty(a_text, b_text, new_text, plan, prebak, o):
    """a run under a fault plan: what fails, or None"""
    cli = o["cli"]
    nfired = len(o["fired"])
    single_exc = (len(plan) == 1 and nfired == 1 and list(plan.values())[0][0] == "exc")
    step = list(plan)[0] if len(plan) == 1 else None
    if prebak == "dir":
        # the operating system refuses the first rename: a single natural failure
        if o["A"] != a_text or cli == ["exit", 0]:
            return "A.bak is a directory (rename fails): A lost its content or the failure was swallowed"
        return None
    if nfired == 0:
        if cli != ["exit", 0] or o["A"] != new_text:
            return "a run in which no fault was reached did not produce the patched content"
    elif single_exc and (step in SAVE_STEPS_UP_TO_CLOSE or step in PRE_STEPS):
        if o["A"] != a_text:
            return "a single failure at '%s' left A without its original content (A now: %.80r)" % (step, o["A"])
        if o["bak"] is not None and not prebak:
            return "a single failure at '%s' left a stray A.bak" % step
        if cli == ["exit", 0]:
            return "a single failure at '%s' was swallowed (exit status 0)" % step
    if cli != ["exit", 0] and a_text not in (o["A"], o["bak"]):
        return "`deep patch` reported a failure and the original content of A survives neither in A nor in A.bak"
    if cli == ["exit", 0] and o["A"] != new_text:
        return "`deep patch` exited 0 although A does not hold the patched content"
    if o["B"] != b_text or not o["P_same"] or o["others"]:
        return "`deep patch` touched B, the patch file or created another file"
    return None


def oracle_direct(a0, b0, ok, keep, o):
    """save_content_to_path called directly (faults may be natural: missing file, unserialisable content)"""
    out = o["outcome"]
    nfaults = len(o["fired"]) + (0 if ok or "dumps" in o["fired"] else 1)
    if a0 and out[0] == "raised" and "OLD-A" not in (o["A"], o["bak"]):
        return "save_content_to_path raised and lost the original content (neither in A nor in A.bak)"
    if a0 and out[0] == "done" and (o["A"] != o["new_text"] or (o["bak"] == "OLD-A") != keep):
        return "save_content_to_path returned normally without the new content in A / the backup kept iff keep_backup"
    if a0 and not b0 and out[0] == "raised" and out[1] == "exc" and nfaults == 1 and out[2] in SAVE_STEPS_UP_TO_CLOSE and \
            (o["A"] != "OLD-A" or o["bak"] is not None):
        return "a single failure at '%s' was not rolled back" % out[2]
    if a0 and nfaults == 0 and out[0] != "done":
        return "save_content_to_path raised although nothing failed"
    if o["B"] != "OTHER":
        return "an unrelated file was touched"
    return None


def keys_of(doc):
    out = []
    if isinstance(doc, dict):
        for k, v in doc.items():
            out.append(k)
            out += keys_of(v)
    elif isinstance(doc, list):
        for v in doc:
            out += keys_of(v)
    return out


def dicts_of(doc):
    out = []
    if isinstance(doc, dict):
        out.append(doc)
        for v in doc.values():
            out += dicts_of(v)
    elif isinstance(doc, list):
        for v in doc:
            out += dicts_of(v)
    return out


def schedules(rng, mode):
    """list of plans ({step: (kind, variant)}) for one (pair, flags)"""
    plans = [{}]
    for (s, v) in POINTS:
        for kind in ("exc", "base"):
            plans.append({s: (kind, v)})
    if mode in ("pairs", "all"):
        for i, (s1, v1) in enumerate(POINTS):
            for (s2, v2) in POINTS[i + 1:]:
                if s1 == s2:
                    continue
                for k1 in ("exc", "base"):
                    for k2 in ("exc", "base"):
                        plans.append({s1: (k1, v1), s2: (k2, v2)})
    n_rand = {"single": 6, "pairs": 40, "all": 150}[mode]
    for _ in range(n_rand):
        k = rng.choice([2, 3, 3, 4])
        pts = rng.sample(POINTS, k)
        plan = {}
        for (s, v) in pts:
            plan.setdefault(s, (rng.choice(["exc", "exc", "base"]), v))
        plans.append(plan)
    return plans


def pair_task(args):
    idx, a_doc, b_doc, a_text, kinds, mode, seed, scratch = args
    sys.path.insert(0, core.REPO)
    _quiet()
    from deepdiff.serialization import json_loads
    rng = random.Random(seed)
    work = tempfile.mkdtemp(prefix="p%d_" % idx, dir=scratch)
    b_text = json_src(b_doc, indent=2) + "\n"     # never the canonical text either
    res = {"cases": [], "fails": [], "counts": {}, "seen": [], "samples": [], "guard_cases": [], "payload_cases": []}

    def count(k, n=1):
        res["counts"][k] = res["counts"].get(k, 0) + n

    base_case = {"a_text": a_text, "b_text": b_text, "edit_kinds": kinds}
    rc, delta_bytes, dexc, untouched = run_diff(a_text, b_text, work)
    if rc != 0 or not untouched:
        res["fails"].append((dict(base_case, clause="diff", exit_code=rc, exception=dexc),
                             "`deep diff A B --create-patch` failed or modified its inputs (exit %r, %s)" % (rc, dexc)))
        shutil.rmtree(work, ignore_errors=True)
        return res
    a_loaded, b_loaded = json_loads(a_text), json_loads(b_text)
    try:
        guard = json_guard_py(a_loaded, b_loaded)
    except Exception:
        guard = None                     # e.g. type objects planted by the loader's object_hook
    count("json_guard:" + {True: "holds", False: "fails", None: "outside_universe"}[guard])
    if guard is not None:
        from harness import values
        try:
            res["payload_cases"].append(payload_case(a_loaded, b_loaded, base_case))
            count("payload_guard:keys_ok" if keys_path_ok_py(a_loaded, b_loaded) else "payload_guard:keys_K5_K6")
        except Exception as e:       # helper of another block failed on this pair: visible, not fatal
            count("payload_case_error:" + type(e).__name__)
        res["guard_cases"].append(("sx_bool (json_guardsb ex_cfg %s %s)" % (values.to_coq(a_loaded), values.to_coq(b_loaded)),
                                   guard, dict(base_case, hypothesis="json_guardsb")))
    ida = 1
    idb = 1 if doc_eq(a_loaded, b_loaded) else 2

    # reference (fault-free, uninstrumented) runs: property clauses 1 and 2
    new_text = None
    resid = None
    pos = None
    for keep in (False, True):
        o = run_patch(a_text, b_text, delta_bytes, keep, True, {}, False, work)
        case = dict(base_case, keep=keep, debug=True, faults={}, prebak=False)
        res["seen"].append((("ref", a_text, b_text, keep), idb != ida))
        fails, loaded, load_err = oracle_reference(a_text, b_text, keep, o)
        for (clause, what) in fails:
            res["fails"].append((dict(case, clause=clause, observed=o), what))
        if not any(c == "reproduces" for c, _ in fails):
            count("oracle:reproduces_ok")
            typed_same = json.dumps(loaded, sort_keys=True, default=repr) == json.dumps(b_loaded, sort_keys=True, default=repr)
            if not typed_same:
                count("note:equal_but_not_type_identical(1==1.0==True)")
            if guard is True:
                # conclusion of C20_patch_reproduces_json_docs: same JSON value, up to key order
                count("oracle:json_guard_holds_typed_checked")
                if not typed_same:
                    res["fails"].append((dict(case, clause="reproduces_typed", observed=o),
                                         "alias-free JSON documents: after patch A is ==-equal to B but not the same JSON value (types differ)"))
        if new_text is None:
            new_text = o["A"]
            pos = dumps_placement(o["trace"])
            if o["A"] is not None and not load_err:
                resid = idb if doc_eq(loaded, b_loaded) else (ida if doc_eq(loaded, a_loaded) else 3)
    if new_text is None or resid is None or pos is None:
        shutil.rmtree(work, ignore_errors=True)
        return res
    res["counts"]["placement:" + pos] = 1
    half = new_text[:len(new_text) // 2]
    table = {}
    # later entries win: the most specific meaning of a text is assigned last
    table["GARB"] = [-3]
    table["BAK0"] = [-9]
    table["<unreadable:IsADirectoryError>"] = [-8]
    if half:
        table[half] = [-4]
    table[b_text] = [idb]
    table[new_text] = [resid, resid]
    table[a_text] = [ida]
    code = make_coder(table)

    plans = schedules(rng, mode) if mode != "ref" else []
    flagsets = [(k, dbg, pb) for k in (False, True) for dbg in (False, True) for pb in (False,)]
    for plan in plans:
        fl = list(flagsets)
        if len(plan) <= 1:
            fl += [(False, True, True), (True, False, True)]      # A.bak already there
            if len(plan) == 0:
                fl += [(False, True, "dir"), (True, False, "dir")]    # A.bak is a directory: the OS itself fails the first rename
        elif mode != "all":
            fl = [rng.choice(flagsets)]
        for (keep, debug, prebak) in fl:
            o = run_patch(a_text, b_text, delta_bytes, keep, debug, plan, prebak, work)
            case = dict(base_case, keep=keep, debug=debug, prebak=prebak,
                        faults={s: list(kv) for s, kv in plan.items()})
            nfired = len(o["fired"])
            count("faults_fired:%d" % nfired)
            for s in o["fired"]:
                count("fired:%s/%s/%s" % (s, plan[s][1], plan[s][0]))
            res["seen"].append(((a_text, b_text, keep, debug, prebak, tuple(sorted(plan.items()))), nfired > 0 or idb != ida))
            # ---- correspondence case --------------------------------------
            expr = "show_pipeline %s %s %s (Some %s) %s %s %s %s" % (
                pos, core.coq_bool(keep), core.coq_bool(debug), coq_zlist([ida]),
                "(Some %s)" % coq_zlist([-8] if prebak == "dir" else [-9]) if prebak else "None",
                coq_zlist([idb]), core.coq_Z(resid), coq_sched(plan, o["fired"], code, o["nat"]))
            cli = o["cli"]
            exp = [sx_file(code(o["A"])), sx_file(code(o["bak"])), sx_file(code(o["B"])), bool(o["P_same"]),
                   [cli[0], cli[1]]]
            res["cases"].append((expr, exp, case))
            # ---- direct oracle (independent of the model) ------------------
            what = oracle_faulty(a_text, b_text, new_text, plan, prebak, o)
            if len(plan) == 1 and nfired == 1 and list(plan.values())[0][0] == "exc" and list(plan)[0] not in ("restore", "remove"):
                count("oracle:single_fault_checked")
            if what:
                res["fails"].append((dict(case, clause="restore", observed=o), what))
    if idx < 3:
        res["samples"].append({"A": a_text[:200], "B": b_text[:200], "edit_kinds": kinds, "new_A": new_text[:200],
                               "schedules": len(plans)})
    count("mode:" + mode)
    count("pairs:docs_equal" if ida == idb else "pairs:docs_differ")
    for k in kinds:
        count("edit:" + k)
    count("result:" + ("equals_B" if resid == idb else ("equals_A_not_B" if resid == ida else "neither")))
    shutil.rmtree(work, ignore_errors=True)
    return res


NONASCII = ["caf\u00e9", "\u65e5\u672c\u8a9e", "\U0001F600", "na\u00efve \u2013 \u20ac", "\u0416"]


def locale_task(args):
    """the real command line tool as a separate process under a non-UTF-8 preferred encoding
    (LC_ALL=C, PYTHONUTF8=0): `deep diff A B --create-patch > P ; deep patch A P`.  The files are pure
    ASCII (non-ASCII text is written as \\uXXXX escapes), the documents hold non-ASCII text."""
    import subprocess
    idx, a_doc, b_doc, keep, scratch = args
    res = {"cases": [], "fails": [], "counts": {}, "seen": [], "samples": [], "guard_cases": [], "payload_cases": []}
    d = tempfile.mkdtemp(prefix="loc%d_" % idx, dir=scratch)
    A, B, P = os.path.join(d, "a.json"), os.path.join(d, "b.json"), os.path.join(d, "delta.pickle")
    a_text, b_text = json_src(a_doc, indent=1) + "\n ", json_src(b_doc, indent=2) + "\n"
    for path, text in ((A, a_text), (B, b_text)):
        with open(path, "w", encoding="ascii") as f:
            f.write(text)
    env = {"PATH": os.environ.get("PATH", "/usr/bin:/bin"), "LC_ALL": "C", "LANG": "C", "PYTHONUTF8": "0", "PYTHONCOERCECLOCALE": "0",
           "PYTHONPATH": core.REPO, "PYTHONHASHSEED": "0", "PYTHONDONTWRITEBYTECODE": "1", core.GUARD: "1"}
    prog = ("import locale, sys, logging; logging.disable(logging.CRITICAL); "
            "sys.stderr.write('ENC=' + locale.getpreferredencoding(False) + '\\n'); "
            "from deepdiff.commands import cli; cli()")
    case = {"a_text": a_text, "b_text": b_text, "keep": keep, "debug": False, "faults": {}, "prebak": False,
            "locale": "LC_ALL=C PYTHONUTF8=0", "edit_kinds": ["locale"]}
    p1 = subprocess.run([sys.executable, "-c", prog, "diff", A, B, "--create-patch"], env=env, cwd=d,
                        stdout=subprocess.PIPE, stderr=subprocess.PIPE, timeout=120)
    enc = [l[4:] for l in p1.stderr.decode("ascii", "replace").splitlines() if l.startswith("ENC=")]
    res["counts"]["locale:preferred_encoding:" + (enc[0] if enc else "?")] = 1
    if p1.returncode != 0:
        res["fails"].append((dict(case, clause="diff", exit_code=p1.returncode, output=p1.stderr.decode("ascii", "replace")[-300:]),
                             "`deep diff A B --create-patch` failed under LC_ALL=C (exit %d)" % p1.returncode))
        shutil.rmtree(d, ignore_errors=True)
        return res
    with open(P, "wb") as f:
        f.write(p1.stdout)
    p2 = subprocess.run([sys.executable, "-c", prog, "patch", A, P] + (["--backup"] if keep else []), env=env, cwd=d,
                        stdout=subprocess.PIPE, stderr=subprocess.PIPE, timeout=120)
    with open(P, "rb") as f:
        p_same = f.read() == p1.stdout
    o = {"A": read_text(A), "bak": read_text(A + ".bak"), "B": read_text(B), "P_same": p_same,
         "cli": ["exit", p2.returncode], "fired": {}, "nat": {}, "trace": [],
         "output": (p2.stdout + p2.stderr).decode("ascii", "replace")[-300:],
         "others": sorted(x for x in os.listdir(d) if x not in ("a.json", "a.json.bak", "b.json", "delta.pickle"))}
    sys.path.insert(0, core.REPO)
    fails, _loaded, _err = oracle_reference(a_text, b_text, keep, o)
    for (clause, what) in fails:
        res["fails"].append((dict(case, clause=clause, observed=o), what + " [separate process, LC_ALL=C PYTHONUTF8=0]"))
    res["seen"].append((("locale", a_text, b_text, keep), True))
    res["counts"]["locale:runs"] = 1
    shutil.rmtree(d, ignore_errors=True)
    return res


def gen_locale_pair(rng):
    """a generated pair whose B (and sometimes A) holds non-ASCII text in values and member names"""
    a, b, _ = gen_pair(rng)
    if not isinstance(b, dict):
        b = {"doc": b}
    b = copy.deepcopy(b)
    b[rng.choice(["u", "caf\u00e9", "\U0001F600"])] = rng.choice(NONASCII)
    if rng.random() < 0.5:
        b["l"] = [rng.choice(NONASCII) for _ in range(rng.randint(1, 3))]
    if isinstance(a, dict) and rng.random() < 0.5:
        a = copy.deepcopy(a)
        a["\u00fc"] = rng.choice(NONASCII)
    return a, b


def direct_task(args):
    seed, mode, scratch = args
    sys.path.insert(0, core.REPO)
    _quiet()
    rng = random.Random(seed)
    work = tempfile.mkdtemp(prefix="d_", dir=scratch)
    res = {"cases": [], "fails": [], "counts": {}, "seen": [], "samples": []}
    save_points = [p for p in POINTS if p[0] not in PRE_STEPS]
    pos = dumps_placement(run_save_direct(True, False, True, False, {}, work)["trace"]) or "DInside"
    res["counts"]["direct:placement:" + pos] = 1
    plans = [{}]
    for (s, v) in save_points:
        for kind in ("exc", "base"):
            plans.append({s: (kind, v)})
    for i, (s1, v1) in enumerate(save_points):
        for (s2, v2) in save_points[i + 1:]:
            if s1 != s2:
                for k1 in ("exc", "base"):
                    for k2 in (("exc", "base") if mode != "single" else ("exc",)):
                        plans.append({s1: (k1, v1), s2: (k2, v2)})
    for plan in plans:
        for a0 in (True, False):
            for b0 in (False, True):
                for ok in (True, False):
                    for keep in (False, True):
                        if len(plan) == 2 and mode == "single" and rng.random() < 0.75:
                            continue
                        o = run_save_direct(a0, b0, ok, keep, plan, work)
                        table = {"OLD-A": [1], "BAK0": [-9], "OTHER": [5], "GARB": [-3]}
                        if o["new_text"]:
                            h = o["new_text"][:len(o["new_text"]) // 2]
                            table[h] = [-4]
                            table[o["new_text"]] = [2, 2]
                        code = make_coder(table)
                        expr = "show_save %s %s %s %s %s %s" % (
                            pos, core.coq_bool(keep), coq_opt_content([1] if a0 else None), coq_opt_content([-9] if b0 else None),
                            coq_opt_content([2, 2] if ok else None), coq_sched(plan, o["fired"], code, o["nat"]))
                        exp = [sx_file(code(o["A"])), sx_file(code(o["bak"])), sx_file(code(o["B"])), o["outcome"]]
                        case = {"direct": True, "a_present": a0, "bak_present": b0, "serialisable": ok, "keep": keep,
                                "faults": {s: list(kv) for s, kv in plan.items()}}
                        res["cases"].append((expr, exp, case))
                        res["seen"].append((("direct", a0, b0, ok, keep, tuple(sorted(plan.items()))), True))
                        res["counts"]["direct:outcome:" + o["outcome"][0]] = res["counts"].get("direct:outcome:" + o["outcome"][0], 0) + 1
                        # direct oracle: nothing is ever lost; single Exception => restored
                        what = oracle_direct(a0, b0, ok, keep, o)
                        if what:
                            res["fails"].append((dict(case, clause="restore", observed=o), what))
    shutil.rmtree(work, ignore_errors=True)
    return res


# --------------------------------------------------------------------------
# known findings
# --------------------------------------------------------------------------

TYPE_NAMES = None


def _docs(case):
    from deepdiff.serialization import json_loads  # noqa: F401  (plain json is enough for key inspection)
    return [json.loads(case["a_text"]), json.loads(case["b_text"])]


def _first_clause(case, extra=()):
    """the 'reproduces' clause of a fault-free run, or its direct consequence: when `deep patch` itself fails
    (non-zero exit / exception) no backup is left either"""
    if case.get("faults"):
        return False
    cl = case.get("clause")
    if cl == "reproduces" or cl in extra:
        return True
    return cl == "backup" and (case.get("observed") or {}).get("cli") != ["exit", 0]


def m_typehook(case):
    """some JSON object in A or B has both keys old_type and new_type: the
    loader's object_hook replaces type-name strings in it by Python types."""
    if not _first_clause(case, ("diff",)):
        return False
    return any("old_type" in d and "new_type" in d for doc in _docs(case) for d in dicts_of(doc))


def m_both_quotes(case):
    if not _first_clause(case):
        return False
    return any(isinstance(k, str) and "'" in k and '"' in k for doc in _docs(case) for k in keys_of(doc))


def m_escape_char(case):
    if not _first_clause(case):
        return False
    return any(isinstance(k, str) and ESC in k for doc in _docs(case) for k in keys_of(doc))


MATCHERS = {"C20-TYPEHOOK": m_typehook, "C20-K5-QUOTES": m_both_quotes, "C20-K6-ESC": m_escape_char}


# --------------------------------------------------------------------------
# driver
# --------------------------------------------------------------------------

HEADER = "From DD Require Import Cli.FsModel Cli.FsShow.\nLocal Open Scope Z_scope."
GUARD_HEADER = ("From DD Require Import Base.PyStr Base.Value Diff.DiffModel Delta.DeltaExamples Cli.JsonDocs.\n"
                "Local Open Scope Z_scope.")


def alias_witness(ctx):
    """C20_json_alias_refuted replayed on the real CLI: [1] -> [1.0] leaves the int in place"""
    sys.path.insert(0, core.REPO)
    _quiet()
    a_text, b_text = "[1]\n ", "[1.0]\n"
    rc, delta_bytes, dexc, _ = run_diff(a_text, b_text, ctx.scratch)
    o = run_patch(a_text, b_text, delta_bytes, False, True, {}, False, ctx.scratch) if rc == 0 else None
    ctx.evaluations += 1
    ok = o is not None and o["cli"] == ["exit", 0] and o["A"] is not None and json.loads(o["A"]) == [1] and isinstance(json.loads(o["A"])[0], int)
    ctx.note("alias_witness", {"A": a_text, "B": b_text, "A_after_patch": o and o["A"], "as_the_model_says": ok})
    if not ok:
        ctx.break_("correspondence", {"name": "C20_json_alias_refuted", "meaning": "the implementation no longer behaves as the refutation witness says ([1] -> [1.0] should leave [1])",
                                      "observed": o and {"A": o["A"], "cli": o["cli"]}})


def collect(ctx, results, name):
    uniq = {}
    total = 0
    for r in results:
        for (expr, exp, case) in r["cases"]:
            total += 1
            key = (expr, json.dumps(exp))
            if key not in uniq:
                uniq[key] = (expr, exp, case)
        for (case, what) in r["fails"]:
            ctx.fail(case, what)
        for k, n in r["counts"].items():
            ctx.count(k, n)
        for (key, nt) in r["seen"]:
            ctx.seen(key, nontrivial=nt)
        for s in r["samples"]:
            ctx.sample(s)
    cases = list(uniq.values())
    bad = ctx.coq_cases(name, HEADER, cases, shard=300, label=name + "(distinct model inputs)")
    # every implementation run is validated against the model (identical model inputs are evaluated once)
    ctx.corr_cases += total - len(cases)
    ctx.count("impl_runs:" + name, total)
    return bad


def run(ctx):
    rng = ctx.rng
    n_pairs = 500 if ctx.thorough else 120
    n_all = 24 if ctx.thorough else 2
    n_pairs_mode = 80 if ctx.thorough else 8
    tasks = []
    pairs = [(a, b, ["fixed"]) for (a, b) in FIXED_PAIRS]
    while len(pairs) < n_pairs:
        pairs.append(gen_pair(rng))
    for i, (a, b, kinds) in enumerate(pairs):
        mode = "all" if i < n_all else ("pairs" if i < n_all + n_pairs_mode else "single")
        tasks.append((i, a, b, a_text_of(a, rng), kinds, mode, rng.randrange(1 << 30), ctx.scratch))
    # the 'patch reproduces B' clause alone (fault-free diff -> patch round trips through the real CLI) on many more
    # pairs: planted scalar-list edit scripts + further random document pairs
    n_ref = 6000 if ctx.thorough else 900
    for j in range(n_ref):
        a, b, kinds = gen_number_pair(rng) if j % 12 == 5 else (gen_list_pair(rng) if j % 3 else gen_pair(rng))
        tasks.append((len(pairs) + j, a, b, a_text_of(a, rng), kinds, "ref", rng.randrange(1 << 30), ctx.scratch))
    # the long tasks first
    with mp.get_context("fork").Pool(core.NCPU) as pool:
        r_direct = pool.apply_async(direct_task, ((rng.randrange(1 << 30), "all" if ctx.thorough else "single", ctx.scratch),))
        ltasks = [(i,) + gen_locale_pair(rng) + (bool(i % 2), ctx.scratch) for i in range(80 if ctx.thorough else 16)]
        r_locale = pool.map_async(locale_task, ltasks, chunksize=1)
        results = pool.map(pair_task, tasks, chunksize=1)
        rd = r_direct.get()
        results_locale = r_locale.get()
    collect(ctx, results, "c20_cli")
    gcases = [g for r in results for g in r.get("guard_cases", [])]
    ctx.coq_cases("c20_json_guards", GUARD_HEADER, gcases, shard=150, label="json_guardsb on the generated documents")
    pcases = [g for r in results for g in r.get("payload_cases", [])]
    from harness import deltacommon as DC
    ctx.coq_cases("c20_payload_guards", DC.HDR + "\nFrom DD Require Import Delta.DeltaChain Pickle.Codec Pickle.DeltaCodec Diff.DiffPaths Cli.JsonDocs Cli.JsonPickle.",
                  pcases, shard=100, label="keys_path_okb / payload conditions / ops_sorted2 on the generated documents")
    alias_witness(ctx)
    collect(ctx, [rd], "c20_save_direct")
    collect(ctx, results_locale, "c20_locale")
    ctx.note("fault_points", ["%s/%s" % p for p in POINTS])
    ctx.note("document_pairs", {"with_fault_schedules": len(pairs), "round_trip_only": n_ref})
    # every open finding must still reproduce on the implementation (otherwise the finding list is stale)
    for f in ctx.findings:
        if f.get("status") == "open" and f["key"] not in ctx.known_seen:
            ctx.break_("correspondence", {"name": "known-finding-no-longer-reproduces", "key": f["key"],
                                          "meaning": "the witness of this open finding now satisfies the property: update known_findings.d/C20.json"})


def replay(ctx, data):
    case = data.get("case", {})
    sys.path.insert(0, core.REPO)
    _quiet()
    if case.get("direct"):
        plan = {s: tuple(v) for s, v in case["faults"].items()}
        o = run_save_direct(case["a_present"], case["bak_present"], case["serialisable"], case["keep"], plan, ctx.scratch)
        ctx.evaluations += 1
        print("replay(direct): %r" % (o,))
        what = oracle_direct(case["a_present"], case["bak_present"], case["serialisable"], case["keep"], o)
        if what:
            ctx.fail(dict(case, clause="restore", observed=o), what)
        return
    if "a_text" not in case:
        return run(ctx)
    if case.get("locale"):
        r = locale_task((0, json.loads(case["a_text"]), json.loads(case["b_text"]), case.get("keep", False), ctx.scratch))
        ctx.evaluations += 1
        print("replay (separate process, %s): %d failing clause(s)" % (case["locale"], len(r["fails"])))
        for (c, what) in r["fails"]:
            print("   ", what, (c.get("observed") or {}).get("output", c.get("output", ""))[-200:])
            ctx.fail(c, what)
        return
    a_text, b_text = case["a_text"], case["b_text"]
    rc, delta_bytes, dexc, untouched = run_diff(a_text, b_text, ctx.scratch)
    print("replay: diff exit=%r exception=%r patch bytes=%d" % (rc, dexc, len(delta_bytes or b"")))
    if rc != 0 or not untouched:
        ctx.fail(dict(case, clause="diff", exit_code=rc, exception=dexc), "`deep diff A B --create-patch` failed or modified its inputs (exit %r, %s)" % (rc, dexc))
        return
    keep, debug, prebak = case.get("keep", False), case.get("debug", True), case.get("prebak", False)
    plan = {s: tuple(v) for s, v in case.get("faults", {}).items()}
    ref = run_patch(a_text, b_text, delta_bytes, keep, True, {}, False, ctx.scratch)
    ctx.evaluations += 1
    print("replay: fault-free run: A=%r A.bak=%r cli=%r" % (ref["A"], ref["bak"], ref["cli"]))
    fails, _loaded, _err = oracle_reference(a_text, b_text, keep, ref)
    for (clause, what) in fails:
        ctx.fail(dict(case, clause=clause, observed=ref), what)
    if plan or prebak:
        o = run_patch(a_text, b_text, delta_bytes, keep, debug, plan, prebak, ctx.scratch)
        ctx.evaluations += 1
        print("replay: faults=%r fired=%r\n        A=%r\n        A.bak=%r\n        cli=%r" % (plan, sorted(o["fired"]), o["A"], o["bak"], o["cli"]))
        what = oracle_faulty(a_text, b_text, ref["A"], plan, prebak, o)
        if what:
            ctx.fail(dict(case, clause="restore", observed=o), what)

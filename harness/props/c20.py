"""C20 - CLI: `deep diff A B --create-patch` then `deep patch A <patch>` reproduces
B in A; --backup keeps the previous content in A.bak; a failure while writing
leaves A with its original content and no stray backup.

proof:           coq/theories/Cli/{FsModel,FsProofs}.v, Properties/C20.v
correspondence:  the real CLI (click.testing.CliRunner on deepdiff.commands.diff /
                 patch) in a fresh temp directory, on generated pairs of JSON
                 documents, with / without --backup and --debug, with faults
                 injected by monkeypatching at every primitive step of the
                 patch command (open / read / close of the inputs, Delta.__add__,
                 os.rename, open(A,'w'), json_dumps, write, close, the restoring
                 os.rename, os.remove) - single faults at every point, pairs and
                 triples of faults, Exception and KeyboardInterrupt kinds;
                 observables: content of A, A.bak, B, the patch file, exit status
                 / propagating exception.  A second stream calls
                 save_content_to_path directly from degenerate initial states
                 (A missing, A.bak already there, unserialisable content).
                 The model (Cli/FsModel.v) is evaluated in Coq on the same
                 schedule (ctx.coq_cases).
direct oracle:   the statement on the real CLI: after a fault-free run A loads equal
                 to B, backup kept iff --backup (with the original bytes); after a
                 single Exception-fault up to and including close A has its
                 original bytes, no A.bak, non-zero exit; in every scenario the
                 original bytes survive in A or A.bak.
round 3:         (model Cli/GenModel.v, FormatModel.v; rendering Cli/GenShow.v)
                 * histories (inside the property): 3-5 `deep patch` commands in a row on
                   one a.json, each with a delta made by the real `deep diff` from the
                   current content of A, its own flags and fault plan; after every command
                   (A, A.bak, exit status) against run_hist, the statement's clauses for
                   that command, and the invariant of C20_history_good_version_survives.
                 * extension "Crash" (outside the statement: recorded, never a violation):
                   save_content_to_path in a forked child that is killed (os._exit) at
                   every crash point - before each step, in the middle of a write, between
                   the two phases of a non-atomic rename - under every single fault plan
                   and some pairs, for the json / csv / pickle / toml branches; the
                   directory left behind against the model's crash state (show_crash), the
                   completed reference run against show_save_g, and the crash theorems'
                   conclusions checked directly on the directory.
                 * extension "Formats": the dispatch on the extension (ext_of / fmt_of_ext
                   against probes of _save_content / load_path_content), `deep patch` on
                   csv / tsv / pickle / toml / yaml / unknown targets under fault plans
                   (show_patch_g), generated csv and pickle documents through the real CLI
                   against the exact statement of C20_patch_reproduces_any_format, and the
                   codec witnesses FORMAT_WITNESSES (real codecs outside the round-trip
                   hypothesis) replayed at every run.
source tie:      harness/translate/clisave.py regenerates the save / load / patch path from the current source as programs
                 over Cli/PyMonad.v; coq/srctie/CliGenEquiv.v (compiled at every run against the regenerated text) proves
                 them equal to Cli/StmtModel.v (refined to GenModel.save_tr / FormatModel.patch_cmd_g in Cli/StmtProofs.v)
                 and restates the C20 theorems about them; on a broken tie on_source_tie_break differences generated and
                 hand programs inside Coq and replays the differing inputs on the real CLI.
wave 2:          * extension "Options": the option plumbing of `deep diff` (Cli/OptModel.v): exit status
                   of the diff command, the keyword arguments DeepDiff receives, reproduction + identical
                   patch bytes under every sampled exact option set, OPTION_WITNESSES.
                 * extension "Concurrent": two real `deep patch` processes on one file, scheduled by the
                   parent before Load / Backup / Open / Flush / Remove, against Cli/ConcModel.v.
"""
import builtins
import copy
import io
import json
import multiprocessing as mp
import os
import random
import shutil
import sys
import tempfile

from harness import core

THEOREM_FILE = "Properties/C20.v"
COQCHK = ["Properties.C20"]
RULE = ("one case = one invocation of the real `deep patch` (or of save_content_to_path) under one fault schedule; "
        "pairs of JSON documents are generated (nested dict/list/str/int/float/bool/null, depth <= 4; B = edit script on A: "
        "key added/removed, value/type change, list insert/delete/append, nested edit, root replacement; or independent; or identical); "
        "fault schedules: none, every single fault point x {Exception, KeyboardInterrupt} x {--backup} x {--debug}, "
        "pairs (all, for a subset of document pairs) and random triples; document pools include member names beginning/ending with one kind of quote character, non-ASCII / astral / unpaired-surrogate text in values and names, 400-digit integers and out-of-range floats (1e999 = inf) with int<->float changes whose constructor call overflows; a separate-process stream runs the CLI under LC_ALL=C PYTHONUTF8=0 on documents with non-ASCII text; plus a round-trip-only stream (fault-free diff -> patch through the real CLI, 900 quick / 6000 thorough pairs): scalar lists related by insert/delete/replace/move/dup/rotate edit scripts (values.gen_atom_list_pair, JSON alphabets keeping 1/true/1.0 apart) and 'inserts in front of an unchanged run + deletes behind it', planted under 0-2 dict/list levels; non-trivial = a fault fired or A != B; "
        "distinct = distinct (A text, B text, flags, schedule); "
        "round 3: histories = 60 quick / 400 thorough sequences of 3-5 commands on generated JSON documents (keys from a pool without quote / escape characters), fault plan per command: none 35%, one fault point 45%, two 20%, kinds Exception / KeyboardInterrupt; "
        "extension streams (not part of the property's totals): crash = (file type in json, csv, pickle, toml [+ tsv, unknown in thorough]) x (serialisable / rejected at once / rejected after writes) x keep_backup x fault plans (none, every single Exception fault, 4 [all] KeyboardInterrupt singles, 4 [all] pairs; the rejected-document kinds with one keep_backup value in quick) x A.bak pre-existing x crash points (before each of 7 steps, mid-write at the first four write calls, between the phases of a two-phase rename); "
        "formats = 8 extensions x 21 plans x keep_backup of `deep patch`, 32 path names for the dispatch, 160 quick / 1200 thorough generated csv / pickle pairs (30% of the csv pairs against a JSON file whose rows the csv codec does not round-trip), 10 codec witnesses")
TRUSTED = [
    "the file system is modelled abstractly (path -> option content) with POSIX semantics: os.rename is atomic, replaces an existing regular file, "
    "raises when the source is missing; a failing rename/remove changes nothing; directories, symlinks, permissions, hard links, concurrent writers and Windows "
    "(os.rename onto an existing file raises there) are not modelled",
    "buffering inside the file object is abstracted: what is on disk at A after a failing open/write/close is an unconstrained parameter of the fault",
    "FsModel.save is the json branch; the generalised program Cli/GenModel.save_tr covers every branch of _save_content (buffered json / streaming yaml, toml, pickle, csv / serialiser missing or type unknown) and every intermediate state; the codecs themselves (text <-> document) are Section variables with an explicit round-trip hypothesis, except pickle (discharged by C14's codec theorem); yaml and tomli_w are not installed here: those branches are exercised only as 'module missing'",
    "process crashes: the file-system state after each step persists (a killed process, not a power failure: no model of the page cache / fsync); what the file object had flushed at each moment (e_mid, e_pend, e_nat, e_flush) is an unconstrained parameter of every theorem and is read off the real directory by the correspondence",
    "the clause 'patch reproduces B': for JSON documents the C01 premise is discharged (C20_patch_reproduces_json_docs, guards wf + alias-free + no '__' keys); "
    "still premises: the C01 oracle conditions, conv_json_ok (list(x)/dict(x) on JSON values), unpickle(pickle d) = d (C14, not connected) and the JSON dump/load round trip; "
    "path rendering/parsing (C09) is outside the Delta model",
    "source tie (fragment: serialization._save_content / save_content_to_path / load_path_content, commands.patch): the translator harness/translate/clisave.py "
    "(white-listed ast shapes; skip rules S1-S6: docstrings, comments, logger calls, _save_content's unused return value, Delta's raise_errors flag, exit / exception "
    "messages; abstraction rules A1-A6: import guards, the csv reader and writer blocks recognised by ast fingerprint, serialiser / parser names) and the statement "
    "combinators of Cli/PyMonad.v (meaning of os.rename / os.remove / with open / write / json_dumps / try-except-else / raise / sys.exit, click's handling of SystemExit "
    "and KeyboardInterrupt) are trusted in addition to - not instead of - the correspondence; commands.diff is not translated",
]
ASSUMPTIONS = [
    "keys starting with '__' are ignored by `deep diff` by default (ignore_private_variables): generated documents avoid them",
    "nan/inf and ints beyond 64 bit are outside the generated universe (non-standard JSON / serialiser dependent)",
    "fault injection is by monkeypatching builtins.open, os.rename/os.replace, os.remove/os.unlink, deepdiff.serialization.json_dumps, Delta.__add__ "
    "and the file object's read/write/close; a rewrite of the save path that uses other primitives would need the injector extended",
]

STEPS = ["load_delta", "load_doc", "apply", "backup", "open", "dumps", "write", "close", "restore", "remove"]
COQ_STEP = {"load_delta": "SLoadDelta", "load_doc": "SLoadDoc", "apply": "SApply", "backup": "SBackup",
            "open": "SOpen", "dumps": "SDumps", "write": "SWrite", "close": "SClose",
            "restore": "SRestore", "remove": "SRemove"}
# (step, variant): how the fault is produced
POINTS = [("load_delta", "open"), ("load_doc", "open"), ("load_doc", "read"), ("load_doc", "close"),
          ("apply", "call"), ("backup", "call"), ("open", "nocreate"), ("open", "created"),
          ("dumps", "call"), ("write", "nothing"), ("write", "half"),
          ("close", "after"), ("close", "garbage"), ("close", "vanish"),
          ("restore", "call"), ("remove", "call")]
SAVE_STEPS_UP_TO_CLOSE = {"backup", "open", "dumps", "write", "close"}
PRE_STEPS = {"load_delta", "load_doc", "apply"}
ESC = "\U0001d1c0"


# --------------------------------------------------------------------------
# generated documents
# --------------------------------------------------------------------------

PLAIN_KEYS = ["a", "b", "c", "d", "k1", "key 2", "x.y", "a'b", 'a"b', "a]b", "[0]", "1", "", "é", "root", "A", "id",
              "old_type", "new_type", "values_changed", "old_value", "new_value", "new_path",
              # member names that begin / end with ONE kind of quote character (both kinds in one key = finding K5)
              '15"', "users'", "'90s", '"q', "'", '"', "'a'", '"a"', "it's", 'say "hi"',
              # non-ASCII, astral and unpaired-surrogate names (json.loads accepts "\ud83d")
              "caf\u00e9", "\u65e5\u672c", "\U0001F600", "\ud83d", "x\udc00"]
HOSTILE_KEYS = ["q'\"", "k" + ESC]
STRS = ["", "x", "abc", "abd", "line1\nline2\nline3", "line1\nline2\nline4", "int", "str", "NoneType", "é中", "a'b", "True", "1", " ",
        "caf\u00e9", "\U0001F600 \u65e5\u672c", "\ud83d", "\udc00x", "a\ud800b", 'q"', "'q"]
HUGE = 10 ** 400 + 12345            # float(HUGE) raises OverflowError
INF = float("inf")                  # what json.loads gives for 1e999; int(INF) raises OverflowError


def gen_scalar(rng):
    r = rng.random()
    if r < 0.3:
        return rng.choice([0, 1, 2, 3, -1, 7, 10, 255, -1000, 2 ** 31, 2 ** 53 + 1, -2 ** 63, HUGE, -HUGE, 10 ** 400])
    if r < 0.45:
        return rng.choice([0.0, 1.0, 1.5, -2.5, 0.1, 0.30000000000000004, 1e100, 1e-100, 3.141592653589793, INF, -INF, 1e308])
    if r < 0.55:
        return rng.choice([True, False])
    if r < 0.63:
        return None
    return rng.choice(STRS)


def gen_key(rng, hostile):
    if hostile and rng.random() < 0.5:
        return rng.choice(HOSTILE_KEYS)
    return rng.choice(PLAIN_KEYS)


def gen_doc(rng, depth, hostile=False, root=False):
    r = rng.random()
    if root and r < 0.25:
        r = 0.25 + 0.7 * rng.random()          # the root is a scalar only rarely
    if depth <= 0 or r < 0.25:
        return gen_scalar(rng)
    if r < 0.65:
        d = {}
        for _ in range(rng.randint(0, 4)):
            d[gen_key(rng, hostile)] = gen_doc(rng, depth - 1, hostile)
        return d
    return [gen_doc(rng, depth - 1, hostile) for _ in range(rng.randint(0, 5))]


def positions(doc, path=()):
    """all container positions (paths to dicts / lists)"""
    out = []
    if isinstance(doc, dict):
        out.append(path)
        for k, v in doc.items():
            out += positions(v, path + (k,))
    elif isinstance(doc, list):
        out.append(path)
        for i, v in enumerate(doc):
            out += positions(v, path + (i,))
    return out


def get_at(doc, path):
    for p in path:
        doc = doc[p]
    return doc


def edit_once(rng, doc, hostile):
    """one edit on a deep copy; returns (new_doc, kind)"""
    doc = copy.deepcopy(doc)
    pos = positions(doc)
    if not pos or rng.random() < 0.07:
        return gen_doc(rng, 2, hostile), "root_replaced"
    c = get_at(doc, rng.choice(pos))
    if isinstance(c, dict):
        op = rng.choice(["add", "remove", "change", "type", "nest"])
        if op == "add" or not c:
            c[gen_key(rng, hostile) + rng.choice(["", "", "_n"])] = gen_doc(rng, 2, hostile)
            return doc, "key_added"
        k = rng.choice(list(c))
        if op == "remove":
            del c[k]
            return doc, "key_removed"
        if op == "change":
            c[k] = gen_scalar(rng)
            return doc, "value_changed"
        if op == "type":
            if isinstance(c[k], (int, float)) and not isinstance(c[k], bool) and rng.random() < 0.5:
                # int <-> float, including values the other type cannot hold
                c[k] = rng.choice([1.5, 2.0, INF]) if isinstance(c[k], int) else rng.choice([3, HUGE, 0])
                return doc, "number_type_changed"
            c[k] = rng.choice([[c[k]], {"w": c[k]}, str(c[k]), None, [], {}])
            return doc, "type_changed"
        c[k] = gen_doc(rng, 2, hostile)
        return doc, "subtree_replaced"
    op = rng.choice(["insert", "delete", "append", "change", "type", "swap"])
    if op == "insert" or not c:
        c.insert(rng.randint(0, len(c)), gen_doc(rng, 1, hostile))
        return doc, "list_insert"
    i = rng.randrange(len(c))
    if op == "delete":
        del c[i]
        return doc, "list_delete"
    if op == "append":
        c.append(gen_doc(rng, 1, hostile))
        return doc, "list_append"
    if op == "change":
        c[i] = gen_scalar(rng)
        return doc, "list_item_changed"
    if op == "type":
        if isinstance(c[i], (int, float)) and not isinstance(c[i], bool) and rng.random() < 0.5:
            c[i] = rng.choice([1.5, 2.0, INF]) if isinstance(c[i], int) else rng.choice([3, HUGE, 0])
            return doc, "number_type_changed"
        c[i] = rng.choice([[c[i]], {"w": c[i]}, None])
        return doc, "type_changed"
    j = rng.randrange(len(c))
    c[i], c[j] = c[j], c[i]
    return doc, "list_swap"


def gen_pair(rng):
    hostile = rng.random() < 0.06
    a = gen_doc(rng, rng.choice([1, 2, 3, 4]), hostile, root=rng.random() < 0.93)
    r = rng.random()
    if r < 0.08:
        return a, copy.deepcopy(a), ["identical"]
    if r < 0.2:
        return a, gen_doc(rng, rng.choice([1, 2, 3]), hostile, root=True), ["independent"]
    b, kinds = a, []
    for _ in range(rng.choice([1, 1, 2, 3, 5])):
        b, k = edit_once(rng, b, hostile)
        kinds.append(k)
    return a, b, kinds


# JSON-representable alphabets for planted scalar-list edits (1 / True / 1.0 are equal for difflib: kept apart)
LIST_ALPHABETS = [["a", "b", "c", "d"], [1, 2, 3, 4], ["a", 2, None, 2.5], ["x", "y"], [True, False, None, "t"],
                  ["p", "q", "a", "b", "c", "x"], [0.5, 1.5, "a", 7], ["a", "b"], [0, 3, "0", "3"]]


def plant_json(rng, depth, a, b):
    """wrap (a, b) identically into `depth` JSON dict/list levels (the difference sits below a common path)"""
    for _ in range(depth):
        if rng.random() < 0.5:
            pre = [gen_scalar(rng) for _ in range(rng.randint(0, 2))]
            post = [gen_scalar(rng) for _ in range(rng.randint(0, 1))]
            a, b = copy.deepcopy(pre) + [a] + copy.deepcopy(post), copy.deepcopy(pre) + [b] + copy.deepcopy(post)
        else:
            key = rng.choice(["l", "k", "k2", "1", "old_value", "new_value", "a.b"])
            a, b = {key: a, "z": 0}, {key: b, "z": 0}
    return a, b


def gen_list_pair(rng):
    """scalar lists related by insert/delete/replace/move/dup/rotate edits (harness.values.gen_atom_list_pair),
    planted under 0-2 container levels: the shapes on which DeepDiff keeps the difflib opcodes"""
    from harness import values
    x, y, kinds = values.gen_atom_list_pair(rng, maxlen=rng.choice([4, 6, 8, 12]), alphabet=rng.choice(LIST_ALPHABETS))
    if rng.random() < 0.35:
        # inserts in front of an unchanged run and deletes behind it (removed t1 index = added t2 index, not adjacent)
        alpha = rng.choice(LIST_ALPHABETS)
        run = [rng.choice(alpha) for _ in range(rng.randint(1, 5))]
        x = list(run)
        for _ in range(rng.randint(1, 2)):
            x.insert(rng.randint(1, len(x)), "DEL%d" % rng.randrange(3))
        y = ["INS%d" % i for i in range(rng.randint(1, 3))] + list(run)
        if rng.random() < 0.3:
            y.append("TAIL")
        kinds = ["front_inserts_back_deletes"]
    a, b = plant_json(rng, rng.choice([0, 1, 1, 2]), x, y)
    return a, b, ["list:" + k for k in (kinds or ["none"])]


NUMBER_LEAVES = [(HUGE, 1.5), (-HUGE, 2.0), (10 ** 400, 0.5), (INF, 3), (-INF, 0), (INF, HUGE), (1.5, HUGE), (3, INF), (HUGE, INF),
                 ([HUGE, 1], [2.5, 1]), ([INF, "a"], [7, "a"]), ({"v": HUGE}, {"v": 1e308}), (1e308, HUGE), (HUGE, "s"), (INF, None)]


def gen_number_pair(rng):
    """int <-> float changes whose constructor call (float(old) / int(old)) overflows, planted under 0-2 levels"""
    x, y = copy.deepcopy(rng.choice(NUMBER_LEAVES))
    a, b = plant_json(rng, rng.choice([0, 1, 1, 2]), x, y)
    return a, b, ["number:overflowing_type_change"]


FIXED_PAIRS = [
    ({"l": ["a", "x", "b", "c"]}, {"l": ["p", "q", "a", "b", "c"]}),       # added t2 index == removed t1 index, not adjacent
    ({"old_value": 1, "new_value": [1, 2]}, {"old_value": 2, "new_value": [2], "new_path": "x"}),
    ({"a": 1, "b": [1, 2, 3]}, {"a": 2, "b": [1, 3], "c": None}),
    ({"a": 1}, [1, 2]),
    ([1, 2, 3], {"a": 1}),
    (1, 2),
    ({}, []),
    ({"a": [1, 2, 3, 4]}, {"a": [9, 8, 1, 2, 3, 4]}),
    ({"a": {"1": [1, {"b": 2}]}}, {"a": {"1": [1, {"b": 3}], "z": "line1\nline2"}}),
    ({"old_type": "int", "new_type": "str"}, {"old_type": "int", "new_type": "float", "x": 1}),   # C20-TYPEHOOK
    ({"old_type": 1, "new_type": {}}, {"old_type": 1, "new_type": {}, "x": 1}),                    # C20-TYPEHOOK (valid JSON fails to load)
    ({"q'\"": 1}, {"q'\"": 2}),                                                                       # C20-K5
    ({"k" + ESC: 1}, {"k" + ESC: 2}),                                                                # C20-K6
    # serialisation of the patched document: unpaired surrogate, non-ASCII and astral text in values and names
    ({"a": "x", "l": ["y"]}, {"a": "\ud83d", "caf\u00e9": "\U0001F600", "l": ["y", "\u65e5\u672c\udc00"], "\ud83d": 1}),
    # member names beginning / ending with one kind of quote character, on the path of a difference
    ({'15"': 1, "users'": [1], "'90s": {"x": 1}, '"q': 0, "'a'": [0]}, {'15"': 2, "users'": [1, 2], "'90s": {"x": 2}, '"q': None, "'a'": [0, {"'": 1}]}),
    # number type changes whose constructor call overflows: float(10**400), int(inf)
    ({"n": HUGE, "m": INF, "l": [HUGE, 1], "k": -INF}, {"n": 1.5, "m": 3, "l": [2.5, 1], "k": 0}),
    ({"n": 1.5, "m": 3}, {"n": HUGE, "m": INF}),
]


_INF_RE = None


def json_src(doc, **kw):
    """JSON source text of a document; infinities are written as the (syntactically valid) out-of-range
    numbers 1e999 / -1e999 rather than Python's Infinity token"""
    global _INF_RE
    import re
    if _INF_RE is None:
        _INF_RE = re.compile(r'(?<![\w"\\])(-?)Infinity(?![\w"])')
    return _INF_RE.sub(lambda m: m.group(1) + "1e999", json.dumps(doc, **kw))


def a_text_of(doc, rng):
    """A's bytes: never the canonical json.dumps text (so 'original bytes' and
    'rewritten with the same document' are distinguishable)."""
    style = rng.randrange(3)
    if style == 0:
        return json_src(doc, indent=1) + "\n "
    if style == 1:
        return json_src(doc, separators=(",", ":")) + "\n \n"
    t = " " + json_src(doc, ensure_ascii=False, indent=3) + "\n "
    try:
        t.encode("utf-8")
        return t
    except UnicodeEncodeError:          # unpaired surrogates can only be written as \uXXXX escapes
        return " " + json_src(doc, indent=3) + "\n "


# --------------------------------------------------------------------------
# fault injection
# --------------------------------------------------------------------------

class InjectedFault(OSError):
    pass


class InjectedInterrupt(KeyboardInterrupt):
    pass


_REAL = {"open": builtins.open, "rename": os.rename, "replace": os.replace, "remove": os.remove, "unlink": os.unlink}


def read_text(path):
    try:
        with _REAL["open"](path, "r", encoding="utf-8", newline="") as f:
            return f.read()
    except FileNotFoundError:
        return None
    except (IsADirectoryError, UnicodeDecodeError) as e:
        return "<unreadable:%s>" % type(e).__name__


class Injector:
    """plan: {step: (kind, variant)}; kind 'exc' | 'base'."""

    def __init__(self, A, P, plan, reader=None, crash=None, two_phase=False):
        self.A, self.bak, self.P = A, A + ".bak", P
        self.plan = dict(plan)
        # round 3 (crash points / other file types): the on-disk content of the target is recorded when each step
        # begins; `crash` = ("before", step) | ("mid", "write", j) | ("mid", "backup"|"restore"): the process is
        # killed there with os._exit (no handler runs, buffers are dropped); `two_phase`: os.rename is carried out
        # as "link the new name, then unlink the old one" (a rename that is not atomic)
        self.track = reader is not None
        self.reader = reader or read_text
        self.crash = crash
        self.two_phase = two_phase
        self.disk_before = {}
        self.disk_at_write = []
        self.first_write = None
        self.nwrites = 0
        self.closed_disk = None
        self.closed = False
        self.gate = None            # (read fd, write fd): wait for the scheduler before each gated step (concurrency stream)
        self.gated = set()
        self.fired = {}      # step -> text on disk at A right after the failing step (None = absent)
        self.tags = {}       # id(exception) -> (kind, step)
        self.keep = []
        self.trace = []      # steps in the order the implementation attempts them
        self.nat = {}        # step -> (kind, text at A) for failures the OS / library produced by itself

    # -- exceptions ------------------------------------------------------
    def tag(self, e, step):
        if id(e) not in self.tags:
            self.tags[id(e)] = ("exc" if isinstance(e, Exception) else "base", step)
            self.keep.append(e)

    def due(self, step, variant=None):
        if self.gate is not None and step in CONC_GATED and step not in self.gated:
            self.gated.add(step)
            os.write(self.gate[1], ("at:%s\n" % step).encode())
            os.read(self.gate[0], 1)
        if not self.trace or self.trace[-1] != step:
            self.trace.append(step)
            if self.track and step not in self.disk_before:
                self.disk_before[step] = self.reader(self.A)
                if self.crash == ("before", step):
                    os._exit(77)
        p = self.plan.get(step)
        if p is None or step in self.fired:
            return None
        if variant is not None and p[1] != variant:
            return None
        return p

    def fire(self, step):
        kind = self.plan[step][0]
        self.fired[step] = self.reader(self.A)
        e = InjectedFault("injected fault at %s" % step) if kind == "exc" else InjectedInterrupt("injected interrupt at %s" % step)
        self.tag(e, step)
        raise e

    def natural(self, step, f, *a, **k):
        try:
            return f(*a, **k)
        except BaseException as e:
            fresh = id(e) not in self.tags          # an exception already attributed to an inner step passes through
            self.tag(e, step)
            if fresh:
                self.nat.setdefault(step, ("exc" if isinstance(e, Exception) else "base", self.reader(self.A)))
            raise

    # -- patched primitives -----------------------------------------------
    def _path(self, p):
        try:
            return os.fspath(p) if isinstance(p, (str, os.PathLike)) else None
        except TypeError:
            return None

    def rename(self, src, dst, *a, **k):
        s, d = self._path(src), self._path(dst)
        if s == self.A and d == self.bak:
            step = "backup"
        elif s == self.bak and d == self.A:
            step = "restore"
        else:
            return _REAL["rename"](src, dst, *a, **k)
        if self.due(step):
            self.fire(step)
        if self.two_phase:
            return self.natural(step, self._rename2, step, src, dst)
        return self.natural(step, _REAL["rename"], src, dst, *a, **k)

    def _rename2(self, step, src, dst):
        """a rename in two phases: the new name appears (replacing what was there), then the old one goes"""
        tmp = dst + ".lnk~"
        os.link(src, tmp)
        _REAL["rename"](tmp, dst)
        if self.crash == ("mid", step):
            os._exit(77)
        _REAL["unlink"](src)

    def remove(self, p, *a, **k):
        if self._path(p) != self.bak:
            return _REAL["remove"](p, *a, **k)
        if self.due("remove"):
            self.fire("remove")
        return self.natural("remove", _REAL["remove"], p, *a, **k)

    def open(self, file, mode="r", *a, **k):
        p = self._path(file)
        if p == self.P:
            if self.due("load_delta"):
                self.fire("load_delta")
            return _REAL["open"](file, mode, *a, **k)
        if p != self.A:
            return _REAL["open"](file, mode, *a, **k)
        if any(c in mode for c in "wax+"):
            if self.due("open"):
                if self.plan["open"][1] == "created":
                    _REAL["open"](file, mode, *a, **k).close()
                self.fire("open")
            return _WProxy(self.natural("open", _REAL["open"], file, mode, *a, **k), self)
        if self.due("load_doc", "open"):
            self.fire("load_doc")
        return _RProxy(_REAL["open"](file, mode, *a, **k), self)

    def json_dumps(self, *a, **k):
        if self.due("dumps"):
            self.fire("dumps")
        return self.natural("dumps", self._real_json_dumps, *a, **k)

    def delta_add(self, dself, other):
        if self.due("apply"):
            self.fire("apply")
        return self._real_add(dself, other)

    # -- install / remove ---------------------------------------------------
    def __enter__(self):
        import deepdiff.serialization as ser
        import deepdiff.delta as dl
        self._ser, self._dl = ser, dl
        self._real_json_dumps = ser.json_dumps
        self._real_add = dl.Delta.__add__
        inj = self
        builtins.open = self.open
        io.open = self.open
        os.rename = self.rename
        os.replace = self.rename
        os.remove = self.remove
        os.unlink = self.remove
        ser.json_dumps = self.json_dumps
        dl.Delta.__add__ = lambda dself, other: inj.delta_add(dself, other)
        return self

    def __exit__(self, *exc):
        builtins.open = _REAL["open"]
        io.open = _REAL["open"]
        os.rename = _REAL["rename"]
        os.replace = _REAL["replace"]
        os.remove = _REAL["remove"]
        os.unlink = _REAL["unlink"]
        self._ser.json_dumps = self._real_json_dumps
        self._dl.Delta.__add__ = self._real_add
        return False


class _Proxy:
    def __init__(self, real, inj):
        self._real, self._inj, self._closed = real, inj, False

    def __enter__(self):
        return self

    def __exit__(self, *a):          # io.IOBase.__exit__ is `self.close()`
        self.close()

    def __iter__(self):
        return iter(self._real)

    def __getattr__(self, n):
        return getattr(self._real, n)


class _RProxy(_Proxy):
    def read(self, *a):
        if self._inj.due("load_doc", "read"):
            self._inj.fire("load_doc")
        return self._real.read(*a)

    def close(self):
        if self._closed:
            return self._real.close()
        self._closed = True
        self._real.close()
        if self._inj.due("load_doc", "close"):
            self._inj.fire("load_doc")


class _WProxy(_Proxy):
    def write(self, s):
        inj = self._inj
        due = inj.due("write")
        if inj.track:
            j, inj.nwrites = inj.nwrites, inj.nwrites + 1
            if inj.first_write is None:
                inj.first_write = bytes(s) if not isinstance(s, str) else s
            if j < 4:
                inj.disk_at_write.append(inj.reader(inj.A))
            if inj.crash == ("mid", "write", j):
                if j == 0:                      # die half way through the first write
                    self._real.write(s[:len(s) // 2])
                    self._real.flush()
                os._exit(77)
        if due:
            if inj.plan["write"][1] == "half":
                self._real.write(s[:len(s) // 2])
                self._real.flush()
            inj.fire("write")
        return inj.natural("write", self._real.write, s)

    def close(self):
        inj = self._inj
        if self._closed:
            return self._real.close()
        self._closed = True
        if inj.due("close"):
            v = inj.plan["close"][1]
            self._real.close()
            if v == "garbage":
                with _REAL["open"](inj.A, "w") as f:
                    f.write("GARB")
            elif v == "vanish":
                _REAL["remove"](inj.A)
            inj.fire("close")
        r = inj.natural("close", self._real.close)
        if inj.track:
            inj.closed, inj.closed_disk = True, inj.reader(inj.A)
        return r


# --------------------------------------------------------------------------
# running one scenario on the real CLI
# --------------------------------------------------------------------------

def _quiet():
    import logging
    logging.disable(logging.CRITICAL)


def run_diff(a_text, b_text, work):
    """`deep diff A B --create-patch` -> (exit_code, stdout bytes, exception repr)"""
    from click.testing import CliRunner
    from deepdiff.commands import diff
    d = tempfile.mkdtemp(dir=work)
    A, B = os.path.join(d, "a.json"), os.path.join(d, "b.json")
    with open(A, "w", encoding="utf-8", newline="") as f:
        f.write(a_text)
    with open(B, "w", encoding="utf-8", newline="") as f:
        f.write(b_text)
    r = CliRunner().invoke(diff, [A, B, "--create-patch"])
    out = r.stdout_bytes
    ok = read_text(A) == a_text and read_text(B) == b_text
    shutil.rmtree(d, ignore_errors=True)
    return r.exit_code, out, (repr(r.exception) if r.exception else None), ok


def run_patch(a_text, b_text, delta_bytes, keep, debug, plan, prebak, work):
    """One `deep patch` invocation in a fresh directory.  Returns the raw observation."""
    from click.testing import CliRunner
    from deepdiff.commands import patch
    d = tempfile.mkdtemp(dir=work)
    A, B, P = os.path.join(d, "a.json"), os.path.join(d, "b.json"), os.path.join(d, "delta.pickle")
    with open(A, "w", encoding="utf-8", newline="") as f:
        f.write(a_text)
    with open(B, "w", encoding="utf-8", newline="") as f:
        f.write(b_text)
    with open(P, "wb") as f:
        f.write(delta_bytes)
    if prebak == "dir":
        os.mkdir(A + ".bak")
        with open(os.path.join(A + ".bak", "x"), "w") as f:
            f.write("x")
    elif prebak:
        with open(A + ".bak", "w") as f:
            f.write("BAK0")
    args = [A, P] + (["--backup"] if keep else []) + (["--debug"] if debug else [])
    inj = Injector(A, P, plan)
    escaped = None
    with inj:
        try:
            r = CliRunner().invoke(patch, args)
        except BaseException as e:       # a BaseException that click does not convert
            r, escaped = None, e
    if r is None:
        cli = ["exc", inj.tags.get(id(escaped), (None, "untagged:" + type(escaped).__name__))[1]]
        output = ""
    else:
        output = r.output
        e = r.exception
        if e is None or isinstance(e, SystemExit):
            cli = ["exit", r.exit_code]
        else:
            cli = ["exc", inj.tags.get(id(e), (None, "untagged:" + type(e).__name__))[1]]
    with _REAL["open"](P, "rb") as f:
        p_same = f.read() == delta_bytes
    obs = {"A": read_text(A), "bak": read_text(A + ".bak"), "B": read_text(B), "P_same": p_same,
           "cli": cli, "fired": dict(inj.fired), "nat": dict(inj.nat), "output": output[-300:], "trace": list(inj.trace),
           "others": sorted(x for x in os.listdir(d) if x not in ("a.json", "a.json.bak", "b.json", "delta.pickle"))}
    shutil.rmtree(d, ignore_errors=True)
    return obs


def run_save_direct(a0, b0, content_ok, keep, plan, work):
    """save_content_to_path called directly from a possibly degenerate initial state."""
    from deepdiff.serialization import save_content_to_path, json_dumps
    d = tempfile.mkdtemp(dir=work)
    A, B = os.path.join(d, "a.json"), os.path.join(d, "b.json")
    if a0:
        with open(A, "w") as f:
            f.write("OLD-A")
    if b0:
        with open(A + ".bak", "w") as f:
            f.write("BAK0")
    with open(B, "w") as f:
        f.write("OTHER")
    content = {"n": [1, 2, {"x": None}]} if content_ok else {"n": object()}
    new_text = json_dumps(content) if content_ok else None
    inj = Injector(A, os.path.join(d, "nope"), plan)
    outcome = ["done"]
    with inj:
        try:
            save_content_to_path(content, A, file_type="json", keep_backup=keep)
        except BaseException as e:
            kind, step = inj.tags.get(id(e), ("exc" if isinstance(e, Exception) else "base", "untagged:" + type(e).__name__))
            outcome = ["raised", kind, step]
    obs = {"A": read_text(A), "bak": read_text(A + ".bak"), "B": read_text(B), "outcome": outcome,
           "fired": dict(inj.fired), "nat": dict(inj.nat), "new_text": new_text, "trace": list(inj.trace)}
    shutil.rmtree(d, ignore_errors=True)
    return obs


# --------------------------------------------------------------------------
# model terms
# --------------------------------------------------------------------------

def dumps_placement(trace):
    """where the implementation serialises, read off the call trace of a fault-free run"""
    if "dumps" not in trace:
        return None
    i = trace.index("dumps")
    if "backup" in trace and i < trace.index("backup"):
        return "DFirst"
    if "open" in trace and i < trace.index("open"):
        return "DBeforeOpen"
    return "DInside"


def coq_zlist(l):
    return "[" + "; ".join(core.coq_Z(x) for x in l) + "]"


def coq_opt_content(c):
    return "None" if c is None else "(Some %s)" % coq_zlist(c)


def coq_sched(plan, fired, code, nat=None):
    """the schedule given to the model: the planned faults (with the debris observed on disk when they fired)
    plus the failures the OS / library produced by itself (e.g. rename onto a directory)"""
    items = []
    nat = nat or {}
    for step in STEPS:
        if step in fired or (step in plan and step not in nat):
            kind = plan[step][0]
            disk = code(fired[step]) if step in fired else None
        elif step in nat:
            kind, disk = nat[step][0], code(nat[step][1])
        else:
            continue
        items.append("(%s, %s %s)" % (COQ_STEP[step], "fx" if kind == "exc" else "fb", coq_opt_content(disk)))
    return "[" + "; ".join(items) + "]"


def sx_file(c):
    return None if c is None else ["Some", list(c)]


def make_coder(table):
    """text -> integer content of the model; `table` maps known texts to codes."""
    def code(text):
        if text is None:
            return None
        if text == "":
            return []
        if text in table:
            return table[text]
        return [-99]
    return code


# --------------------------------------------------------------------------
# one document pair: all scenarios (runs in a worker process)
# --------------------------------------------------------------------------

def doc_eq(x, y):
    return x == y


# ---- the hypothesis of C20_patch_reproduces_json_docs, computed on the Python side ----

def atoms_py(doc):
    out = []
    if isinstance(doc, dict):
        for k, v in doc.items():
            out.append(k)
            out += atoms_py(v)
    elif isinstance(doc, list):
        for v in doc:
            out += atoms_py(v)
    else:
        out.append(doc)
    return out


def in_universe(doc):
    """representable in Base/Value.v: JSON containers, str keys, str/int/bool/None, half-integer floats"""
    for a in atoms_py(doc):
        if a is None or isinstance(a, (bool, str)) or (isinstance(a, int) and abs(a) < 10 ** 30):
            continue
        if isinstance(a, float) and a == a and abs(a) < 1e15 and (a * 2) == int(a * 2):
            continue
        return False
    return True


def json_guard_py(a, b):
    """alias-free (no two atoms that are == but not of the same type) and no '__' key; None = outside the universe"""
    if not (in_universe(a) and in_universe(b)):
        return None
    atoms = atoms_py(a) + atoms_py(b)
    for i, x in enumerate(atoms):
        for y in atoms[i + 1:]:
            if type(x) is not type(y) and x is not None and y is not None and not isinstance(x, str) and not isinstance(y, str) and x == y:
                return False
    for doc in (a, b):
        for k in keys_of(doc):
            if k.startswith("__"):
                return False
    return True


def keys_path_ok_py(a, b):
    """document-level guard of C20_patch_reproduces_json_docs_pickled: no key with both quote characters, none ending in U+1D1C0"""
    return all(not ("'" in k and '"' in k) and not k.endswith(ESC) for doc in (a, b) for k in keys_of(doc))


def payload_case(a, b, tag):
    """(coq expr, expected, tag): [keys_path_okb a && keys_path_okb b ; keys ok -> delta_okb d && wfp (pv_of_delta d)]
    for d = the model delta of (a, b) under the CLI's configuration with the oracle values recorded here
    (difflib opcodes, unified diffs, constructor calls)"""
    from deepdiff import DeepDiff
    from harness import values as V, diffcommon as D, deltacommon as DC
    tree = DeepDiff(copy.deepcopy(a), copy.deepcopy(b), view="tree")
    conv = DC.conv_table(DC.type_change_pairs(tree))
    ops = D.coq_ops_table(D.opcode_table(a, b))
    ta, tb = V.to_coq(a), V.to_coq(b)
    expr = ("(let d := mk_delta_json hatom_deep (tbl_udiff %s) (tbl_ops %s) %s (tbl_conv %s) %s %s in "
            "let k := keys_path_okb %s && keys_path_okb %s in "
            "SL [sx_bool k; sx_bool (implb k (delta_okb d && wfp (pv_of_delta d))); "
            "sx_bool (forallb (fun r : path * list opcode => ops_ok2 0 0 (snd r)) %s)])") % (
        D.coq_udiff_table(D.udiff_table(a, b)), ops, D.coq_cfg(False, 0.33, True), conv, ta, tb, ta, tb, ops)
    return (expr, [keys_path_ok_py(a, b), True, True],
            dict(tag, hypothesis="keys_path_okb (= Python guard); keys_path_okb -> delta_okb && wfp (theorem, recomputed); ops_sorted2 on the recorded difflib opcodes"))


# ---- the direct oracle: the property statement on the implementation, no reference to the model ----

def oracle_reference(a_text, b_text, keep, o):
    """fault-free run: [(clause, what)] for every clause of the statement that fails"""
    from deepdiff.serialization import json_loads
    out = []
    b_loaded = json_loads(b_text)
    try:
        loaded = json_loads(o["A"]) if o["A"] is not None else None
        load_err = None if o["A"] is not None else "A is missing"
    except Exception as e:
        loaded, load_err = None, repr(e)
    if o["cli"] != ["exit", 0]:
        out.append(("reproduces", "fault-free `deep patch` did not exit 0: %r %s" % (o["cli"], o["output"])))
    elif load_err or not doc_eq(loaded, b_loaded):
        out.append(("reproduces", "after diff --create-patch / patch, A does not load equal to B (A now: %.200r)" % (o["A"],)))
    if keep and o["bak"] != a_text:
        out.append(("backup", "--backup: A.bak does not hold the previous content of A (%.100r)" % (o["bak"],)))
    if not keep and o["bak"] is not None:
        out.append(("backup", "without --backup a stray A.bak remains"))
    if o["B"] != b_text or not o["P_same"] or o["others"]:
        out.append(("frame", "`deep patch` touched B, the patch file or created another file"))
    return out, loaded, load_err


def oracle_faulty(a_text, b_text, new_text, plan, prebak, o):
    """a run under a fault plan: what fails, or None"""
    cli = o["cli"]
    nfired = len(o["fired"])
    single_exc = (len(plan) == 1 and nfired == 1 and list(plan.values())[0][0] == "exc")
    step = list(plan)[0] if len(plan) == 1 else None
    if prebak == "dir":
        # the operating system refuses the first rename: a single natural failure
        if o["A"] != a_text or cli == ["exit", 0]:
            return "A.bak is a directory (rename fails): A lost its content or the failure was swallowed"
        return None
    if nfired == 0:
        if cli != ["exit", 0] or o["A"] != new_text:
            return "a run in which no fault was reached did not produce the patched content"
    elif single_exc and (step in SAVE_STEPS_UP_TO_CLOSE or step in PRE_STEPS):
        if o["A"] != a_text:
            return "a single failure at '%s' left A without its original content (A now: %.80r)" % (step, o["A"])
        if o["bak"] is not None and not prebak:
            return "a single failure at '%s' left a stray A.bak" % step
        if cli == ["exit", 0]:
            return "a single failure at '%s' was swallowed (exit status 0)" % step
    if cli != ["exit", 0] and a_text not in (o["A"], o["bak"]):
        return "`deep patch` reported a failure and the original content of A survives neither in A nor in A.bak"
    if cli == ["exit", 0] and o["A"] != new_text:
        return "`deep patch` exited 0 although A does not hold the patched content"
    if o["B"] != b_text or not o["P_same"] or o["others"]:
        return "`deep patch` touched B, the patch file or created another file"
    return None


def oracle_direct(a0, b0, ok, keep, o):
    """save_content_to_path called directly (faults may be natural: missing file, unserialisable content)"""
    out = o["outcome"]
    nfaults = len(o["fired"]) + (0 if ok or "dumps" in o["fired"] else 1)
    if a0 and out[0] == "raised" and "OLD-A" not in (o["A"], o["bak"]):
        return "save_content_to_path raised and lost the original content (neither in A nor in A.bak)"
    if a0 and out[0] == "done" and (o["A"] != o["new_text"] or (o["bak"] == "OLD-A") != keep):
        return "save_content_to_path returned normally without the new content in A / the backup kept iff keep_backup"
    if a0 and not b0 and out[0] == "raised" and out[1] == "exc" and nfaults == 1 and out[2] in SAVE_STEPS_UP_TO_CLOSE and \
            (o["A"] != "OLD-A" or o["bak"] is not None):
        return "a single failure at '%s' was not rolled back" % out[2]
    if a0 and nfaults == 0 and out[0] != "done":
        return "save_content_to_path raised although nothing failed"
    if o["B"] != "OTHER":
        return "an unrelated file was touched"
    return None


def keys_of(doc):
    out = []
    if isinstance(doc, dict):
        for k, v in doc.items():
            out.append(k)
            out += keys_of(v)
    elif isinstance(doc, list):
        for v in doc:
            out += keys_of(v)
    return out


def dicts_of(doc):
    out = []
    if isinstance(doc, dict):
        out.append(doc)
        for v in doc.values():
            out += dicts_of(v)
    elif isinstance(doc, list):
        for v in doc:
            out += dicts_of(v)
    return out


def schedules(rng, mode):
    """list of plans ({step: (kind, variant)}) for one (pair, flags)"""
    plans = [{}]
    for (s, v) in POINTS:
        for kind in ("exc", "base"):
            plans.append({s: (kind, v)})
    if mode in ("pairs", "all"):
        for i, (s1, v1) in enumerate(POINTS):
            for (s2, v2) in POINTS[i + 1:]:
                if s1 == s2:
                    continue
                for k1 in ("exc", "base"):
                    for k2 in ("exc", "base"):
                        plans.append({s1: (k1, v1), s2: (k2, v2)})
    n_rand = {"single": 6, "pairs": 40, "all": 150}[mode]
    for _ in range(n_rand):
        k = rng.choice([2, 3, 3, 4])
        pts = rng.sample(POINTS, k)
        plan = {}
        for (s, v) in pts:
            plan.setdefault(s, (rng.choice(["exc", "exc", "base"]), v))
        plans.append(plan)
    return plans


def pair_task(args):
    idx, a_doc, b_doc, a_text, kinds, mode, seed, scratch = args
    sys.path.insert(0, core.REPO)
    _quiet()
    from deepdiff.serialization import json_loads
    rng = random.Random(seed)
    work = tempfile.mkdtemp(prefix="p%d_" % idx, dir=scratch)
    b_text = json_src(b_doc, indent=2) + "\n"     # never the canonical text either
    res = {"cases": [], "fails": [], "counts": {}, "seen": [], "samples": [], "guard_cases": [], "payload_cases": []}

    def count(k, n=1):
        res["counts"][k] = res["counts"].get(k, 0) + n

    base_case = {"a_text": a_text, "b_text": b_text, "edit_kinds": kinds}
    rc, delta_bytes, dexc, untouched = run_diff(a_text, b_text, work)
    if rc != 0 or not untouched:
        res["fails"].append((dict(base_case, clause="diff", exit_code=rc, exception=dexc),
                             "`deep diff A B --create-patch` failed or modified its inputs (exit %r, %s)" % (rc, dexc)))
        shutil.rmtree(work, ignore_errors=True)
        return res
    a_loaded, b_loaded = json_loads(a_text), json_loads(b_text)
    try:
        guard = json_guard_py(a_loaded, b_loaded)
    except Exception:
        guard = None                     # e.g. type objects planted by the loader's object_hook
    count("json_guard:" + {True: "holds", False: "fails", None: "outside_universe"}[guard])
    if guard is not None:
        from harness import values
        try:
            res["payload_cases"].append(payload_case(a_loaded, b_loaded, base_case))
            count("payload_guard:keys_ok" if keys_path_ok_py(a_loaded, b_loaded) else "payload_guard:keys_K5_K6")
        except Exception as e:       # helper of another block failed on this pair: visible, not fatal
            count("payload_case_error:" + type(e).__name__)
        res["guard_cases"].append(("sx_bool (json_guardsb ex_cfg %s %s)" % (values.to_coq(a_loaded), values.to_coq(b_loaded)),
                                   guard, dict(base_case, hypothesis="json_guardsb")))
    ida = 1
    idb = 1 if doc_eq(a_loaded, b_loaded) else 2

    # reference (fault-free, uninstrumented) runs: property clauses 1 and 2
    new_text = None
    resid = None
    pos = None
    for keep in (False, True):
        o = run_patch(a_text, b_text, delta_bytes, keep, True, {}, False, work)
        case = dict(base_case, keep=keep, debug=True, faults={}, prebak=False)
        res["seen"].append((("ref", a_text, b_text, keep), idb != ida))
        fails, loaded, load_err = oracle_reference(a_text, b_text, keep, o)
        for (clause, what) in fails:
            res["fails"].append((dict(case, clause=clause, observed=o), what))
        if not any(c == "reproduces" for c, _ in fails):
            count("oracle:reproduces_ok")
            typed_same = json.dumps(loaded, sort_keys=True, default=repr) == json.dumps(b_loaded, sort_keys=True, default=repr)
            if not typed_same:
                count("note:equal_but_not_type_identical(1==1.0==True)")
            if guard is True:
                # conclusion of C20_patch_reproduces_json_docs: same JSON value, up to key order
                count("oracle:json_guard_holds_typed_checked")
                if not typed_same:
                    res["fails"].append((dict(case, clause="reproduces_typed", observed=o),
                                         "alias-free JSON documents: after patch A is ==-equal to B but not the same JSON value (types differ)"))
        if new_text is None:
            new_text = o["A"]
            pos = dumps_placement(o["trace"])
            if o["A"] is not None and not load_err:
                resid = idb if doc_eq(loaded, b_loaded) else (ida if doc_eq(loaded, a_loaded) else 3)
    if new_text is None or resid is None or pos is None:
        shutil.rmtree(work, ignore_errors=True)
        return res
    res["counts"]["placement:" + pos] = 1
    half = new_text[:len(new_text) // 2]
    table = {}
    # later entries win: the most specific meaning of a text is assigned last
    table["GARB"] = [-3]
    table["BAK0"] = [-9]
    table["<unreadable:IsADirectoryError>"] = [-8]
    if half:
        table[half] = [-4]
    table[b_text] = [idb]
    table[new_text] = [resid, resid]
    table[a_text] = [ida]
    code = make_coder(table)

    plans = schedules(rng, mode) if mode != "ref" else []
    flagsets = [(k, dbg, pb) for k in (False, True) for dbg in (False, True) for pb in (False,)]
    for plan in plans:
        fl = list(flagsets)
        if len(plan) <= 1:
            fl += [(False, True, True), (True, False, True)]      # A.bak already there
            if len(plan) == 0:
                fl += [(False, True, "dir"), (True, False, "dir")]    # A.bak is a directory: the OS itself fails the first rename
        elif mode != "all":
            fl = [rng.choice(flagsets)]
        for (keep, debug, prebak) in fl:
            o = run_patch(a_text, b_text, delta_bytes, keep, debug, plan, prebak, work)
            case = dict(base_case, keep=keep, debug=debug, prebak=prebak,
                        faults={s: list(kv) for s, kv in plan.items()})
            nfired = len(o["fired"])
            count("faults_fired:%d" % nfired)
            for s in o["fired"]:
                count("fired:%s/%s/%s" % (s, plan[s][1], plan[s][0]))
            res["seen"].append(((a_text, b_text, keep, debug, prebak, tuple(sorted(plan.items()))), nfired > 0 or idb != ida))
            # ---- correspondence case --------------------------------------
            expr = "show_pipeline %s %s %s (Some %s) %s %s %s %s" % (
                pos, core.coq_bool(keep), core.coq_bool(debug), coq_zlist([ida]),
                "(Some %s)" % coq_zlist([-8] if prebak == "dir" else [-9]) if prebak else "None",
                coq_zlist([idb]), core.coq_Z(resid), coq_sched(plan, o["fired"], code, o["nat"]))
            cli = o["cli"]
            exp = [sx_file(code(o["A"])), sx_file(code(o["bak"])), sx_file(code(o["B"])), bool(o["P_same"]),
                   [cli[0], cli[1]]]
            res["cases"].append((expr, exp, case))
            # ---- direct oracle (independent of the model) ------------------
            what = oracle_faulty(a_text, b_text, new_text, plan, prebak, o)
            if len(plan) == 1 and nfired == 1 and list(plan.values())[0][0] == "exc" and list(plan)[0] not in ("restore", "remove"):
                count("oracle:single_fault_checked")
            if what:
                res["fails"].append((dict(case, clause="restore", observed=o), what))
    if idx < 3:
        res["samples"].append({"A": a_text[:200], "B": b_text[:200], "edit_kinds": kinds, "new_A": new_text[:200],
                               "schedules": len(plans)})
    count("mode:" + mode)
    count("pairs:docs_equal" if ida == idb else "pairs:docs_differ")
    for k in kinds:
        count("edit:" + k)
    count("result:" + ("equals_B" if resid == idb else ("equals_A_not_B" if resid == ida else "neither")))
    shutil.rmtree(work, ignore_errors=True)
    return res


NONASCII = ["caf\u00e9", "\u65e5\u672c\u8a9e", "\U0001F600", "na\u00efve \u2013 \u20ac", "\u0416"]


def locale_task(args):
    """the real command line tool as a separate process under a non-UTF-8 preferred encoding
    (LC_ALL=C, PYTHONUTF8=0): `deep diff A B --create-patch > P ; deep patch A P`.  The files are pure
    ASCII (non-ASCII text is written as \\uXXXX escapes), the documents hold non-ASCII text."""
    import subprocess
    idx, a_doc, b_doc, keep, scratch = args
    res = {"cases": [], "fails": [], "counts": {}, "seen": [], "samples": [], "guard_cases": [], "payload_cases": []}
    d = tempfile.mkdtemp(prefix="loc%d_" % idx, dir=scratch)
    A, B, P = os.path.join(d, "a.json"), os.path.join(d, "b.json"), os.path.join(d, "delta.pickle")
    a_text, b_text = json_src(a_doc, indent=1) + "\n ", json_src(b_doc, indent=2) + "\n"
    for path, text in ((A, a_text), (B, b_text)):
        with open(path, "w", encoding="ascii") as f:
            f.write(text)
    env = {"PATH": os.environ.get("PATH", "/usr/bin:/bin"), "LC_ALL": "C", "LANG": "C", "PYTHONUTF8": "0", "PYTHONCOERCECLOCALE": "0",
           "PYTHONPATH": core.REPO, "PYTHONHASHSEED": "0", "PYTHONDONTWRITEBYTECODE": "1", core.GUARD: "1"}
    prog = ("import locale, sys, logging; logging.disable(logging.CRITICAL); "
            "sys.stderr.write('ENC=' + locale.getpreferredencoding(False) + '\\n'); "
            "from deepdiff.commands import cli; cli()")
    case = {"a_text": a_text, "b_text": b_text, "keep": keep, "debug": False, "faults": {}, "prebak": False,
            "locale": "LC_ALL=C PYTHONUTF8=0", "edit_kinds": ["locale"]}
    p1 = subprocess.run([sys.executable, "-c", prog, "diff", A, B, "--create-patch"], env=env, cwd=d,
                        stdout=subprocess.PIPE, stderr=subprocess.PIPE, timeout=120)
    enc = [l[4:] for l in p1.stderr.decode("ascii", "replace").splitlines() if l.startswith("ENC=")]
    res["counts"]["locale:preferred_encoding:" + (enc[0] if enc else "?")] = 1
    if p1.returncode != 0:
        res["fails"].append((dict(case, clause="diff", exit_code=p1.returncode, output=p1.stderr.decode("ascii", "replace")[-300:]),
                             "`deep diff A B --create-patch` failed under LC_ALL=C (exit %d)" % p1.returncode))
        shutil.rmtree(d, ignore_errors=True)
        return res
    with open(P, "wb") as f:
        f.write(p1.stdout)
    p2 = subprocess.run([sys.executable, "-c", prog, "patch", A, P] + (["--backup"] if keep else []), env=env, cwd=d,
                        stdout=subprocess.PIPE, stderr=subprocess.PIPE, timeout=120)
    with open(P, "rb") as f:
        p_same = f.read() == p1.stdout
    o = {"A": read_text(A), "bak": read_text(A + ".bak"), "B": read_text(B), "P_same": p_same,
         "cli": ["exit", p2.returncode], "fired": {}, "nat": {}, "trace": [],
         "output": (p2.stdout + p2.stderr).decode("ascii", "replace")[-300:],
         "others": sorted(x for x in os.listdir(d) if x not in ("a.json", "a.json.bak", "b.json", "delta.pickle"))}
    sys.path.insert(0, core.REPO)
    fails, _loaded, _err = oracle_reference(a_text, b_text, keep, o)
    for (clause, what) in fails:
        res["fails"].append((dict(case, clause=clause, observed=o), what + " [separate process, LC_ALL=C PYTHONUTF8=0]"))
    res["seen"].append((("locale", a_text, b_text, keep), True))
    res["counts"]["locale:runs"] = 1
    shutil.rmtree(d, ignore_errors=True)
    return res


def gen_locale_pair(rng):
    """a generated pair whose B (and sometimes A) holds non-ASCII text in values and member names"""
    a, b, _ = gen_pair(rng)
    if not isinstance(b, dict):
        b = {"doc": b}
    b = copy.deepcopy(b)
    b[rng.choice(["u", "caf\u00e9", "\U0001F600"])] = rng.choice(NONASCII)
    if rng.random() < 0.5:
        b["l"] = [rng.choice(NONASCII) for _ in range(rng.randint(1, 3))]
    if isinstance(a, dict) and rng.random() < 0.5:
        a = copy.deepcopy(a)
        a["\u00fc"] = rng.choice(NONASCII)
    return a, b


def direct_task(args):
    seed, mode, scratch = args
    sys.path.insert(0, core.REPO)
    _quiet()
    rng = random.Random(seed)
    work = tempfile.mkdtemp(prefix="d_", dir=scratch)
    res = {"cases": [], "fails": [], "counts": {}, "seen": [], "samples": []}
    save_points = [p for p in POINTS if p[0] not in PRE_STEPS]
    pos = dumps_placement(run_save_direct(True, False, True, False, {}, work)["trace"]) or "DInside"
    res["counts"]["direct:placement:" + pos] = 1
    plans = [{}]
    for (s, v) in save_points:
        for kind in ("exc", "base"):
            plans.append({s: (kind, v)})
    for i, (s1, v1) in enumerate(save_points):
        for (s2, v2) in save_points[i + 1:]:
            if s1 != s2:
                for k1 in ("exc", "base"):
                    for k2 in (("exc", "base") if mode != "single" else ("exc",)):
                        plans.append({s1: (k1, v1), s2: (k2, v2)})
    for plan in plans:
        for a0 in (True, False):
            for b0 in (False, True):
                for ok in (True, False):
                    for keep in (False, True):
                        if len(plan) == 2 and mode == "single" and rng.random() < 0.75:
                            continue
                        o = run_save_direct(a0, b0, ok, keep, plan, work)
                        table = {"OLD-A": [1], "BAK0": [-9], "OTHER": [5], "GARB": [-3]}
                        if o["new_text"]:
                            h = o["new_text"][:len(o["new_text"]) // 2]
                            table[h] = [-4]
                            table[o["new_text"]] = [2, 2]
                        code = make_coder(table)
                        expr = "show_save %s %s %s %s %s %s" % (
                            pos, core.coq_bool(keep), coq_opt_content([1] if a0 else None), coq_opt_content([-9] if b0 else None),
                            coq_opt_content([2, 2] if ok else None), coq_sched(plan, o["fired"], code, o["nat"]))
                        exp = [sx_file(code(o["A"])), sx_file(code(o["bak"])), sx_file(code(o["B"])), o["outcome"]]
                        case = {"direct": True, "a_present": a0, "bak_present": b0, "serialisable": ok, "keep": keep,
                                "faults": {s: list(kv) for s, kv in plan.items()}}
                        res["cases"].append((expr, exp, case))
                        res["seen"].append((("direct", a0, b0, ok, keep, tuple(sorted(plan.items()))), True))
                        res["counts"]["direct:outcome:" + o["outcome"][0]] = res["counts"].get("direct:outcome:" + o["outcome"][0], 0) + 1
                        # direct oracle: nothing is ever lost; single Exception => restored
                        what = oracle_direct(a0, b0, ok, keep, o)
                        if what:
                            res["fails"].append((dict(case, clause="restore", observed=o), what))
    shutil.rmtree(work, ignore_errors=True)
    return res


# --------------------------------------------------------------------------
# round 3: crash points, every branch of _save_content, file-type dispatch, histories
# (model: coq/theories/Cli/GenModel.v, FormatModel.v; rendering: Cli/GenShow.v)
# --------------------------------------------------------------------------

GEN_HEADER = ("From DD Require Import Base.PyStr Cli.FsModel Cli.FsShow Cli.GenModel Cli.FormatModel Cli.GenShow.\n"
              "Local Open Scope Z_scope.")
CRASH_EXIT = 77


def read_raw(path):
    try:
        with _REAL["open"](path, "rb") as f:
            return f.read()
    except FileNotFoundError:
        return None
    except IsADirectoryError:
        return b"<dir>"


def forked(fn):
    """run fn() in a forked child; -> (exit code, report).  The child leaves with os._exit: nothing of the
    parent's state (pool pipes, atexit handlers, scratch removal) runs in it; a crash point inside fn ends it
    with CRASH_EXIT and no report."""
    import pickle as _pk
    r, w = os.pipe()
    pid = os.fork()
    if pid == 0:
        code = 70
        try:
            os.close(r)
            rep = fn()
            data = _pk.dumps(rep)
            while data:
                n = os.write(w, data)
                data = data[n:]
            os.close(w)
            code = 0
        except BaseException:
            code = 71
        finally:
            os._exit(code)
    os.close(w)
    chunks = []
    import select
    import signal
    while True:
        ready, _, _ = select.select([r], [], [], 120)
        if not ready:                       # a stuck child: give up on it
            os.kill(pid, signal.SIGKILL)
            break
        c = os.read(r, 1 << 16)
        if not c:
            break
        chunks.append(c)
    os.close(r)
    _, status = os.waitpid(pid, 0)
    code = os.waitstatus_to_exitcode(status)
    rep = None
    if code == 0 and chunks:
        rep = _pk.loads(b"".join(chunks))
    return code, rep


def _have(mod):
    import importlib
    try:
        importlib.import_module(mod)
        return True
    except Exception:
        return False


_MODS = None


def fmt_mods():
    """which optional modules import here: decides the branch shapes the model is run with"""
    global _MODS
    if _MODS is None:
        yaml = _have("yaml")
        _MODS = {"load": {"json": True, "yaml": yaml, "toml": _have("tomllib") or _have("tomli"), "pickle": True, "csv": True},
                 "save": {"json": True, "yaml": yaml, "toml": _have("tomli_w"), "pickle": True, "csv": True},
                 "clevercsv": _have("clevercsv")}
    return _MODS


FMT_OF_EXT = {"json": "json", "yaml": "yaml", "yml": "yaml", "toml": "toml", "pickle": "pickle", "csv": "csv", "tsv": "csv"}
COQ_FMT = {"json": "FJson", "yaml": "FYaml", "toml": "FToml", "pickle": "FPickle", "csv": "FCsv"}


def coq_shape(ftype, pos):
    fm = FMT_OF_EXT.get(ftype)
    if fm is None or not fmt_mods()["save"][fm]:
        return "ShNone"
    return "(ShBuf %s)" % pos if fm == "json" else "ShStream"


def coq_fmt_list(which):
    return "[" + "; ".join(COQ_FMT[k] for k, v in sorted(fmt_mods()[which].items()) if v) + "]"


class Coder:
    """bytes / text -> integer content of the model; unknown contents get fresh negative codes (stable within
    one case), the empty file is []"""

    def __init__(self, table):
        self.table = dict(table)
        self.next = -100

    def __call__(self, data):
        if data is None:
            return None
        if len(data) == 0:
            return []
        if data not in self.table:
            self.table[data] = [self.next]
            self.next -= 1
        return self.table[data]


def coq_optopt(present, c):
    return "(Some %s)" % coq_opt_content(c) if present else "None"


def g_content(ftype, kind):
    """the object handed to save_content_to_path: kind 'ok' (serialisable), 'bad' (rejected before a byte is
    written), 'late' (rejected after part of it went to the file)"""
    fm = FMT_OF_EXT.get(ftype)
    if fm == "json":
        return {"n": [1, 2, {"x": None}]} if kind == "ok" else {"n": object()}
    if fm == "csv":
        if kind == "ok":
            return [{"a": 1, "b": "x"}, {"a": 2, "b": "y,z"}, {"a": 3, "b": "line\nbreak"}]
        if kind == "bad":
            return []                                            # content[0]: IndexError, after open
        return [{"a": i, "b": "x" * 40} for i in range(400)] + [{"a": 1, "zz": 2}]     # ValueError after ~16 kB
    if fm == "pickle":
        if kind == "ok":
            return {"n": [1, 2, (3, 4)], "s": {1, 2}, "t": None, "b": b"\x00\xff"}
        if kind == "bad":
            return {"f": (lambda: 0)}
        return {"big": ["x" * 70000, "y" * 70000], "f": (lambda: 0)}      # frames are flushed before the failure
    return {"x": 1}


class _Extra:
    """instrument the serialisers of the streaming branches: pickle_dump and csv.DictWriter"""

    def __init__(self, inj):
        self.inj = inj

    def __enter__(self):
        import csv
        import deepdiff.serialization as ser
        inj = self.inj
        self.ser, self.csv = ser, csv
        self.pd, self.dw = ser.pickle_dump, csv.DictWriter
        real_pd, real_dw = self.pd, self.dw

        def pickle_dump(*a, **k):
            if inj.due("dumps"):
                inj.fire("dumps")
            return inj.natural("dumps", real_pd, *a, **k)

        class DictWriter:
            def __init__(self_, *a, **k):
                if inj.due("dumps"):
                    inj.fire("dumps")
                self_._w = inj.natural("dumps", real_dw, *a, **k)

            def writeheader(self_):
                return inj.natural("dumps", self_._w.writeheader)

            def writerows(self_, rows):
                return inj.natural("dumps", self_._w.writerows, rows)

            def writerow(self_, row):
                return inj.natural("dumps", self_._w.writerow, row)

        ser.pickle_dump = pickle_dump
        csv.DictWriter = DictWriter
        return self

    def __exit__(self, *exc):
        self.ser.pickle_dump = self.pd
        self.csv.DictWriter = self.dw
        return False


def _report(inj, outcome):
    return {"outcome": outcome, "fired": dict(inj.fired), "nat": dict(inj.nat), "trace": list(inj.trace),
            "disk_before": dict(inj.disk_before), "disk_at_write": list(inj.disk_at_write),
            "first_write": inj.first_write, "closed": inj.closed, "closed_disk": inj.closed_disk}


def g_run(ftype, a_present, prebak, kind, keep, plan, crash, two_phase, work):
    """save_content_to_path(content, A, file_type, keep_backup) in a forked child, optionally killed at a crash
    point; -> (exit code, report of the child or None, directory state afterwards)"""
    d = tempfile.mkdtemp(dir=work)
    A, B = os.path.join(d, "a." + ftype), os.path.join(d, "b.bin")
    if a_present:
        with open(A, "wb") as f:
            f.write(b"OLD-A")
    if prebak:
        with open(A + ".bak", "wb") as f:
            f.write(b"BAK0")
    with open(B, "wb") as f:
        f.write(b"OTHER")

    def child():
        from deepdiff.serialization import save_content_to_path
        content = g_content(ftype, kind)
        inj = Injector(A, os.path.join(d, "nope"), plan, reader=read_raw, crash=crash, two_phase=two_phase)
        outcome = ["done"]
        with inj, _Extra(inj):
            try:
                save_content_to_path(content, A, file_type=ftype, keep_backup=keep)
            except BaseException as e:
                k, step = inj.tags.get(id(e), ("exc" if isinstance(e, Exception) else "base", "dumps"))
                outcome = ["raised", k, step]
        return _report(inj, outcome)

    code, rep = forked(child)
    obs = {"A": read_raw(A), "bak": read_raw(A + ".bak"), "B": read_raw(B),
           "others": sorted(x for x in os.listdir(d) if x not in ("a." + ftype, "a." + ftype + ".bak", "b.bin"))}
    shutil.rmtree(d, ignore_errors=True)
    return code, rep, obs


def g_env(rep, coder, two_phase, mid=None, late=False, stream=False):
    """the environment of the model, read off the reference run: what was on disk when close() began (= what the
    serialiser / write had flushed), what a rejecting streaming serialiser had flushed when it gave up, what
    close() left, and the predicted on-disk content of a crash in mid-write"""
    at_close = "close" in rep["disk_before"]
    pend = coder(rep["disk_before"].get("close")) if at_close else None
    nat_ = coder(rep["nat"]["dumps"][1]) if (stream and "dumps" in rep["nat"]) else pend
    return "(ev_of %s %s %s %s %s %s)" % (
        core.coq_bool(not two_phase), coq_opt_content(nat_), coq_opt_content(mid), coq_opt_content(pend),
        coq_optopt(rep["closed"], coder(rep["closed_disk"]) if rep["closed"] else None), core.coq_bool(late))


def g_sched(plan, rep, coder, stream=False):
    """the schedule given to the model: the faults that fired (with the debris seen on disk) and the failures the
    library produced by itself; a planned fault whose step the run never reached is not consulted by either side.
    In the streaming branches a serialiser that rejects the document is not a fault of the schedule: the model
    is told that the document is not serialisable (new = None) and what was on disk (e_nat, e_late)"""
    nat = {k: v for k, v in rep["nat"].items() if not (stream and k == "dumps")}
    return coq_sched({s: kv for s, kv in plan.items() if s in rep["fired"]}, rep["fired"], coder, nat)


def g_half(rep):
    fw = rep["first_write"]
    if fw is None:
        return None
    h = fw[:len(fw) // 2]
    return h.encode("utf-8") if isinstance(h, str) else bytes(h)


def crash_oracle(a_present, prebak, new_bytes, completed, o):
    """the theorems' conclusions on the real directory (no reference to the model)"""
    if not a_present:
        return None
    if b"OLD-A" not in (o["A"], o["bak"]) and not (o["A"] == new_bytes and new_bytes is not None):
        return "a crash left neither the original content (in A or A.bak) nor the complete new content in A"
    if o["A"] not in (b"OLD-A", new_bytes) and o["bak"] != b"OLD-A":
        return "a crash left a missing / truncated target without a backup holding the original content"
    if not prebak:
        rec = o["bak"] if o["bak"] is not None else o["A"]
        if rec not in (b"OLD-A", new_bytes):
            return "recovery (put A.bak back) after a crash yields neither the old nor the new content"
    if o["B"] != b"OTHER" or o["others"]:
        return "an unrelated file was touched or a temporary file was left behind"
    return None


SAVE_POINTS = [p for p in POINTS if p[0] not in PRE_STEPS]


def crash_task(args):
    """one (file type, keep, kind of content): reference runs under fault plans (final state vs show_save_g) and a
    forked child killed at every crash point of each plan (directory vs show_crash)"""
    ftype, keep, kind, seed, thorough, scratch = args
    sys.path.insert(0, core.REPO)
    _quiet()
    import csv, deepdiff.serialization, deepdiff.delta  # noqa: F401,E401  (imported before forking)
    rng = random.Random(seed)
    work = tempfile.mkdtemp(prefix="cr_", dir=scratch)
    res = {"cases": [], "fails": [], "counts": {}, "seen": [], "samples": [], "breaks": []}

    def count(k, n=1):
        res["counts"][k] = res["counts"].get(k, 0) + n

    code0, rep0, obs0 = g_run(ftype, True, False, "ok", False, {}, None, False, work)
    if rep0 is None:
        res["breaks"].append({"name": "crash_task", "ftype": ftype, "error": "reference child died with %r" % code0})
        return res
    pos = dumps_placement(rep0["trace"]) or "DInside"
    new_bytes = obs0["A"] if rep0["outcome"] == ["done"] else None
    sh = coq_shape(ftype, pos)
    count("shape:%s:%s" % (ftype, sh))
    new_coq = coq_opt_content([2, 2] if (kind == "ok" and sh != "ShNone") else None)

    plans = [{}]
    for (s, v) in SAVE_POINTS:
        plans.append({s: ("exc", v)})
    base_pts = SAVE_POINTS if thorough else rng.sample(SAVE_POINTS, 4)
    for (s, v) in base_pts:
        plans.append({s: ("base", v)})
    pairs = [(p, q) for i, p in enumerate(SAVE_POINTS) for q in SAVE_POINTS[i + 1:] if p[0] != q[0]]
    for (p, q) in (pairs if thorough else rng.sample(pairs, 4)):
        plans.append({p[0]: (rng.choice(["exc", "exc", "base"]), p[1]), q[0]: (rng.choice(["exc", "base"]), q[1])})

    for plan in plans:
        for prebak in ((False, True) if (len(plan) == 0 or (len(plan) == 1 and (thorough or rng.random() < 0.3))) else (False,)):
            code, rep, obs = g_run(ftype, True, prebak, kind, keep, plan, None, False, work)
            if rep is None:
                res["breaks"].append({"name": "crash_task", "ftype": ftype, "plan": repr(plan), "error": "child died with %r" % code})
                continue
            table = {b"OLD-A": [1], b"BAK0": [-9], b"OTHER": [5], b"GARB": [-3]}
            if new_bytes:
                table[new_bytes] = [2, 2]
            coder = Coder(table)
            a0, b0 = coq_opt_content([1]), coq_opt_content([-9] if prebak else None)
            stream, late = sh == "ShStream", kind == "late"
            sched = g_sched(plan, rep, coder, stream)
            tag = {"stream": "save_g", "ftype": ftype, "kind": kind, "keep": keep, "prebak": prebak,
                   "faults": {s: list(kv) for s, kv in plan.items()}}
            # ---- final state of the completed run -------------------------------------------------
            expr = "show_save_g %s %s %s %s %s %s %s" % (sh, g_env(rep, coder, False, None, late, stream), core.coq_bool(keep), a0, b0, new_coq, sched)
            exp = [sx_file(coder(obs["A"])), sx_file(coder(obs["bak"])), sx_file(coder(obs["B"])), rep["outcome"]]
            res["cases"].append((expr, exp, tag))
            res["seen"].append((("save_g", ftype, kind, keep, prebak, tuple(sorted(plan.items()))), True))
            count("save_g:outcome:" + ":".join(str(x) for x in rep["outcome"][:2]))
            what = crash_oracle(True, prebak, new_bytes, True, obs) if rep["outcome"][0] == "raised" else None
            if rep["outcome"] == ["done"] and (obs["A"] != new_bytes or (obs["bak"] == b"OLD-A") != keep):
                what = "save_content_to_path returned normally without the new content in A / the backup kept iff keep_backup"
            if what:
                res["fails"].append((dict(tag, observed=repr(obs)), what))
            # ---- the crash points of this run -----------------------------------------------------
            # steps the reference run attempted, and (as "never reached" checks) the renames / open / close / remove it
            # did not; a failing streaming serialiser may or may not have written before it failed, and the streaming
            # branches have no serialisation step of their own: those two only where the reference run has them
            points = [("before", s) for s in ["backup", "open", "write", "close", "restore", "remove"]
                      if s in rep["trace"] or s != "write"]
            if FMT_OF_EXT.get(ftype) == "json" or "dumps" in rep["fired"]:
                points.append(("before", "dumps"))
            if "write" not in plan and rep["first_write"] is not None:
                points.append(("mid", "write", 0))
                for j in range(1, len(rep["disk_at_write"])):
                    points.append(("mid", "write", j))
            points += [("mid", "backup"), ("mid", "restore")]
            if not thorough and len(plan) == 2:
                points = rng.sample(points, 3)
            for cp in points:
                two_phase = cp[0] == "mid" and cp[1] in ("backup", "restore")
                mid = None
                if cp[0] == "mid" and cp[1] == "write":
                    mid = coder(g_half(rep)) if cp[2] == 0 else coder(rep["disk_at_write"][cp[2]])
                ccode, crep, cobs = g_run(ftype, True, prebak, kind, keep, plan, cp, two_phase, work)
                reached = ccode == CRASH_EXIT
                if not reached and crep is None:
                    res["breaks"].append({"name": "crash_task", "ftype": ftype, "plan": repr(plan), "crash": repr(cp),
                                          "error": "child died with %r" % ccode})
                    continue
                expr = "show_crash %s %s %s %s %s %s %s %s %s" % (
                    sh, g_env(rep, coder, two_phase, mid, late, stream), core.coq_bool(keep), a0, b0, new_coq, sched,
                    COQ_STEP[cp[1]], core.coq_bool(cp[0] == "mid"))
                exp = [sx_file(coder(cobs["A"])), sx_file(coder(cobs["bak"])), sx_file(coder(cobs["B"]))] if reached else ["not-reached"]
                ctag = dict(tag, stream="crash", crash=list(cp))
                res["cases"].append((expr, exp, ctag))
                res["seen"].append((("crash", ftype, kind, keep, prebak, tuple(sorted(plan.items())), cp), True))
                count("crash:%s" % ("reached" if reached else "not_reached"))
                if reached:
                    count("crash_at:%s" % "/".join(str(x) for x in cp[:2]))
                    if cobs["A"] not in (b"OLD-A", new_bytes):
                        count("crash:target_missing_or_truncated")
                    what = crash_oracle(True, prebak, new_bytes, False, cobs)
                    if what:
                        res["fails"].append((dict(ctag, observed=repr(cobs)), what))
    if len(res["samples"]) < 1:
        res["samples"].append({"crash_task": ftype, "kind": kind, "keep": keep, "shape": sh, "plans": len(plans)})
    shutil.rmtree(work, ignore_errors=True)
    return res


# ---- file-type dispatch -------------------------------------------------------------------------

DISPATCH_NAMES = ["a.json", "a.yaml", "a.yml", "a.toml", "a.pickle", "a.csv", "a.tsv", "a.txt", "a.JSON", "a.Json", "a.jsonl",
                  "a.json.bak", "a.tar.yml", "a.csv.json", "json", "a", "a.", ".json", "a..json", "a.pkl", "a.yaml ", "a.json~",
                  "v1.json/data", "v1.json/data.csv", "x.y/z", "a.b.c.d.toml", "a.tsv.pickle", "noext/", "a.ya.ml", "a.picklee",
                  "é.json", "a.jsön"]


def dispatch_probe(name, work):
    """which branch of load_path_content / _save_content the real code takes for this path (no file is needed for
    the save side: a sentinel is raised from open; the load side reads a small toml-looking file)"""
    import deepdiff.serialization as ser
    ext = name.split('.')[-1]

    class _Stop(Exception):
        pass

    seen = {}

    def fake_open(file, mode="r", *a, **k):
        seen["mode"] = mode
        seen["newline"] = k.get("newline", None)
        raise _Stop()

    builtins.open = fake_open
    try:
        try:
            ser._save_content(content=[{"x": 1}], path=name, file_type=ext)
            branch = "?"
        except _Stop:
            branch = {("w", None): "json", ("wb", None): "pickle", ("w", ""): "csv"}.get((seen["mode"], seen["newline"]), "?open:%r" % (seen,))
        except ImportError as e:
            branch = "yaml" if "yaml" in str(e).lower() else ("toml" if "tomli" in str(e).lower() else "?import")
        except ser.UnsupportedFormatErr:
            branch = "unsupported"
        except Exception as e:
            branch = "?%s" % type(e).__name__
    finally:
        builtins.open = _REAL["open"]
    # the load side, on a real file
    d = tempfile.mkdtemp(dir=work)
    p = os.path.join(d, "f." + ext) if "/" not in ext else None
    lbranch = None
    if p is not None:
        try:
            with open(p, "wb") as f:
                f.write(b"x = 1\n")
            try:
                v = ser.load_path_content(p, file_type=ext)
                lbranch = "toml" if v == {"x": 1} else ("csv" if v == [] else "?value:%r" % (v,))
            except ImportError as e:
                lbranch = "yaml" if "yaml" in str(e).lower() else ("toml" if "tomli" in str(e).lower() else "?import")
            except ser.UnsupportedFormatErr:
                lbranch = "unsupported"
            except Exception as e:
                n = type(e).__name__
                lbranch = {"JSONDecodeError": "json", "UnpicklingError": "pickle"}.get(n, "?%s" % n)
        except OSError:
            lbranch = None
    shutil.rmtree(d, ignore_errors=True)
    return ext, branch, lbranch


def dispatch_cases(ctx):
    cases = []
    mods = fmt_mods()
    for name in DISPATCH_NAMES:
        ext, branch, lbranch = dispatch_probe(name, ctx.scratch)
        ctx.evaluations += 1
        # with the optional modules installed the save side of yaml/toml opens the file like json/pickle does:
        # the probe then cannot tell them apart - only claim what it can see
        if branch in ("json", "pickle") and FMT_OF_EXT.get(ext) in ("yaml", "toml") and mods["save"][FMT_OF_EXT[ext]]:
            branch = FMT_OF_EXT[ext]
        cases.append(("show_fmt %s" % core.coq_pystr(name), [ext, branch], {"stream": "dispatch", "path": name, "side": "save"}))
        if lbranch is not None and not lbranch.startswith("?"):
            if lbranch != branch and not (lbranch == "csv" and branch == "csv"):
                ctx.break_("correspondence", {"name": "dispatch", "path": name, "save_branch": branch, "load_branch": lbranch,
                                              "meaning": "load_path_content and _save_content dispatch differently on this extension"})
        ctx.count("dispatch:" + branch)
    return cases


# ---- `deep patch` on targets of every type (toy documents), with faults --------------------------

def fmt_doc_bytes(ftype, which):
    """two documents per file type, as file contents"""
    fm = FMT_OF_EXT.get(ftype)
    if fm == "csv":
        return (b"a,b\n1,x\n2,y\n", b"a,b\n1,x\n3,z\n4,w\n")[which]
    if fm == "pickle":
        from deepdiff.serialization import pickle_dump
        return pickle_dump(({"a": (1, 2), "s": {1, 2}}, {"a": (1, 3), "s": {2, 3}, "n": None})[which])
    if fm == "toml":
        return (b"x = 1\n", b"x = 2\ny = [1, 2]\n")[which]
    if fm == "yaml":
        return (b"x: 1\n", b"x: 2\n")[which]
    return (b'{"x": 1}', b'{"x": 2, "y": [1, 2]}')[which]


def cli_fmt_task(args):
    """the real `deep patch` on a.<ftype> under fault plans, compared with patch_cmd_g at the observed placement of json_dumps
    (show_patch_gp; PlaceProofs.patch_cmd_gp_inside: at DInside it is patch_cmd_g)"""
    ftype, seed, thorough, scratch = args
    sys.path.insert(0, core.REPO)
    _quiet()
    from click.testing import CliRunner
    from deepdiff.commands import diff, patch
    rng = random.Random(seed)
    work = tempfile.mkdtemp(prefix="cf_", dir=scratch)
    res = {"cases": [], "fails": [], "counts": {}, "seen": [], "samples": [], "breaks": []}
    fm = FMT_OF_EXT.get(ftype)
    mods = fmt_mods()
    a_bytes, b_bytes = fmt_doc_bytes(ftype, 0), fmt_doc_bytes(ftype, 1)

    def setup():
        d = tempfile.mkdtemp(dir=work)
        A, B, P = os.path.join(d, "a." + ftype), os.path.join(d, "b." + ftype), os.path.join(d, "delta.pickle")
        for p, data in ((A, a_bytes), (B, b_bytes)):
            with open(p, "wb") as f:
                f.write(data)
        return d, A, B, P

    # the patch file: from a real diff of the two documents when this type loads here, else from the json pair
    d, A, B, P = setup()
    r = CliRunner().invoke(diff, [A, B, "--create-patch"])
    loadable = fm is not None and mods["load"][fm]
    if (r.exit_code == 0) != loadable:
        res["breaks"].append({"name": "cli_fmt", "ftype": ftype, "error": "deep diff exit %r, but the model says loadable=%r" % (r.exit_code, loadable)})
    if r.exit_code == 0:
        delta_bytes = r.stdout_bytes
    else:
        dj = tempfile.mkdtemp(dir=work)
        for n, data in (("a.json", b'{"x": 1}'), ("b.json", b'{"x": 2}')):
            with open(os.path.join(dj, n), "wb") as f:
                f.write(data)
        delta_bytes = CliRunner().invoke(diff, [os.path.join(dj, "a.json"), os.path.join(dj, "b.json"), "--create-patch"]).stdout_bytes
    shutil.rmtree(d, ignore_errors=True)

    plans = [{}] + [{s: ("exc", v)} for (s, v) in POINTS] + [{s: ("base", v)} for (s, v) in rng.sample(POINTS, 4)]
    new_bytes = None
    pos = None          # json target: where the implementation calls json_dumps (call trace of the fault-free run, plans[0])
    for plan in plans:
        for keep in (False, True):
            debug = rng.random() < 0.5
            d, A, B, P = setup()
            with open(P, "wb") as f:
                f.write(delta_bytes)
            inj = Injector(A, P, plan, reader=read_raw)
            escaped = None
            with inj, _Extra(inj):
                try:
                    r = CliRunner().invoke(patch, [A, P] + (["--backup"] if keep else []) + (["--debug"] if debug else []))
                except BaseException as e:
                    r, escaped = None, e
            if r is None:
                cli = ["exc", inj.tags.get(id(escaped), (None, "dumps"))[1]]
            else:
                e = r.exception
                cli = ["exit", r.exit_code] if (e is None or isinstance(e, SystemExit)) else ["exc", inj.tags.get(id(e), (None, "dumps"))[1]]
            obs = {"A": read_raw(A), "bak": read_raw(A + ".bak"), "B": read_raw(B), "P": read_raw(P),
                   "others": sorted(x for x in os.listdir(d) if x not in ("a." + ftype, "a." + ftype + ".bak", "b." + ftype, "delta.pickle"))}
            rep = _report(inj, None)
            if not plan and new_bytes is None and cli == ["exit", 0]:
                new_bytes = obs["A"]
            if not plan and pos is None and ftype == "json":
                pos = dumps_placement(inj.trace)
                res["counts"]["cli_fmt:placement:%s" % (pos or "DInside")] = 1
            table = {a_bytes: [1], b"GARB": [-3]}
            if new_bytes:
                table[new_bytes] = [2, 2]
            coder = Coder(table)
            expr = "show_patch_gp %s %s %s %s %s %s %s %s None 1 2 %s" % (
                pos or "DInside", core.coq_pystr(A), coq_fmt_list("load"), coq_fmt_list("save"), g_env(rep, coder, False),
                core.coq_bool(keep), core.coq_bool(debug), coq_opt_content([1]), g_sched(plan, rep, coder))
            exp = [sx_file(coder(obs["A"])), sx_file(coder(obs["bak"])), [cli[0], cli[1]]]
            tag = {"stream": "cli_fmt", "ftype": ftype, "keep": keep, "debug": debug, "faults": {s: list(kv) for s, kv in plan.items()}}
            res["cases"].append((expr, exp, tag))
            res["seen"].append((("cli_fmt", ftype, keep, debug, tuple(sorted(plan.items()))), True))
            res["counts"]["cli_fmt:%s:%s" % (ftype, ":".join(str(x) for x in cli))] = res["counts"].get("cli_fmt:%s:%s" % (ftype, ":".join(str(x) for x in cli)), 0) + 1
            # direct oracle: nothing is ever lost; B / the patch file / the directory are untouched; one Exception => restored
            what = None
            if cli != ["exit", 0] and a_bytes not in (obs["A"], obs["bak"]):
                what = "`deep patch a.%s` failed and the original content survives neither in A nor in A.bak" % ftype
            elif obs["B"] != b_bytes or obs["P"] != delta_bytes or obs["others"]:
                what = "`deep patch a.%s` touched another file" % ftype
            elif len(plan) == 1 and len(inj.fired) == 1 and list(plan.values())[0][0] == "exc" and list(plan)[0] not in ("restore", "remove") \
                    and (obs["A"] != a_bytes or obs["bak"] is not None or cli == ["exit", 0]):
                what = "a single failure at '%s' of `deep patch a.%s` was not rolled back" % (list(plan)[0], ftype)
            if what:
                res["fails"].append((dict(tag, observed=repr(obs)), what))
            shutil.rmtree(d, ignore_errors=True)
    shutil.rmtree(work, ignore_errors=True)
    return res


# ---- round trips through the real codecs: the hypothesis of C20_patch_reproduces_iff_codec_roundtrips ----

def _doc_same(x, y):
    try:
        if x == y:
            return True
    except Exception:
        pass
    return repr(x) == repr(y)                 # nan


def gen_csv_rows(rng):
    keys = rng.sample(["a", "b", "c", "name", "x y", "k,1", "q\"", "é"], rng.randint(1, 4))
    vals = [0, 1, -7, 2 ** 40, 1.5, -0.25, 1e100, float("inf"), 1j, 2 + 3j, "x", "abc", "a,b", "line\nbreak", 'say "hi"', " padded ",
            "", "True", "None", "1e", "0x10", "日本", "12abc"]
    return [{k: rng.choice(vals) for k in keys} for _ in range(rng.randint(1, 5))]


def csv_text(rows):
    import csv
    import io as _io
    buf = _io.StringIO(newline="")
    w = csv.DictWriter(buf, fieldnames=list(rows[0].keys()))
    w.writeheader()
    w.writerows(rows)
    return buf.getvalue().encode("utf-8")


def gen_pickle_doc(rng, depth=3):
    r = rng.random()
    if depth <= 0 or r < 0.3:
        return rng.choice([0, 1, -5, 2 ** 70, 1.5, True, None, "s", "é", b"\x00\x01", (1, 2), (), frozenset([1, 2]), {1, 2}, 1j])
    if r < 0.55:
        return {rng.choice(["a", "b", 1, (1, 2), None]): gen_pickle_doc(rng, depth - 1) for _ in range(rng.randint(0, 3))}
    if r < 0.8:
        return [gen_pickle_doc(rng, depth - 1) for _ in range(rng.randint(0, 4))]
    return tuple(gen_pickle_doc(rng, depth - 1) for _ in range(rng.randint(0, 3)))


# real codecs outside the round-trip hypothesis (and serialisers that reject documents their own loader
# produced): (target type, A bytes, other type, B bytes, expected symptom)
FORMAT_WITNESSES = [
    ("csv-str-digits", "csv", b"a\n1\n", "json", b'[{"a": "1"}]', "differs"),            # "1" comes back as the int 1
    ("csv-none", "csv", b"a\n1\n", "json", b'[{"a": null}]', "differs"),                   # None is written as "" and stays ""
    ("csv-nested", "csv", b"a\n1\n", "json", b'[{"a": [1, 2]}]', "differs"),               # a list is written as its repr
    ("csv-bool", "csv", b"a\n1\n", "json", b'[{"a": true}]', "differs"),                   # True -> "True"
    ("csv-empty", "csv", b"a,b\n1,x\n", "csv", b"a,b\n", "save_fails_restored"),           # content[0] on []: IndexError
    ("csv-ragged", "csv", b"a\n1\n", "json", b'[{"a": 1}, {"b": 2}]', "save_fails_restored"),   # fieldnames from the first row only
    ("csv-not-rows", "csv", b"a\n1\n", "json", b'{"a": 1}', "save_fails_restored"),        # a dict is not a list of rows
    ("json-complex", "json", b'[{"a": 1}]', "csv", b"a\n1j\n", "save_fails_restored"),     # csv cells that look like complex numbers
    ("csv-short-row", "csv", b"a,b\n1\n", "csv", b"a,b\n1,2\n", "load_fails"),             # restval None has no .strip()
    ("tsv-is-comma", "tsv", b"a\tb\n1\tx\n", "tsv", b"a\tb\n2\tx\n", "reproduces"),       # (a .tsv is read with commas: one column "a\tb")
]


def fmt_witness(ctx, name, ta, a_bytes, tb, b_bytes, expect):
    from click.testing import CliRunner
    from deepdiff.commands import diff, patch
    from deepdiff.serialization import load_path_content
    d = tempfile.mkdtemp(dir=ctx.scratch)
    A, B, P = os.path.join(d, "a." + ta), os.path.join(d, "b." + tb), os.path.join(d, "delta.pickle")
    for p, data in ((A, a_bytes), (B, b_bytes)):
        with open(p, "wb") as f:
            f.write(data)
    r = CliRunner().invoke(diff, [A, B, "--create-patch"])
    got = None
    if r.exit_code != 0:
        got = "load_fails"
    else:
        with open(P, "wb") as f:
            f.write(r.stdout_bytes)
        r2 = CliRunner().invoke(patch, [A, P])
        if r2.exit_code != 0:
            got = "save_fails_restored" if (read_raw(A) == a_bytes and read_raw(A + ".bak") is None) else "save_fails_NOT_restored"
        else:
            try:
                got = "reproduces" if _doc_same(load_path_content(A), load_path_content(B)) else "differs"
            except Exception as e:
                got = "reload_fails:%s" % type(e).__name__
    shutil.rmtree(d, ignore_errors=True)
    ctx.evaluations += 1
    ctx.count("format_witness:%s:%s" % (name, got))
    if got != expect:
        ctx.break_("correspondence", {"name": "FORMAT_WITNESSES", "witness": name, "expected": expect, "observed": got,
                                      "meaning": "the implementation no longer behaves as documented for this codec witness"})


def roundtrip_fmt_task(args):
    """generated csv / pickle documents through the real CLI; the exact statement of C20_patch_reproduces_any_format:
    A afterwards loads as what A's loader makes of A's serialiser's output for B's document (computed independently
    through _save_content / load_path_content); equal to B's document whenever that codec round trip is the identity"""
    ftype, n, seed, scratch = args
    sys.path.insert(0, core.REPO)
    _quiet()
    from click.testing import CliRunner
    from deepdiff.commands import diff, patch
    from deepdiff.serialization import load_path_content, _save_content, pickle_dump
    rng = random.Random(seed)
    work = tempfile.mkdtemp(prefix="rt_", dir=scratch)
    res = {"cases": [], "fails": [], "counts": {}, "seen": [], "samples": [], "breaks": []}

    def count(k):
        res["counts"][k] = res["counts"].get(k, 0) + 1

    for i in range(n):
        btype = ftype
        if ftype == "csv":
            a_doc, b_doc = gen_csv_rows(rng), gen_csv_rows(rng)
            if rng.random() < 0.5:                          # related rows
                b_doc = copy.deepcopy(a_doc)
                for _ in range(rng.randint(1, 3)):
                    row = rng.choice(b_doc)
                    row[rng.choice(list(row))] = rng.choice([5, "changed", 2.5, "7"])
                if rng.random() < 0.4:
                    b_doc.append(dict(b_doc[0]))
            a_bytes, b_bytes = csv_text(a_doc), csv_text(b_doc)
            if rng.random() < 0.3:
                # the other file is JSON: rows the csv codec does not round-trip (digits in strings, null, booleans, nesting)
                btype = "json"
                keys = list(a_doc[0])
                b_doc = [{k: rng.choice(["1", "2.5", None, True, [1, 2], "x", 3, {"n": 1}, " 7 "]) for k in keys} for _ in range(rng.randint(1, 3))]
                b_bytes = json.dumps(b_doc).encode("ascii")
        else:
            a_doc, b_doc = gen_pickle_doc(rng), gen_pickle_doc(rng)
            try:
                a_bytes, b_bytes = pickle_dump(a_doc), pickle_dump(b_doc)
            except Exception:
                continue
        d = tempfile.mkdtemp(dir=work)
        A, B, P, T = (os.path.join(d, x) for x in ("a." + ftype, "b." + btype, "delta.pickle", "t." + ftype))
        for p, data in ((A, a_bytes), (B, b_bytes)):
            with open(p, "wb") as f:
                f.write(data)
        tag = {"stream": "roundtrip_fmt", "ftype": ftype, "a": repr(a_bytes)[:300], "b": repr(b_bytes)[:300]}
        try:
            a_loaded, b_loaded = load_path_content(A), load_path_content(B)
        except Exception:
            count("roundtrip_fmt:%s:input_does_not_load" % ftype)
            shutil.rmtree(d, ignore_errors=True)
            continue
        # the codec round trip of B's document in A's format, computed without the CLI
        try:
            _save_content(b_loaded, T, ftype)
            expected, dump_ok = load_path_content(T), True
        except Exception:
            expected, dump_ok = None, False
        hyp = dump_ok and _doc_same(expected, b_loaded)
        count("roundtrip_fmt:%s:codec_roundtrips=%s" % (ftype, hyp))
        r = CliRunner().invoke(diff, [A, B, "--create-patch"])
        res["seen"].append((("rtfmt", ftype, a_bytes, b_bytes), a_bytes != b_bytes))
        if r.exit_code != 0:
            res["fails"].append((dict(tag, clause="diff"), "`deep diff` failed on two loadable %s files: %s" % (ftype, r.output[-200:])))
            shutil.rmtree(d, ignore_errors=True)
            continue
        with open(P, "wb") as f:
            f.write(r.stdout_bytes)
        r2 = CliRunner().invoke(patch, [A, P, "--backup"])
        what = None
        if not dump_ok:
            if r2.exit_code == 0 or read_raw(A) != a_bytes or read_raw(A + ".bak") is not None:
                what = "the serialiser rejects B's document but `deep patch` did not fail cleanly (A restored, no backup)"
        elif r2.exit_code != 0:
            what = "fault-free `deep patch a.%s` failed: %s" % (ftype, r2.output[-200:])
        else:
            try:
                after = load_path_content(A)
            except Exception as e:
                after = e
            if not _doc_same(after, expected):
                what = "after patch A does not load as (load . save) of B's document"
            elif hyp and not _doc_same(after, b_loaded):
                what = "the codec round-trips B's document but A does not load equal to B after patch"
            elif read_raw(A + ".bak") != a_bytes:
                what = "--backup: A.bak does not hold the previous bytes"
        if what and dump_ok:
            # the theorem's premise C01 (delta application reproduces t2), observed on this pair through the API:
            # where it fails (tuple keys, sets inside tuples ...: findings of C01 / C09, not of this block) the
            # conclusion is not demanded
            try:
                from deepdiff import DeepDiff, Delta
                c01 = _doc_same(Delta(DeepDiff(copy.deepcopy(a_loaded), copy.deepcopy(b_loaded))) + copy.deepcopy(a_loaded), b_loaded)
            except Exception:
                c01 = False
            if not c01:
                count("roundtrip_fmt:%s:premise_C01_fails(conclusion_not_demanded)" % ftype)
                what = None
        if what:
            res["fails"].append((dict(tag, clause="reproduces_fmt", output=(r2.output or "")[-200:]), what))
        shutil.rmtree(d, ignore_errors=True)
    shutil.rmtree(work, ignore_errors=True)
    return res


# ---- histories: several `deep patch` commands on the same file (JSON documents; inside the property) ----

SAFE_KEYS = ["a", "b", "c", "k1", "key 2", "x.y", "id", "n"]


def gen_safe_doc(rng, depth=2):
    r = rng.random()
    if depth <= 0 or r < 0.3:
        return rng.choice([0, 1, 2, 7, -3, 1.5, "x", "abc", None, True, "line1\nline2"])
    if r < 0.7:
        return {rng.choice(SAFE_KEYS): gen_safe_doc(rng, depth - 1) for _ in range(rng.randint(1, 3))}
    return [gen_safe_doc(rng, depth - 1) for _ in range(rng.randint(0, 4))]


def _loads_or_none(text):
    from deepdiff.serialization import json_loads
    if text is None:
        return None, False
    try:
        return json_loads(text), True
    except Exception:
        return None, False


def history_task(args):
    """3-5 `deep patch` commands in a row on one a.json, each with its own B, flags and fault plan; the delta of
    each command is made by the real `deep diff` from the CURRENT content of A (a stale one when A does not load).
    After every command: (A, A.bak, exit status) against run_hist at the placement of json_dumps observed on the
    command's fault-free reference run (show_history_p -> run_hist_p; at DInside = run_hist), and - independently of the
    model - the statement's clauses for that command plus the invariant of C20_history_good_version_survives."""
    idx, seed, scratch = args
    sys.path.insert(0, core.REPO)
    _quiet()
    from click.testing import CliRunner
    from deepdiff.commands import diff, patch
    rng = random.Random(seed)
    work = tempfile.mkdtemp(prefix="h%d_" % idx, dir=scratch)
    res = {"cases": [], "fails": [], "counts": {}, "seen": [], "samples": [], "breaks": []}

    def count(k):
        res["counts"][k] = res["counts"].get(k, 0) + 1

    d = tempfile.mkdtemp(dir=work)
    A, B = os.path.join(d, "a.json"), os.path.join(d, "b.json")
    doc0 = gen_safe_doc(rng, 3)
    while not isinstance(doc0, (dict, list)):
        doc0 = gen_safe_doc(rng, 3)
    a_text0 = a_text_of(doc0, rng)
    with open(A, "w", encoding="utf-8", newline="") as f:
        f.write(a_text0)
    prebak = rng.random() < 0.15
    if prebak:
        with open(A + ".bak", "w") as f:
            f.write("BAK0")
    # document ids of the toy universe: 1 = the initial document; fresh ids for every new document
    doc_ids = [(doc0, 1)]
    table = {a_text0: [1], "BAK0": [-9], "GARB": [-3]}
    coder = Coder(table)

    def doc_id(doc):
        for (x, i) in doc_ids:
            if json.dumps(x, sort_keys=True) == json.dumps(doc, sort_keys=True) and _doc_same(x, doc):
                return i
        doc_ids.append((doc, len(doc_ids) + 1))
        return len(doc_ids)

    def code_text(text):
        """a text is [] when empty, [k; k] / [k] when it loads as document k (canonical text of a patched file /
        anything else that happens to load), else an unloadable debris code"""
        if text is None:
            return None
        if text == "":
            return []
        if text in coder.table:
            return coder.table[text]
        doc, ok = _loads_or_none(text)
        if ok:
            coder.table[text] = [doc_id(doc)]
            return coder.table[text]
        return coder(text)

    hcmds, expected = [], []
    pos = "DInside"                       # placement of the serialisation call, read off the reference runs' call traces
    cur_text = a_text0                    # the last complete version (for the invariant)
    stale = None
    guard_ok = True
    n_cmds = rng.randint(3, 5)
    for ci in range(n_cmds):
        a_now = read_text(A)
        bak_now = read_text(A + ".bak")
        if a_now is None:                 # click itself refuses a missing path (exit status 2): the history ends
            count("history:stopped_target_missing")
            break
        a_doc, a_loads = _loads_or_none(a_now)
        keep, debug = rng.random() < 0.5, rng.random() < 0.3
        r = rng.random()
        if r < 0.35:
            plan = {}
        elif r < 0.8:
            s, v = rng.choice(POINTS)
            plan = {s: (rng.choice(["exc", "exc", "base"]), v)}
        else:
            plan = {}
            for (s, v) in rng.sample(POINTS, 2):
                plan.setdefault(s, (rng.choice(["exc", "base"]), v))
        P = os.path.join(d, "d%d.pickle" % ci)
        new_text, frm, rs = None, 0, 0
        if a_loads:
            b_doc = edit_once(rng, a_doc, False)[0] if rng.random() < 0.85 else gen_safe_doc(rng, 2)
            if any(("'" in k and '"' in k) or ESC in k for k in keys_of(b_doc)) or any("old_type" in x and "new_type" in x for x in dicts_of(b_doc)):
                b_doc = {"n": ci}
            with open(B, "w", encoding="utf-8") as f:
                f.write(json_src(b_doc, indent=2) + "\n")
            rd = CliRunner().invoke(diff, [A, B, "--create-patch"])
            if rd.exit_code != 0:
                res["fails"].append(({"history": True, "clause": "diff", "a_text": a_now, "b_text": read_text(B)}, "`deep diff` failed inside a history: %s" % rd.output[-200:]))
                break
            delta_bytes = rd.stdout_bytes
            stale = delta_bytes
            # the reference result of this command: a fault-free run on a copy of the directory
            dref = tempfile.mkdtemp(dir=work)
            Ar, Pr = os.path.join(dref, "a.json"), os.path.join(dref, "p.pickle")
            with open(Ar, "w", encoding="utf-8", newline="") as f:
                f.write(a_now)
            with open(Pr, "wb") as f:
                f.write(delta_bytes)
            # (under an Injector with an empty plan: nothing fails, the call trace gives the placement of json_dumps)
            inj_ref = Injector(Ar, Pr, {})
            with inj_ref:
                rr = CliRunner().invoke(patch, [Ar, Pr])
            new_text = read_text(Ar) if rr.exit_code == 0 else None
            pos = dumps_placement(inj_ref.trace) or pos
            shutil.rmtree(dref, ignore_errors=True)
            if new_text is None:
                res["fails"].append(({"history": True, "clause": "reproduces", "a_text": a_now, "b_text": read_text(B), "faults": {}},
                                     "fault-free `deep patch` failed inside a history"))
                break
            new_doc, _ = _loads_or_none(new_text)
            frm, rs = doc_id(a_doc), doc_id(new_doc)
            coder.table.setdefault(new_text, [rs, rs])
        else:
            if stale is None:
                break
            delta_bytes = stale
            frm, rs = 1, 1
        with open(P, "wb") as f:
            f.write(delta_bytes)
        inj = Injector(A, P, plan, reader=read_text)
        escaped = None
        with inj:
            try:
                r2 = CliRunner().invoke(patch, [A, P] + (["--backup"] if keep else []) + (["--debug"] if debug else []))
            except BaseException as e:
                r2, escaped = None, e
        if r2 is None:
            cli = ["exc", inj.tags.get(id(escaped), (None, "untagged:" + type(escaped).__name__))[1]]
        else:
            e = r2.exception
            cli = ["exit", r2.exit_code] if (e is None or isinstance(e, SystemExit)) else ["exc", inj.tags.get(id(e), (None, "untagged:" + type(e).__name__))[1]]
        a_after, bak_after = read_text(A), read_text(A + ".bak")
        rep = _report(inj, None)
        # ---- model input for this command --------------------------------------------------------
        fired = {s: t for s, t in inj.fired.items()}
        sched = coq_sched(plan, fired, code_text, inj.nat)
        at_close = "close" in rep["disk_before"]
        pend = code_text(rep["disk_before"].get("close")) if at_close else None
        ev = "(ev_of true %s None %s %s false)" % (coq_opt_content(pend), coq_opt_content(pend),
                                                   coq_optopt(rep["closed"], code_text(rep["closed_disk"]) if rep["closed"] else None))
        hcmds.append("(%s, mkH %s %s %s %s %s %s)" % (pos, core.coq_bool(keep), core.coq_bool(debug), core.coq_Z(frm), core.coq_Z(rs), ev, sched))
        expected.append([sx_file(code_text(a_after)), sx_file(code_text(bak_after)), [cli[0], cli[1]]])
        count("history:cmd:%s" % ("fault_free" if not inj.fired else "faults_fired_%d" % len(inj.fired)))
        count("history:cli:%s" % ":".join(str(x) for x in cli))
        # ---- direct oracle (no reference to the model) --------------------------------------------
        case = {"history": True, "hist_index": idx, "hist_seed": seed, "command": ci, "a_text": a_now, "b_text": read_text(B), "keep": keep, "debug": debug,
                "faults": {s: list(kv) for s, kv in plan.items()}, "bak_before": bak_now}
        nfired = len(inj.fired)
        what = None
        if a_loads and nfired == 0:
            if cli != ["exit", 0] or a_after != new_text:
                what = "history: a fault-free `deep patch` did not produce the patched content"
            elif keep and bak_after != a_now:
                what = "history: --backup did not keep the previous content in A.bak"
            elif not keep and bak_after is not None:
                what = "history: a stray A.bak remains after a successful `deep patch` without --backup"
        elif a_loads and len(plan) == 1 and nfired == 1 and list(plan.values())[0][0] == "exc" and \
                (list(plan)[0] in SAVE_STEPS_UP_TO_CLOSE or list(plan)[0] in PRE_STEPS):
            if a_after != a_now:
                what = "history: a single failure at '%s' left A without its previous content" % list(plan)[0]
            elif bak_after is not None and bak_after != bak_now:
                what = "history: a single failure at '%s' left a stray A.bak" % list(plan)[0]
            elif cli == ["exit", 0]:
                what = "history: a single failure was swallowed (exit status 0)"
        if what is None and cli == ["exit", 0] and a_loads and a_after != new_text:
            what = "history: `deep patch` exited 0 although A does not hold the patched content"
        # the invariant of C20_history_good_version_survives, under its guard (the debris does not load)
        for t in list(inj.fired.values()) + [rep["closed_disk"] if rep["closed"] else None]:
            if t not in (None, "", new_text, a_now) and _loads_or_none(t)[1]:
                guard_ok = False
        if a_after == new_text and new_text is not None:
            cur_text = new_text
        if what is None and guard_ok:
            inv = a_after == cur_text or (bak_after == cur_text and not _loads_or_none(a_after)[1])
            count("history:invariant_checked")
            if not inv:
                what = "history: the last complete version is neither in A nor (with an unloadable A) in A.bak"
        if what is None and (read_text(B) is None or [x for x in os.listdir(d) if x not in ("a.json", "a.json.bak", "b.json") and not x.endswith(".pickle")]):
            what = "history: another file was touched"
        if what:
            res["fails"].append((dict(case, clause="history", observed={"A": a_after, "bak": bak_after, "cli": cli}), what))
        res["seen"].append((("history", idx, ci, a_now, keep, debug, tuple(sorted(plan.items()))), True))
    if hcmds:
        expr = "show_history_p %s %s [%s]" % (coq_opt_content([1]), coq_opt_content([-9] if prebak else None), "; ".join(hcmds))
        res["cases"].append((expr, expected, {"stream": "history", "index": idx, "seed": seed, "commands": len(hcmds)}))
        count("history:length_%d" % len(hcmds))
        count("history:placement:" + pos)
    if not guard_ok:
        count("history:debris_loads(guard_fails)")
    shutil.rmtree(work, ignore_errors=True)
    return res


# --------------------------------------------------------------------------
# wave 2: the option plumbing of `deep diff` (model: Cli/OptModel.v) - extension "Options"
# --------------------------------------------------------------------------

OPT_HEADER = ("From DD Require Import Base.PyStr Base.Value Diff.DiffModel Cli.OptModel.\n"
              "Local Open Scope Z_scope.\n"
              "Definition show_o (o : opts) : sx := let k := kwargs_of o in\n"
              "  SL [sx_bool (delta_possible o); sx_bool (exact o); sx_bool (k_ignore_private_variables k);\n"
              "      sx_nat (k_log_frequency_in_sec k); sx_bool (k_progress_logger_error k); sx_nat (fst (k_threshold k)); sx_nat (snd (k_threshold k))].")

# name -> (cli arguments, field updates of the model's option record)
IGNORING = {"IExcludeRegex": ["--exclude-regex-paths", "zz"], "ISignificantDigits": ["--significant-digits", "2"],
            "IMathEpsilon": ["--math-epsilon", "0.1"], "IStringCase": ["--ignore-string-case"],
            "INumericType": ["--ignore-numeric-type-changes"], "IStringType": ["--ignore-string-type-changes"],
            "ITypeSubclasses": ["--ignore-type-subclasses"], "INanInequality": ["--ignore-nan-inequality"],
            "IMaxDiffs": ["--max_diffs", "1"], "ITruncateDatetime": ["--truncate-datetime", "day"]}
THRESHOLDS = {"0": (0, 1), "0.33": (33, 100), "0.5": (1, 2), "1": (1, 1), "2": (2, 1)}
OPT_ATOMS = (
    [("thr:" + t, ["--threshold-to-diff-deeper", t], {"thr": THRESHOLDS[t]}) for t in ("0", "0.5", "1", "2")] +
    [("private", ["--include-private-variables"], {"include_private": True}),
     ("exclude", ["--exclude-paths", "root['a']"], {"exclude": ["a"]}),
     ("exclude2", ["--exclude-paths", "root['a']", "--exclude-paths", "root['zz']"], {"exclude": ["a", "zz"]}),
     ("ignore_order", ["--ignore-order"], {"ignore_order": True}),
     ("report_repetition", ["--report-repetition"], {"report_repetition": True}),
     ("group_by", ["--group-by", "id"], {"group_by": True}),
     ("purge0", ["--cache-purge-level", "0"], {"purge": 0}), ("purge2", ["--cache-purge-level", "2"], {"purge": 2}),
     ("verbose0", ["--verbose-level", "0"], {"verbose": 0}), ("verbose2", ["--verbose-level", "2"], {"verbose": 2}),
     ("cache", ["--cache-size", "100", "--cache-tuning-sample-size", "5"], {"cache_size": 100, "cache_tuning": 5}),
     ("cutoffs", ["--cutoff-distance-for-pairs", "0.1", "--cutoff-intersection-for-pairs", "0.9"], {"cut_d": 10, "cut_i": 90}),
     ("distance", ["--get-deep-distance"], {"distance": True}),
     ("max_passes", ["--max-passes", "3"], {"max_passes": 3}),
     ("format_e", ["--number-format-notation", "e"], {"format_e": True}),
     ("logger", ["--progress-logger", "error", "--log-frequency-in-sec", "7"], {"progress_error": True, "log_freq": 7}),
     ("debug", ["--debug"], {"debug": True})] +
    [("ign:" + k, v, {"ignoring": [k]}) for k, v in sorted(IGNORING.items())])
OPT_DEFAULT = {"thr": (33, 100), "include_private": False, "exclude": [], "ignoring": [], "ignore_order": False,
               "report_repetition": False, "group_by": False, "purge": 1, "verbose": 1, "cache_size": 0, "cache_tuning": 0,
               "cut_d": 30, "cut_i": 70, "distance": False, "max_passes": 10000000, "format_e": False, "progress_error": False,
               "log_freq": 0, "create_patch": True, "debug": False}


def opt_merge(atoms):
    o, args = dict(OPT_DEFAULT), []
    for (_n, a, upd) in atoms:
        args += a
        for k, v in upd.items():
            o[k] = (o[k] + v) if k in ("exclude", "ignoring") else v
    return o, args


def coq_opts(o):
    b = core.coq_bool
    excl = "[" + "; ".join("[PKey (AStr %s)]" % core.coq_pystr(k) for k in o["exclude"]) + "]"
    return ("(mkOpts %d %d %s %s [%s] %s %s %s %d %d %d %d %d %d %s %d%%N %s %s %d %s %s)" % (
        o["thr"][0], o["thr"][1], b(o["include_private"]), excl, "; ".join(o["ignoring"]), b(o["ignore_order"]),
        b(o["report_repetition"]), b(o["group_by"]), o["purge"], o["verbose"], o["cache_size"], o["cache_tuning"],
        o["cut_d"], o["cut_i"], b(o["distance"]), o["max_passes"], b(o["format_e"]), b(o["progress_error"]), o["log_freq"],
        b(o["create_patch"]), b(o["debug"])))


def py_exact(o):
    """the model's [exact], recomputed here only to decide what the direct oracle demands (the Coq value is
    compared with the implementation's behaviour in the correspondence case)"""
    possible = not o["group_by"] and not (o["ignore_order"] and not o["report_repetition"]) and o["purge"] != 2
    return possible, possible and not o["ignore_order"] and not o["ignoring"] and not o["exclude"]


OPTION_PAIRS = [
    ({"a": 1, "b": 2, "l": [1, 2, 3], "s": "Ab"}, {"a": 5, "b": 3, "l": [3, 2, 1, 4], "s": "aB", "n": None}),
    ({"a": {"x": 1.234, "y": [1, 1, 2]}, "k": "v"}, {"a": {"x": 1.2341, "y": [2, 1, 1, 1]}, "k": "w", "__p": 1}),
    ([{"id": 1, "v": 1.0}, {"id": 2, "v": "x"}], [{"id": 1, "v": 1.05}, {"id": 2, "v": "X"}, {"id": 3, "v": []}]),
    ({"a": 1, "b": 2, "c": 3}, {"x": 1, "y": 2, "c": 3}),
]
# option sets under which diff -> patch does NOT reproduce the file (or cannot start), on a pair that is reproduced
# without the option: (name, A, B, cli options, expected: 'diff_fails' | 'differs')
OPTION_WITNESSES = [
    ("ignore-order-alone", [1, 2, 3], [3, 2, 1, 4], ["--ignore-order"], "diff_fails"),
    ("group-by", [{"id": 1, "v": 1}], [{"id": 1, "v": 2}], ["--group-by", "id"], "diff_fails"),
    ("cache-purge-level-2", {"x": 1}, {"x": 2}, ["--cache-purge-level", "2"], "diff_fails"),
    ("ignore-order+report-repetition", [1, 2, 3], [3, 2, 1, 4], ["--ignore-order", "--report-repetition"], "differs"),
    ("exclude-paths", {"a": 1, "b": 2}, {"a": 5, "b": 3}, ["--exclude-paths", "root['a']"], "differs"),
    ("exclude-regex-paths", {"a": 1, "b": 2}, {"a": 5, "b": 3}, ["--exclude-regex-paths", "a"], "differs"),
    ("significant-digits", {"x": 1.234}, {"x": 1.2341}, ["--significant-digits", "2"], "differs"),
    ("math-epsilon", {"x": 1.0}, {"x": 1.05}, ["--math-epsilon", "0.1"], "differs"),
    ("ignore-string-case", {"x": "Ab"}, {"x": "aB"}, ["--ignore-string-case"], "differs"),
    ("max_diffs", {"x": 1, "y": 1}, {"x": 2, "y": 2}, ["--max_diffs", "1"], "differs"),
    ("private-keys-default", {"__a": 1}, {"__a": 2}, [], "differs"),
]


def opt_run(a_doc, b_doc, args, work, want_kwargs=False):
    """`deep diff A B --create-patch <args>` then `deep patch A`: -> dict"""
    from click.testing import CliRunner
    import deepdiff.commands as cmds
    d = tempfile.mkdtemp(dir=work)
    A, B, P = os.path.join(d, "a.json"), os.path.join(d, "b.json"), os.path.join(d, "delta.pickle")
    for p, doc in ((A, a_doc), (B, b_doc)):
        with open(p, "w") as f:
            f.write(json_src(doc))
    out = {"kwargs": None}
    if want_kwargs:
        real = cmds.DeepDiff
        seen = {}

        class _Seen(Exception):
            pass

        def rec(**kw):
            seen.update(kw)
            raise _Seen("recorded")
        cmds.DeepDiff = rec
        try:
            CliRunner().invoke(cmds.diff, [A, B, "--create-patch"] + args)
        finally:
            cmds.DeepDiff = real
        if seen:
            out["kwargs"] = {"ignore_private_variables": seen.get("ignore_private_variables"),
                             "log_frequency_in_sec": seen.get("log_frequency_in_sec"),
                             "progress_error": seen.get("progress_logger") == cmds.logger.error,
                             "threshold": seen.get("threshold_to_diff_deeper"),
                             "popped": not any(k in seen for k in ("debug", "create_patch", "include_private_variables")),
                             "docs": seen.get("t1") == a_doc and seen.get("t2") == b_doc}
    r = CliRunner().invoke(cmds.diff, [A, B, "--create-patch"] + args)
    out["diff_exit"] = r.exit_code if (r.exception is None or isinstance(r.exception, SystemExit)) else "exc:" + type(r.exception).__name__
    out["patch_bytes"] = r.stdout_bytes if r.exit_code == 0 else None
    if r.exit_code == 0:
        with open(P, "wb") as f:
            f.write(r.stdout_bytes)
        r2 = CliRunner().invoke(cmds.patch, [A, P])
        out["patch_exit"] = r2.exit_code
        try:
            from deepdiff.serialization import json_loads
            out["after"] = json_loads(read_text(A))
        except Exception as e:
            out["after"] = "<unloadable:%s>" % type(e).__name__
    shutil.rmtree(d, ignore_errors=True)
    return out


def options_task(args):
    seed, thorough, scratch = args
    sys.path.insert(0, core.REPO)
    _quiet()
    rng = random.Random(seed)
    work = tempfile.mkdtemp(prefix="op_", dir=scratch)
    res = {"cases": [], "fails": [], "counts": {}, "seen": [], "samples": [], "breaks": []}

    def count(k):
        res["counts"][k] = res["counts"].get(k, 0) + 1

    sets = [[]] + [[a] for a in OPT_ATOMS]
    n_multi = 250 if thorough else 60
    while len(sets) < 1 + len(OPT_ATOMS) + n_multi:
        k = rng.choice([2, 2, 3, 4])
        cand = rng.sample(OPT_ATOMS, k)
        names = [c[0].split(":")[0] for c in cand]
        if len(set(names)) == len(names) and not ({"purge0", "purge2"} <= set(c[0] for c in cand)) \
                and not ({"verbose0", "verbose2"} <= set(c[0] for c in cand)) and not ({"exclude", "exclude2"} <= set(c[0] for c in cand)):
            sets.append(cand)
    base_bytes = {}
    for atoms in sets:
        o, cli = opt_merge(atoms)
        possible, exact = py_exact(o)
        pairs = OPTION_PAIRS if (thorough or len(atoms) <= 1) else rng.sample(OPTION_PAIRS, 2)
        for pi, (a_doc, b_doc) in enumerate(OPTION_PAIRS):
            if (a_doc, b_doc) not in pairs:
                continue
            r = opt_run(a_doc, b_doc, cli, work, want_kwargs=(pi == 0))
            if not atoms:
                base_bytes[pi] = r["patch_bytes"]
            tag = {"stream": "options", "options": cli, "a": json.dumps(a_doc), "b": json.dumps(b_doc)}
            res["seen"].append((("options", tuple(cli), pi), True))
            # model vs implementation: does the diff command succeed; the plumbing
            kw = r["kwargs"]
            thr = None
            if kw is not None:
                t = kw["threshold"]
                thr = [k for k, v in THRESHOLDS.items() if abs(float(k) - t) < 1e-9]
                exp_kw = [bool(kw["ignore_private_variables"]), int(kw["log_frequency_in_sec"]), bool(kw["progress_error"])] + list(THRESHOLDS[thr[0]])
                if not (kw["popped"] and kw["docs"]):
                    res["breaks"].append({"name": "options", "options": cli, "error": "debug/create_patch/include_private_variables reached DeepDiff, or t1/t2 are not the loaded documents"})
            else:
                ko = o
                exp_kw = [not ko["include_private"], 0, ko["progress_error"]] + list(ko["thr"])     # not observed on this pair: the model's own value
            expr = "show_o %s" % coq_opts(o)
            res["cases"].append((expr, [r["diff_exit"] == 0, exact] + exp_kw, tag))
            count("options:diff_%s" % ("ok" if r["diff_exit"] == 0 else "fails"))
            if (r["diff_exit"] == 0) != possible:
                continue                    # reported by the correspondence case above
            if r["diff_exit"] != 0:
                continue
            same = doc_eq(r["after"], b_doc)
            if exact:
                count("options:exact_checked")
                nopriv = o["include_private"] or not any(k.startswith("__") for doc in (a_doc, b_doc) for k in keys_of(doc))
                if r["patch_exit"] != 0:
                    res["fails"].append((tag, "exact options: `deep patch` failed"))
                elif nopriv and not same:
                    res["fails"].append((dict(tag, after=repr(r["after"])), "exact options (nothing is ignored): after diff --create-patch <options> / patch, A does not load equal to B"))
                elif o["thr"] == (33, 100) and not o["include_private"] and base_bytes.get(pi) is not None and \
                        r["patch_bytes"] != base_bytes[pi]:
                    res["fails"].append((tag, "options the model treats as no-ops changed the bytes of the patch file"))
            else:
                count("options:inexact:%s" % ("still_equal" if same else "differs"))
    shutil.rmtree(work, ignore_errors=True)
    return res


def option_witness(ctx, name, a_doc, b_doc, cli, expect):
    base = opt_run(a_doc, b_doc, [] if cli else ["--include-private-variables"], ctx.scratch)
    r = opt_run(a_doc, b_doc, cli, ctx.scratch)
    got = "diff_fails" if r["diff_exit"] != 0 else ("reproduces" if doc_eq(r["after"], b_doc) else "differs")
    ok_base = base["diff_exit"] == 0 and doc_eq(base["after"], b_doc)
    ctx.evaluations += 1
    ctx.count("option_witness:%s:%s" % (name, got))
    if got != expect or not ok_base:
        ctx.break_("correspondence", {"name": "OPTION_WITNESSES", "witness": name, "expected": expect, "observed": got,
                                      "reproduced_without_the_option": ok_base,
                                      "meaning": "the implementation no longer behaves as documented for this option witness"})


# --------------------------------------------------------------------------
# wave 2: two concurrent `deep patch` commands, scheduled step by step (model: Cli/ConcModel.v) - extension
# --------------------------------------------------------------------------

CONC_GATED = ("load_doc", "backup", "open", "close", "remove")      # = CLoad, CBackup, COpen, CFlush, CRemove
CONC_HEADER = ("From DD Require Import Cli.ConcModel.\n"
               "Definition sx_hist (o : option hist) : sx := sx_opt (sx_list (fun n : N => SZ (Z.of_N n))) o.\n"
               "Definition sx_st (p : proc) : sx := SA (match p_status p with Finished => \"ok\" | Failed _ => \"fail\" | Running => \"running\" end).\n"
               "Definition show_conc (k1 k2 : bool) (il : list bool) : sx := let '(p1, p2, f) := run2 k1 k2 il in\n"
               "  SL [sx_hist (content_of (c_A f) f); sx_hist (content_of (c_bak f) f); sx_st p1; sx_st p2].")


def _conc_hist(text):
    """file content -> the tags of the updates it contains, latest first (None: no file, []: empty file)"""
    if text is None:
        return None
    if text == "":
        return []
    try:
        return [v for v in reversed(list(json.loads(text).values()))]
    except Exception:
        return [-1]


def conc_run(k1, k2, il, deltas, work):
    """two real `deep patch` processes on one a.json; each waits for the scheduler before Load / Backup / Open /
    Flush (close) / Remove; `il` (False = process 1 moves) is the interleaving"""
    import select
    from click.testing import CliRunner
    from deepdiff.commands import patch
    d = tempfile.mkdtemp(dir=work)
    A = os.path.join(d, "a.json")
    with open(A, "w") as f:
        f.write('{"v": 0}')
    kids = []
    for i, keep in enumerate((k1, k2)):
        P = os.path.join(d, "d%d.pickle" % i)
        with open(P, "wb") as f:
            f.write(deltas[i])
        go_r, go_w = os.pipe()
        ev_r, ev_w = os.pipe()
        pid = os.fork()
        if pid == 0:
            code = 70
            try:
                inj = Injector(A, P, {})
                inj.gate = (go_r, ev_w)
                with inj:
                    r = CliRunner().invoke(patch, [A, P] + (["--backup"] if keep else []))
                os.write(ev_w, ("exit:%d\n" % r.exit_code).encode())
                code = 0
            finally:
                os._exit(code)
        kids.append({"pid": pid, "go": go_w, "ev": ev_r, "done": False, "exit": None, "buf": b""})

    def wait(k):
        while b"\n" not in k["buf"]:
            ready, _, _ = select.select([k["ev"]], [], [], 60)
            c = os.read(k["ev"], 256) if ready else b""
            if not c:
                k["done"], k["exit"] = True, "died"
                return
            k["buf"] += c
        line, k["buf"] = k["buf"].split(b"\n", 1)
        if line.startswith(b"exit:"):
            k["done"], k["exit"] = True, int(line[5:])

    for k in kids:
        wait(k)                              # both stand before Load
    for b in il:
        k = kids[1 if b else 0]
        if k["done"]:
            continue
        os.write(k["go"], b"g")
        wait(k)
    for k in kids:                            # nothing should be left; let stragglers finish
        while not k["done"]:
            os.write(k["go"], b"g")
            wait(k)
        os.waitpid(k["pid"], 0)
        for fd in (k["go"], k["ev"]):
            os.close(fd)
    obs = [sx_file(_conc_hist(read_text(A))), sx_file(_conc_hist(read_text(A + ".bak"))),
           "ok" if kids[0]["exit"] == 0 else "fail", "ok" if kids[1]["exit"] == 0 else "fail"]
    shutil.rmtree(d, ignore_errors=True)
    return obs


def concurrent_task(args):
    seed, thorough, scratch = args
    sys.path.insert(0, core.REPO)
    _quiet()
    rng = random.Random(seed)
    work = tempfile.mkdtemp(prefix="cc_", dir=scratch)
    res = {"cases": [], "fails": [], "counts": {}, "seen": [], "samples": [], "breaks": []}
    deltas = []
    for i in (1, 2):
        rc, db, _e, _ok = run_diff('{"v": 0}', json.dumps({"v": 0, "p%d" % i: i}), work)
        deltas.append(db)
    for (k1, k2) in ((False, False), (True, True), (True, False), (False, True)):
        n1, n2 = (4 if k1 else 5), (4 if k2 else 5)
        ils = set()
        if thorough and not k1 and not k2:
            import itertools
            for pos in itertools.combinations(range(n1 + n2), n2):
                ils.add(tuple(i in pos for i in range(n1 + n2)))
        fixed = [[False] * n1 + [True] * n2, [True] * n2 + [False] * n1,
                 [False, True] + [False] * (n1 - 1) + [True] * (n2 - 1)]
        if not k1 and not k2:
            fixed += [[False, True, False, False, False, False, True, True, True, True],
                      [False, False, False, False, True, True, False, True, True, True]]
        for il in fixed:
            ils.add(tuple(il))
        while len(ils) < (60 if thorough else 14):
            il = [False] * n1 + [True] * n2
            rng.shuffle(il)
            ils.add(tuple(il))
        for il in sorted(ils):
            obs = conc_run(k1, k2, il, deltas, work)
            expr = "show_conc %s %s [%s]" % (core.coq_bool(k1), core.coq_bool(k2), "; ".join(core.coq_bool(b) for b in il))
            tag = {"stream": "concurrent", "keep": [k1, k2], "interleaving": [int(b) for b in il]}
            res["cases"].append((expr, obs, tag))
            res["seen"].append((("conc", k1, k2, il), True))
            a = obs[0]
            both = a is not None and 1 in a[1] and 2 in a[1]
            res["counts"]["concurrent:%s" % ("both_updates" if both else "one_update_lost")] = res["counts"].get("concurrent:%s" % ("both_updates" if both else "one_update_lost"), 0) + 1
            if obs[2:] == ["ok", "ok"] and not both:
                res["counts"]["concurrent:silent_loss(both_exit_0)"] = res["counts"].get("concurrent:silent_loss(both_exit_0)", 0) + 1
            if a is None or not a[1] or 0 not in a[1]:
                res["fails"].append((dict(tag, observed=obs), "two concurrent `deep patch` commands ended without a complete version in A"))
    shutil.rmtree(work, ignore_errors=True)
    return res


# --------------------------------------------------------------------------
# known findings
# --------------------------------------------------------------------------

TYPE_NAMES = None


def _docs(case):
    from deepdiff.serialization import json_loads  # noqa: F401  (plain json is enough for key inspection)
    return [json.loads(case["a_text"]), json.loads(case["b_text"])]


def _first_clause(case, extra=()):
    """the 'reproduces' clause of a fault-free run, or its direct consequence: when `deep patch` itself fails
    (non-zero exit / exception) no backup is left either"""
    if case.get("faults"):
        return False
    cl = case.get("clause")
    if cl == "reproduces" or cl in extra:
        return True
    return cl == "backup" and (case.get("observed") or {}).get("cli") != ["exit", 0]


def m_typehook(case):
    """some JSON object in A or B has both keys old_type and new_type: the
    loader's object_hook replaces type-name strings in it by Python types."""
    if not _first_clause(case, ("diff",)):
        return False
    return any("old_type" in d and "new_type" in d for doc in _docs(case) for d in dicts_of(doc))


def m_both_quotes(case):
    if not _first_clause(case):
        return False
    return any(isinstance(k, str) and "'" in k and '"' in k for doc in _docs(case) for k in keys_of(doc))


def m_escape_char(case):
    if not _first_clause(case):
        return False
    return any(isinstance(k, str) and ESC in k for doc in _docs(case) for k in keys_of(doc))


MATCHERS = {"C20-TYPEHOOK": m_typehook, "C20-K5-QUOTES": m_both_quotes, "C20-K6-ESC": m_escape_char}


# --------------------------------------------------------------------------
# driver
# --------------------------------------------------------------------------

HEADER = "From DD Require Import Cli.FsModel Cli.FsShow.\nLocal Open Scope Z_scope."
GUARD_HEADER = ("From DD Require Import Base.PyStr Base.Value Diff.DiffModel Delta.DeltaExamples Cli.JsonDocs.\n"
                "Local Open Scope Z_scope.")


def alias_witness(ctx):
    """C20_json_alias_refuted replayed on the real CLI: [1] -> [1.0] leaves the int in place"""
    sys.path.insert(0, core.REPO)
    _quiet()
    a_text, b_text = "[1]\n ", "[1.0]\n"
    rc, delta_bytes, dexc, _ = run_diff(a_text, b_text, ctx.scratch)
    o = run_patch(a_text, b_text, delta_bytes, False, True, {}, False, ctx.scratch) if rc == 0 else None
    ctx.evaluations += 1
    ok = o is not None and o["cli"] == ["exit", 0] and o["A"] is not None and json.loads(o["A"]) == [1] and isinstance(json.loads(o["A"])[0], int)
    ctx.note("alias_witness", {"A": a_text, "B": b_text, "A_after_patch": o and o["A"], "as_the_model_says": ok})
    if not ok:
        ctx.break_("correspondence", {"name": "C20_json_alias_refuted", "meaning": "the implementation no longer behaves as the refutation witness says ([1] -> [1.0] should leave [1])",
                                      "observed": o and {"A": o["A"], "cli": o["cli"]}})


# --------------------------------------------------------------------------
# source tie (second tie between model and code): harness/translate/clisave.py regenerates
# serialization._save_content / save_content_to_path / load_path_content and commands.patch as programs
# over the statement combinators of Cli/PyMonad.v from the CURRENT source; coq/srctie/CliGenEquiv.v proves
# them equal to the statement-level model Cli/StmtModel.v (refined to GenModel.save_tr /
# FormatModel.patch_cmd_g in Cli/StmtProofs.v) and restates the theorems of Properties/C20.v about them.
# --------------------------------------------------------------------------

SOURCE_TIES = [{
    "name": "clisave", "translator": "clisave", "gen_module": "CliGen", "equiv": ["CliGenEquiv"],
    "needs": ["Cli.PyMonad", "Cli.PyMonadFacts", "Cli.StmtModel", "Cli.StmtProofs", "Cli.GenShow"],
    "sources": ["deepdiff/serialization.py", "deepdiff/commands.py"],
    "fragment": "serialization.save_content_to_path, serialization._save_content (all branches), "
                "serialization.load_path_content (dispatch; the csv branch as one abstract step), commands.patch "
                "(body, handlers, exit statuses, click decorators pinned); NOT commands.diff",
}]

TIE_VARIANT = {"load_delta": "open", "load_doc": "open", "apply": "call", "backup": "call", "open": "created", "dumps": "call",
               "write": "half", "close": "garbage", "restore": "call", "remove": "call"}
TIE_DEBRIS = {"open": "(Some [])", "write": "(Some [(-4)%Z])", "close": "(Some [(-3)%Z])"}
TIE_HEADER = ("From DD Require Import Base.PyStr Cli.FsModel Cli.FsShow Cli.GenModel Cli.FormatModel Cli.GenShow "
              "Cli.PyMonad Cli.StmtModel.\nFrom DDGen Require Import CliGen.\nLocal Open Scope Z_scope.\n")
TIE_COQ = r'''
Local Open Scope string_scope.
Definition mkW (A : path) (sch : list (step * fault Z)) (have : bool) : world Z Z (Z * Z) :=
  mkWorld A (sched_of sch) env0 (fun _ => t_dump) (fun _ => t_parse) (fun _ => have) t_unpickle t_apply.
Definition sx_res (r : res unit) : sx :=
  match r with
  | Ok _ => SL [SA "done"]
  | Raise (EStep k s) => SL [SA "raised"; SA (match k with KExc => "exc" | KBase => "base" end); SA (step_name s)]
  | Raise (ESysExit n) => SL [SA "sysexit"; sx_nat n]
  end.
Definition show_prog (m : M Z unit) (f0 : fs Z) : sx := let '(f, r) := run_fin m f0 in SL (sx_state f ++ [sx_res r]).
Definition show_cmd (m : M Z unit) (f0 : fs Z) : sx := let '(f, r) := run_cli m f0 in SL (sx_state f ++ [sx_cli r]).
Definition idx {T : Type} (l : list T) : list (nat * T) := combine (seq 0 (List.length l)) l.
Fixpoint diffs (cs : list (sx * sx * sx)) (n : nat) : string :=
  match cs with
  | [] => "END"
  | (i, g, s) :: r =>
      if sx_eqb g s then diffs r n
      else match n with O => "END" | S n' => show_sx (SL [i; g; s]) ++ nl ++ diffs r n' end
  end.
Definition fts : list pystr := [s2p "json"; s2p "csv"; s2p "toml"; s2p "xyz"].
Definition states : list (option zc * option zc) := [(Some [1], None); (Some [1], Some [(-9)]); (None, None); (None, Some [(-9)])].
Definition docs : list Z := [2; 77].
Definition bools : list bool := [false; true].
Definition save_cases : list (sx * sx * sx) :=
  flat_map (fun ft => flat_map (fun have => flat_map (fun st => flat_map (fun d => flat_map (fun keep => map (fun pl =>
    let W := mkW pA (snd pl) (snd have) in
    let f0 := gfs (fst (snd st)) (snd (snd st)) in
    (SL [sx_nat (fst ft); sx_nat (fst have); sx_nat (fst st); sx_nat (fst d); sx_nat (fst keep); sx_nat (fst pl)],
     show_prog (g_save_content_to_path W (snd d) pA (snd ft) (snd keep)) f0,
     show_prog (s_save_content_to_path W (snd d) pA (snd ft) (snd keep)) f0))
    (idx save_plans)) (idx bools)) (idx docs)) (idx states)) (idx [true; false])) (idx fts).
Definition load_cases : list (sx * sx * sx) :=
  flat_map (fun ft => flat_map (fun have => map (fun pl =>
    let W := mkW pA (snd pl) (snd have) in
    let f0 := gfs (Some [1]) None in
    let sh := fun m : M Z Z => match m (f0, []) with (_, _, Ok d) => SL [SA "ok"; SZ d] | (_, _, Raise (EStep k s)) => SL [SA (step_name s)] | _ => SL [SA "exit"] end in
    (SL [sx_nat (fst ft); sx_nat (fst have); sx_nat (fst pl)],
     sh (g_load_path_content W pA (Some (snd ft))), sh (s_load_path_content W pA (Some (snd ft)))))
    (idx [[]; [(SLoadDoc, fx None)]; [(SLoadDoc, fb None)]])) (idx [true; false])) (idx (fts ++ [s2p "yaml"; s2p "pickle"; s2p "tsv"; s2p "yml"])).
Definition patch_cases : list (sx * sx * sx) :=
  flat_map (fun bk => flat_map (fun keep => flat_map (fun debug => map (fun pl =>
    let W := mkW pA (snd pl) true in
    let f0 := upd pP (Some (t_pickle (1, 2))) (gfs (Some [1]) (snd bk)) in
    (SL [sx_nat (fst bk); sx_nat (fst keep); sx_nat (fst debug); sx_nat (fst pl)],
     show_cmd (g_patch W pA pP (snd keep) false (snd debug)) f0,
     show_cmd (s_patch W pA pP (snd keep) false (snd debug)) f0))
    (idx patch_plans)) (idx bools)) (idx bools)) (idx [None; Some [(-9)]]).
Eval vm_compute in ("BEGIN" ++ nl ++ "SAVE" ++ nl ++ diffs save_cases 6).
Eval vm_compute in ("BEGIN" ++ nl ++ "LOAD" ++ nl ++ diffs load_cases 6).
Eval vm_compute in ("BEGIN" ++ nl ++ "PATCH" ++ nl ++ diffs patch_cases 6).
'''


def _tie_plans(steps, max_faults=2):
    plans = [{}]
    for s in steps:
        for k in ("exc", "base"):
            plans.append({s: (k, TIE_VARIANT[s])})
    if max_faults >= 2:
        for i, s1 in enumerate(steps):
            for s2 in steps[i + 1:]:
                for k1 in ("exc", "base"):
                    for k2 in ("exc", "base"):
                        plans.append({s1: (k1, TIE_VARIANT[s1]), s2: (k2, TIE_VARIANT[s2])})
    return plans


def _tie_coq_plan(plan):
    return "[" + "; ".join("(%s, %s %s)" % (COQ_STEP[s], "fx" if plan[s][0] == "exc" else "fb", TIE_DEBRIS.get(s, "None"))
                          for s in STEPS if s in plan) + "]"


def _tie_replay_direct(ctx, a0, b0, ok, keep, plan, work, cases):
    """one differing input of the save program on the real save_content_to_path: the ordinary correspondence case
    (show_save with the observed placement / debris) and the direct oracle"""
    pos = dumps_placement(run_save_direct(True, False, True, False, {}, work)["trace"]) or "DInside"
    o = run_save_direct(a0, b0, ok, keep, plan, work)
    table = {"OLD-A": [1], "BAK0": [-9], "OTHER": [5], "GARB": [-3]}
    if o["new_text"]:
        table[o["new_text"][:len(o["new_text"]) // 2]] = [-4]
        table[o["new_text"]] = [2, 2]
    code = make_coder(table)
    expr = "show_save %s %s %s %s %s %s" % (
        pos, core.coq_bool(keep), coq_opt_content([1] if a0 else None), coq_opt_content([-9] if b0 else None),
        coq_opt_content([2, 2] if ok else None), coq_sched(plan, o["fired"], code, o["nat"]))
    exp = [sx_file(code(o["A"])), sx_file(code(o["bak"])), sx_file(code(o["B"])), o["outcome"]]
    case = {"direct": True, "a_present": a0, "bak_present": b0, "serialisable": ok, "keep": keep,
            "faults": {s: list(kv) for s, kv in plan.items()}, "found_by": "source-tie differencing (generated vs hand model)"}
    cases.append((expr, exp, case))
    ctx.seen(("tie-direct", a0, b0, ok, keep, tuple(sorted(plan.items()))), True)
    what = oracle_direct(a0, b0, ok, keep, o)
    if what:
        ctx.fail(dict(case, clause="restore", observed=o), what)
    return {"input": case, "observed": {"A": o["A"], "bak": o["bak"], "outcome": o["outcome"]}, "oracle": what or "passes"}


TIE_A_DOC, TIE_B_DOC = {"a": 1, "l": [1, 2]}, {"a": 2, "l": [1, 2, 3]}
_TIE_REF_DONE = set()


def _tie_replay_patch(ctx, prebak, keep, debug, plan, work, cases):
    """one differing input of the patch command on the real CLI (diff --create-patch, then patch under the plan)"""
    from deepdiff.serialization import json_loads
    a_text, b_text = json.dumps(TIE_A_DOC, indent=1) + "\n ", json.dumps(TIE_B_DOC, indent=2) + "\n"
    base_case = {"a_text": a_text, "b_text": b_text, "edit_kinds": ["source-tie"], "found_by": "source-tie differencing (generated vs hand model)"}
    rc, delta_bytes, dexc, untouched = run_diff(a_text, b_text, work)
    if rc != 0 or not untouched:
        ctx.fail(dict(base_case, clause="diff", exit_code=rc, exception=dexc),
                 "`deep diff A B --create-patch` failed or modified its inputs (exit %r, %s)" % (rc, dexc))
        return {"input": base_case, "oracle": "diff failed"}
    ref = run_patch(a_text, b_text, delta_bytes, keep, True, {}, False, work)
    fails, loaded, load_err = oracle_reference(a_text, b_text, keep, ref)
    if ("tie-ref", keep) not in _TIE_REF_DONE:            # the fault-free reference run is judged once per flag
        _TIE_REF_DONE.add(("tie-ref", keep))
        ctx.seen(("tie-ref", keep), True)
        for (clause, what) in fails:
            ctx.fail(dict(base_case, keep=keep, debug=True, faults={}, prebak=False, clause=clause, observed=ref), what)
    out = {"input": dict(base_case, keep=keep, debug=debug, prebak=prebak, faults={s: list(kv) for s, kv in plan.items()}),
           "reference_run": {"A": ref["A"], "bak": ref["bak"], "cli": ref["cli"]}, "oracle": [w for _c, w in fails] or "passes"}
    new_text, pos = ref["A"], dumps_placement(ref["trace"])
    if fails or new_text is None or pos is None or load_err:
        return out
    b_loaded = json_loads(b_text)
    resid = 2 if doc_eq(loaded, b_loaded) else 3
    table = {"GARB": [-3], "BAK0": [-9]}
    if new_text[:len(new_text) // 2]:
        table[new_text[:len(new_text) // 2]] = [-4]
    table[b_text] = [2]
    table[new_text] = [resid, resid]
    table[a_text] = [1]
    code = make_coder(table)
    o = run_patch(a_text, b_text, delta_bytes, keep, debug, plan, prebak, work)
    case = dict(base_case, keep=keep, debug=debug, prebak=prebak, faults={s: list(kv) for s, kv in plan.items()})
    ctx.seen(("tie-patch", keep, debug, prebak, tuple(sorted(plan.items()))), True)
    expr = "show_pipeline %s %s %s (Some %s) %s %s %s %s" % (
        pos, core.coq_bool(keep), core.coq_bool(debug), coq_zlist([1]),
        "(Some %s)" % coq_zlist([-9]) if prebak else "None", coq_zlist([2]), core.coq_Z(resid), coq_sched(plan, o["fired"], code, o["nat"]))
    exp = [sx_file(code(o["A"])), sx_file(code(o["bak"])), sx_file(code(o["B"])), bool(o["P_same"]), [o["cli"][0], o["cli"][1]]]
    cases.append((expr, exp, case))
    what = oracle_faulty(a_text, b_text, new_text, plan, prebak, o)
    if what:
        ctx.fail(dict(case, clause="restore", observed=o), what)
    out["run_under_plan"] = {"A": o["A"], "bak": o["bak"], "cli": o["cli"], "fired": sorted(o["fired"])}
    if what:
        out["oracle"] = what
    return out


def on_source_tie_break(ctx, name, rec):
    """The regenerated programs are no longer proved equal to the hand model.  If they compiled: evaluate generated
    and hand programs inside Coq on every (initial state, file type, flags, fault schedule with <= 2 faults) of the
    small file systems the direct stream enumerates, take the first differing inputs and run them on the REAL
    save_content_to_path / `deep patch` with the module's fault injector, correspondence case and direct oracle."""
    out = {"status": rec.get("status"), "searched": None, "differing_inputs": {}, "replayed": []}
    gen_vo = os.path.join(ctx.scratch, "srctie", "CliGen.vo")
    if rec.get("status") in ("translator-rejected", "generated-model-does-not-compile") or not os.path.exists(gen_vo):
        out["searched"] = ("nothing inside Coq (the translator rejected the source or the generated text does not compile): "
                           "the fault-schedule streams of this run use thorough-size budgets instead")
        return out
    save_steps = [s for s in STEPS if s not in PRE_STEPS]
    save_plans, patch_plans = _tie_plans(save_steps), _tie_plans(STEPS)
    fn = os.path.join(ctx.scratch, "srctie", "tie_search.v")
    with open(fn, "w") as f:
        f.write("From Coq Require Import List String ZArith NArith Bool.\nImport ListNotations.\nFrom DD Require Import Base.Sx.\n")
        f.write(TIE_HEADER)
        f.write("Definition save_plans : list (list (step * fault Z)) := [\n  %s].\n" % ";\n  ".join(_tie_coq_plan(p) for p in save_plans))
        f.write("Definition patch_plans : list (list (step * fault Z)) := [\n  %s].\n" % ";\n  ".join(_tie_coq_plan(p) for p in patch_plans))
        f.write(TIE_COQ)
    ctx.ensure_built(TIE_HEADER)
    rc, txt = core.sh(["coqc", "-Q", core.THEORIES, "DD", "-Q", os.path.join(ctx.scratch, "srctie"), "DDGen", fn],
                      timeout=900, cwd=os.path.join(ctx.scratch, "srctie"))
    out["searched"] = ("generated vs hand programs inside Coq: save %d inputs (4 file types x optional modules present/absent x 4 initial "
                       "states x serialisable/rejected x keep_backup x %d schedules with <= 2 faults), load_path_content 48 inputs, "
                       "patch %d inputs (A.bak present/absent x --backup x --debug x %d schedules over all ten steps)"
                       % (4 * 2 * 4 * 2 * 2 * len(save_plans), len(save_plans), 2 * 2 * 2 * len(patch_plans), len(patch_plans)))
    if rc != 0:
        out["error"] = "coqc failed on the search file: " + txt[-800:]
        return out
    import re as _re
    blocks = {}
    for m in _re.finditer(r'"BEGIN\n(SAVE|LOAD|PATCH)\n(.*?)END"', txt, _re.S):
        blocks[m.group(1)] = [l for l in m.group(2).replace('""', '"').splitlines() if l.strip()]
    if set(blocks) != {"SAVE", "LOAD", "PATCH"}:
        out["error"] = "unexpected output of the search file: " + txt[-800:]
        return out

    def indices(line):
        m = _re.match(r"^\(\(([\d ]+)\)", line)
        return [int(x) for x in m.group(1).split()] if m else None
    for k in blocks:
        out["differing_inputs"][k] = blocks[k][:6]
    sys.path.insert(0, core.REPO)
    _quiet()
    work = tempfile.mkdtemp(prefix="tie_", dir=ctx.scratch)
    cases = []
    fts = ["json", "csv", "toml", "xyz"]
    states = [(True, False), (True, True), (False, False), (False, True)]
    done = 0
    for line in blocks["SAVE"]:
        ix = indices(line)
        if not ix or done >= 2:
            continue
        ft, have, st, d, keep, pl = ix
        if fts[ft] != "json":
            continue                                        # the other branches are replayed by the Formats / Crash extension streams
        a0, b0 = states[st]
        out["replayed"].append(_tie_replay_direct(ctx, a0, b0, d == 0, bool(keep), save_plans[pl], work, cases))
        done += 1
    done = 0
    for line in blocks["PATCH"]:
        ix = indices(line)
        if not ix or done >= 2:
            continue
        bk, keep, debug, pl = ix
        out["replayed"].append(_tie_replay_patch(ctx, bool(bk), bool(keep), bool(debug), patch_plans[pl], work, cases))
        done += 1
    if blocks["LOAD"] and not blocks["PATCH"]:
        # the loader differs on a file type the json pipeline does not reach: replay the fault-free command once
        out["replayed"].append(_tie_replay_patch(ctx, False, False, True, {}, work, cases))
    if cases:
        ctx.coq_cases("c20_tie_replay", HEADER, cases, label="source-tie differing inputs replayed on the implementation")
    shutil.rmtree(work, ignore_errors=True)
    return out


def collect(ctx, results, name, header=None):
    uniq = {}
    total = 0
    for r in results:
        for b in r.get("breaks", []):
            ctx.break_("correspondence", b)
        for (expr, exp, case) in r["cases"]:
            total += 1
            key = (expr, json.dumps(exp))
            if key not in uniq:
                uniq[key] = (expr, exp, case)
        for (case, what) in r["fails"]:
            ctx.fail(case, what)
        for k, n in r["counts"].items():
            ctx.count(k, n)
        for (key, nt) in r["seen"]:
            ctx.seen(key, nontrivial=nt)
        for s in r["samples"]:
            ctx.sample(s)
    cases = list(uniq.values())
    bad = ctx.coq_cases(name, header or HEADER, cases, shard=300, label=name + "(distinct model inputs)")
    # every implementation run is validated against the model (identical model inputs are evaluated once)
    ctx.corr_cases += total - len(cases)
    ctx.count("impl_runs:" + name, total)
    return bad


def run(ctx):
    import time as _time
    _t0, _phases = _time.time(), {}

    def _phase(name):
        _phases[name] = round(_time.time() - _t0, 1)
        ctx.note("phase_done_at_s", dict(_phases))
    rng = ctx.rng
    # a broken source tie (the regenerated save / patch programs are not proved equal to the hand model any more)
    # escalates the streams that exercise that fragment to their thorough-size budgets
    deep = ctx.thorough or (ctx.tie_broken("clisave") and not ctx.failures)     # a failing input already in hand: no need to dig
    if deep and not ctx.thorough:
        ctx.note("source_tie_escalation", "fault-schedule depth, direct save stream and histories run with thorough-size budgets")
    n_pairs = 500 if ctx.thorough else 120
    n_all = 24 if deep else 2
    n_pairs_mode = 80 if deep else 8
    tasks = []
    pairs = [(a, b, ["fixed"]) for (a, b) in FIXED_PAIRS]
    while len(pairs) < n_pairs:
        pairs.append(gen_pair(rng))
    for i, (a, b, kinds) in enumerate(pairs):
        mode = "all" if i < n_all else ("pairs" if i < n_all + n_pairs_mode else "single")
        tasks.append((i, a, b, a_text_of(a, rng), kinds, mode, rng.randrange(1 << 30), ctx.scratch))
    # the 'patch reproduces B' clause alone (fault-free diff -> patch round trips through the real CLI) on many more
    # pairs: planted scalar-list edit scripts + further random document pairs
    n_ref = 6000 if ctx.thorough else 900
    for j in range(n_ref):
        a, b, kinds = gen_number_pair(rng) if j % 12 == 5 else (gen_list_pair(rng) if j % 3 else gen_pair(rng))
        tasks.append((len(pairs) + j, a, b, a_text_of(a, rng), kinds, "ref", rng.randrange(1 << 30), ctx.scratch))
    # round 3: histories of several commands (JSON documents: inside the property) ...
    htasks = [(i, rng.randrange(1 << 30), ctx.scratch) for i in range(400 if deep else 60)]
    # ... and, as extension streams (outside the statement: recorded, never a violation): process crashes at every
    # point of the save path, every branch of _save_content / load_path_content, the real codecs
    ctasks = []
    for ftype, kinds in ((("json", ("ok", "bad")), ("csv", ("ok", "bad", "late")), ("pickle", ("ok", "bad", "late")),
                          ("toml", ("ok",))) + ((("xyz", ("ok",)), ("tsv", ("ok",))) if ctx.thorough else ())):
        for kind in kinds:
            for keep in ((False, True) if (ctx.thorough or kind == "ok") else (ftype == "csv",)):
                ctasks.append((ftype, keep, kind, rng.randrange(1 << 30), ctx.thorough, ctx.scratch))
    ftasks = [(ft, rng.randrange(1 << 30), ctx.thorough, ctx.scratch) for ft in ("csv", "tsv", "pickle", "toml", "yaml", "yml", "xyz", "json")]
    n_rt = 300 if ctx.thorough else 40
    rtasks = [(ft, n_rt, rng.randrange(1 << 30), ctx.scratch) for ft in ("csv", "pickle") for _ in range(2)]
    # the long tasks first
    with mp.get_context("fork").Pool(core.NCPU) as pool:
        r_direct = pool.apply_async(direct_task, ((rng.randrange(1 << 30), "all" if deep else "single", ctx.scratch),))
        r_crash = pool.map_async(crash_task, ctasks, chunksize=1)
        ltasks = [(i,) + gen_locale_pair(rng) + (bool(i % 2), ctx.scratch) for i in range(80 if ctx.thorough else 16)]
        r_locale = pool.map_async(locale_task, ltasks, chunksize=1)
        r_fmt = pool.map_async(cli_fmt_task, ftasks, chunksize=1)
        r_rt = pool.map_async(roundtrip_fmt_task, rtasks, chunksize=1)
        r_hist = pool.map_async(history_task, htasks, chunksize=2)
        r_opts = pool.map_async(options_task, [(rng.randrange(1 << 30), ctx.thorough, ctx.scratch)], chunksize=1)
        r_conc = pool.map_async(concurrent_task, [(rng.randrange(1 << 30), ctx.thorough, ctx.scratch)], chunksize=1)
        results = pool.map(pair_task, tasks, chunksize=1)
        rd = r_direct.get()
        results_locale = r_locale.get()
        results_hist = r_hist.get()
        _phase("pair_tasks")
        results_crash, results_fmt, results_rt = r_crash.get(), r_fmt.get(), r_rt.get()
        results_opts = r_opts.get()
        results_conc = r_conc.get()
    _phase("pool")
    collect(ctx, results, "c20_cli")
    _phase("coq_cli")
    collect(ctx, results_hist, "c20_history", GEN_HEADER)
    ctx.note("histories", {"n": len(htasks), "commands_per_history": "3-5", "fault_plans": "none / one / two fault points per command, Exception and KeyboardInterrupt kinds"})
    _phase("coq_history")
    with ctx.extension("Crash"):
        collect(ctx, results_crash, "c20_crash", GEN_HEADER)
    _phase("coq_crash")
    with ctx.extension("Formats"):
        collect(ctx, results_fmt + results_rt, "c20_formats", GEN_HEADER)
        ctx.coq_cases("c20_dispatch", GEN_HEADER, dispatch_cases(ctx), label="file-type dispatch (ext_of / fmt_of_ext) on path names")
        sys.path.insert(0, core.REPO)
        _quiet()
        for wit in FORMAT_WITNESSES:
            fmt_witness(ctx, *wit)
        ctx.count("optional_modules:" + ",".join("%s=%s/%s" % (k, fmt_mods()["load"][k], fmt_mods()["save"][k]) for k in sorted(fmt_mods()["load"])))
    with ctx.extension("Options"):
        collect(ctx, results_opts, "c20_options", OPT_HEADER)
        for wit in OPTION_WITNESSES:
            option_witness(ctx, *wit)
    with ctx.extension("Concurrent"):
        collect(ctx, results_conc, "c20_concurrent", CONC_HEADER)
    _phase("formats")
    gcases = [g for r in results for g in r.get("guard_cases", [])]
    ctx.coq_cases("c20_json_guards", GUARD_HEADER, gcases, shard=150, label="json_guardsb on the generated documents")
    pcases = [g for r in results for g in r.get("payload_cases", [])]
    from harness import deltacommon as DC
    ctx.coq_cases("c20_payload_guards", DC.HDR + "\nFrom DD Require Import Delta.DeltaChain Pickle.Codec Pickle.DeltaCodec Diff.DiffPaths Cli.JsonDocs Cli.JsonPickle.",
                  pcases, shard=100, label="keys_path_okb / payload conditions / ops_sorted2 on the generated documents")
    _phase("coq_guards")
    alias_witness(ctx)
    collect(ctx, [rd], "c20_save_direct")
    collect(ctx, results_locale, "c20_locale")
    _phase("end")
    ctx.note("fault_points", ["%s/%s" % p for p in POINTS])
    ctx.note("document_pairs", {"with_fault_schedules": len(pairs), "round_trip_only": n_ref})
    # every open finding must still reproduce on the implementation (otherwise the finding list is stale)
    for f in ctx.findings:
        if f.get("status") == "open" and f["key"] not in ctx.known_seen:
            ctx.break_("correspondence", {"name": "known-finding-no-longer-reproduces", "key": f["key"],
                                          "meaning": "the witness of this open finding now satisfies the property: update known_findings.d/C20.json"})


def replay(ctx, data):
    case = data.get("case", {})
    sys.path.insert(0, core.REPO)
    _quiet()
    if case.get("direct"):
        plan = {s: tuple(v) for s, v in case["faults"].items()}
        o = run_save_direct(case["a_present"], case["bak_present"], case["serialisable"], case["keep"], plan, ctx.scratch)
        ctx.evaluations += 1
        print("replay(direct): %r" % (o,))
        what = oracle_direct(case["a_present"], case["bak_present"], case["serialisable"], case["keep"], o)
        if what:
            ctx.fail(dict(case, clause="restore", observed=o), what)
        return
    if case.get("history"):
        r = history_task((case.get("hist_index", 0), case["hist_seed"], ctx.scratch))
        ctx.evaluations += 1
        print("replay (history of `deep patch` commands, seed %d): %d failing command(s)" % (case["hist_seed"], len(r["fails"])))
        for (c, what) in r["fails"]:
            print("   command %r: %s\n      faults=%r observed=%r" % (c.get("command"), what, c.get("faults"), c.get("observed")))
            ctx.fail(c, what)
        return
    if "a_text" not in case:
        return run(ctx)
    if case.get("locale"):
        r = locale_task((0, json.loads(case["a_text"]), json.loads(case["b_text"]), case.get("keep", False), ctx.scratch))
        ctx.evaluations += 1
        print("replay (separate process, %s): %d failing clause(s)" % (case["locale"], len(r["fails"])))
        for (c, what) in r["fails"]:
            print("   ", what, (c.get("observed") or {}).get("output", c.get("output", ""))[-200:])
            ctx.fail(c, what)
        return
    a_text, b_text = case["a_text"], case["b_text"]
    rc, delta_bytes, dexc, untouched = run_diff(a_text, b_text, ctx.scratch)
    print("replay: diff exit=%r exception=%r patch bytes=%d" % (rc, dexc, len(delta_bytes or b"")))
    if rc != 0 or not untouched:
        ctx.fail(dict(case, clause="diff", exit_code=rc, exception=dexc), "`deep diff A B --create-patch` failed or modified its inputs (exit %r, %s)" % (rc, dexc))
        return
    keep, debug, prebak = case.get("keep", False), case.get("debug", True), case.get("prebak", False)
    plan = {s: tuple(v) for s, v in case.get("faults", {}).items()}
    ref = run_patch(a_text, b_text, delta_bytes, keep, True, {}, False, ctx.scratch)
    ctx.evaluations += 1
    print("replay: fault-free run: A=%r A.bak=%r cli=%r" % (ref["A"], ref["bak"], ref["cli"]))
    fails, _loaded, _err = oracle_reference(a_text, b_text, keep, ref)
    for (clause, what) in fails:
        ctx.fail(dict(case, clause=clause, observed=ref), what)
    if plan or prebak:
        o = run_patch(a_text, b_text, delta_bytes, keep, debug, plan, prebak, ctx.scratch)
        ctx.evaluations += 1
        print("replay: faults=%r fired=%r\n        A=%r\n        A.bak=%r\n        cli=%r" % (plan, sorted(o["fired"]), o["A"], o["bak"], o["cli"]))
        what = oracle_faulty(a_text, b_text, ref["A"], plan, prebak, o)
        if what:
            ctx.fail(dict(case, clause="restore", observed=o), what)
